#!/bin/bash
# Offline setup after a fresh restore: build the check binaries once so that the
# Go build cache is warm (every check rebuilds from /repo's working tree anyway).
set -e
cd "$(dirname "$0")"
export GOFLAGS=-mod=mod GOPROXY=off GOSUMDB=off GOTOOLCHAIN=local
mkdir -p .build/bin evidence
(cd harness && go build -tags verif -o ../.build/bin/vcheck ./cmd/vcheck)
if [ -d harness/cmd/vcheckmc ] && ls harness/cmd/vcheckmc/*.go >/dev/null 2>&1; then
  (cd harness && go build -tags verif -o ../.build/bin/midicat ./cmd/midicat)
  (cd harness && PATH="$PWD/../.build/bin:$PATH" go build -tags verif -o ../.build/bin/openprobe ./cmd/openprobe)
  (cd harness && PATH="$PWD/../.build/bin:$PATH" go build -tags verif -race -o ../.build/bin/vcheckmc ./cmd/vcheckmc)
fi
echo setup ok
