#!/usr/bin/env python3
"""Regenerates MANIFEST.json from the table below (kept in one place so that the
manifest stays valid and current while checks are added)."""
import json, os, subprocess
HERE = os.path.dirname(os.path.abspath(__file__))

# id -> (category, technique, level text, level note, design ref)
CHECKS = {
 "C07": ("exploration", "runtime monitoring: exhaustive argument enumeration against an independent MIDI 1.0 wire table + loopback observation",
         "Every constructor argument tuple of the stated domain is executed (exhaustive), the emitted bytes are compared with an independent spec table, all 11 type-specific accessors are run on every result, and every in-range message is sent through a testdrv loopback and observed at the listener. Exhaustive within the stated finite domain, so 'held' means held on every tuple.",
         "trusts the transcription of the MIDI 1.0 table in harness/ref/wire.go and the Go toolchain", "DESIGN.md section 5 C07"),
}
NOT_YET = {}
def load_extra():
    p = os.path.join(HERE, "manifest_table.json")
    if os.path.exists(p):
        t = json.load(open(p))
        for k, v in t.get("checks", {}).items():
            CHECKS[k] = tuple(v)
        NOT_YET.update(t.get("not_applicable", {}))
load_extra()

src = []
hp = os.path.join(HERE, "hook_commits.txt")
if os.path.exists(hp):
    src = [l.split()[0] for l in open(hp) if l.strip() and not l.startswith("#")]

m = {
 "version": 1,
 "setup_cmd": "./setup.sh",
 "hooks": {
  "guard": "verif",
  "enable": "checks build the harness with `go build -tags verif` against /repo/v2 via a replace directive; no hook is needed by the current monitors (all observation points are public API), so the tag currently guards nothing in /repo",
  "baseline_off_cmd": "./baseline.sh",
  "source_commits": src,
  "add_only": True,
 },
 "engines": [
  {"name": "vcheck", "path": "harness/cmd/vcheck", "serves_properties": sorted(k for k in CHECKS if k != "C17"),
   "kind_free_text": "Go runtime monitors: worker processes run generated/enumerated/fault-injected workloads against the library rebuilt from /repo/v2 and compare the observed events with independent reference models (harness/ref)"},
  {"name": "vcheckmc", "path": "harness/cmd/vcheckmc", "serves_properties": ["C17"] if "C17" in CHECKS else [],
   "kind_free_text": "race-detector build (-race) of the lifecycle monitors: exhaustive testdrv histories against a lifecycle model, concurrent midicatdrv histories against a stand-in midicat helper, offline exactly-once/order/stop-stamp checkers and porcupine FIFO linearizability"},
 ],
 "checks": [],
 "notes": "All checks: ./run.sh <ID> <quick|thorough>; exit 0 held, 1 violated (VIOLATION line + replay file), 2 inconclusive (never on the unchanged tree). VERIF_SEED selects the seeded part of every case list; a fixed seed-independent core list always runs. VERIF_REPO=<dir> points the build at a scratch copy.",
 "not_applicable": [],
}
for k in sorted(CHECKS):
    cat, tech, text, note, ref = CHECKS[k]
    m["checks"].append({
      "property_id": k,
      "quick_cmd": f"./run.sh {k} quick",
      "thorough_cmd": f"./run.sh {k} thorough",
      "evidence_file": f"/verif/evidence/{k}.json",
      "replay_cmd_template": f"./run.sh {k} quick --replay {{path}}",
      "engine": "vcheckmc" if k == "C17" else "vcheck",
      "level_claimed": {"category": cat, "text": text, "design_ref": ref},
      "level_note": note,
      "technique": tech,
    })
props = [json.loads(l)["id"] for l in open(os.path.join(HERE, "properties.jsonl"))]
for p in props:
    if p not in CHECKS:
        m["not_applicable"].append({"property_id": p, "reason": NOT_YET.get(p, "monitor for this property is designed (DESIGN.md section 5) but not built yet; it will be claimed once its check is silent on the unchanged tree")})
json.dump(m, open(os.path.join(HERE, "MANIFEST.json"), "w"), indent=1)
print("checks:", len(m["checks"]), "not_applicable:", len(m["not_applicable"]))
