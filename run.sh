#!/bin/bash
# run.sh <PROPERTY-ID> <quick|thorough> [--replay <file>] [extra vcheck flags]
# Rebuilds the check binaries from the current working tree of the repository
# (default /repo, override with VERIF_REPO=<dir> for scratch copies) and runs the
# runtime monitors of one property. Exit 0 held, 1 violated, 2 inconclusive.
set -u
cd "$(dirname "$0")"
export GOFLAGS=-mod=mod GOPROXY=off GOSUMDB=off GOTOOLCHAIN=local
export VERIF_DIR="$PWD"
ID="${1:?property id}"; TIER="${2:-quick}"; shift; shift || true
REPO="${VERIF_REPO:-/repo}"
BIN="$VERIF_DIR/.build/bin"
FT_IDS="C04 C06 C12 C14"   # properties with case groups on the virtual clock
I32_IDS="C05 C08"          # properties with case groups for a platform where int has 32 bits (GOARCH=386 worker)
mkdir -p "$BIN"
MODFLAG=""
if [ "$REPO" != "/repo" ]; then
  # scratch copy: same module graph, replace directive pointing at the copy
  tag=$(echo "$REPO" | md5sum | cut -c1-8)
  BIN="$VERIF_DIR/.build/bin-$tag"; mkdir -p "$BIN"
  sed "s#=> /repo/v2#=> $REPO/v2#" harness/go.mod > "$VERIF_DIR/.build/alt-$tag.mod"
  cp harness/go.sum "$VERIF_DIR/.build/alt-$tag.sum" 2>/dev/null || true
  MODFLAG="-modfile=$VERIF_DIR/.build/alt-$tag.mod"
fi
build() { # build <out> <pkg> [flags...]
  local out="$1" pkg="$2"; shift 2
  (cd harness && go build $MODFLAG -tags verif "$@" -o "$out" "$pkg") || { echo "INCONCLUSIVE property=$ID reason=build of $pkg failed"; exit 2; }
}
case "$ID" in
  C17)
    build "$BIN/midicat" ./cmd/midicat
    PATH="$BIN:$PATH" build "$BIN/openprobe" ./cmd/openprobe
    PATH="$BIN:$PATH" build "$BIN/vcheckmc" ./cmd/vcheckmc -race
    export VERIF_HELPER_DIR="$BIN"
    PATH="$BIN:$PATH" exec "$BIN/vcheckmc" -property "$ID" -tier "$TIER" "$@"
    ;;
  *)
    build "$BIN/vcheck" ./cmd/vcheck
    case " $FT_IDS " in *" $ID "*)
      # workers on the Go runtime virtual clock (faketime tag; needs CGO_ENABLED=0, with cgo the clock never advances): long real pauses and hour-long playback in no time
      (cd harness && CGO_ENABLED=0 go build $MODFLAG -tags "verif faketime" -o "$BIN/vcheck-ft" ./cmd/vcheck) || { echo "INCONCLUSIVE property=$ID reason=build of the faketime worker failed"; exit 2; } ;;
    esac
    case " $I32_IDS " in *" $ID "*)
      (cd harness && GOARCH=386 CGO_ENABLED=0 go build $MODFLAG -tags verif -o "$BIN/vcheck-386" ./cmd/vcheck) || { echo "INCONCLUSIVE property=$ID reason=build of the 32-bit worker failed"; exit 2; } ;;
    esac
    exec "$BIN/vcheck" -property "$ID" -tier "$TIER" "$@"
    ;;
esac
