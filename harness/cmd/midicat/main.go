// Stand-in for the `midicat` helper binary that drivers/midicatdrv shells out to.
// It implements the sub-commands the driver uses:
//
//	midicat version -s            prints 0.6.8 (no newline)
//	midicat ins --json            {"0":"verif-in-0","1":"verif-in-1"}
//	midicat outs --json           {"0":"verif-out-0","1":"verif-out-1"}
//	midicat in --index=N          unix datagram socket $VERIF_MC_DIR/port-N.sock -> stdout lines "%d %X\n"
//	midicat out --index=N         stdin lines "%d %X\n" -> datagrams to $VERIF_MC_DIR/port-N.sock
//
// so that out port N loops back to in port N through two real processes and real
// pipes. Faults and delays are injected through the environment:
//
//	VERIF_MC_DELAY_US   sleep this long per line (both directions)
//	VERIF_MC_FAIL       "in" / "out" / "all": the named sub-command exits at once with status 3
//	VERIF_MC_LOG        directory: append every forwarded line to <dir>/<cmd>-<index>.log
package main

import (
	"bufio"
	"encoding/hex"
	"fmt"
	"net"
	"os"
	"path/filepath"
	"strconv"
	"strings"
	"time"
)

func main() {
	if len(os.Args) < 2 {
		os.Exit(2)
	}
	switch os.Args[1] {
	case "version":
		fmt.Print("0.6.8")
	case "ins":
		fmt.Print(`{"0":"verif-in-0","1":"verif-in-1"}`)
	case "outs":
		fmt.Print(`{"0":"verif-out-0","1":"verif-out-1"}`)
	case "in":
		failIf("in")
		runIn(index())
	case "out":
		failIf("out")
		runOut(index())
	default:
		os.Exit(2)
	}
}

func failIf(cmd string) {
	if f := os.Getenv("VERIF_MC_FAIL"); f == cmd || f == "all" {
		os.Exit(3)
	}
}

func index() int {
	for _, a := range os.Args[2:] {
		if strings.HasPrefix(a, "--index=") {
			n, _ := strconv.Atoi(strings.TrimPrefix(a, "--index="))
			return n
		}
	}
	return 0
}

func delay() {
	if d, _ := strconv.Atoi(os.Getenv("VERIF_MC_DELAY_US")); d > 0 {
		time.Sleep(time.Duration(d) * time.Microsecond)
	}
}

func sockPath(i int) string {
	return filepath.Join(os.Getenv("VERIF_MC_DIR"), fmt.Sprintf("port-%d.sock", i))
}

func logger(cmd string, i int) func(string) {
	dir := os.Getenv("VERIF_MC_LOG")
	if dir == "" {
		return func(string) {}
	}
	f, err := os.OpenFile(filepath.Join(dir, fmt.Sprintf("%s-%d.log", cmd, i)), os.O_APPEND|os.O_CREATE|os.O_WRONLY, 0o644)
	if err != nil {
		return func(string) {}
	}
	return func(s string) { f.WriteString(s) }
}

func runIn(i int) {
	p := sockPath(i)
	os.Remove(p)
	conn, err := net.ListenUnixgram("unixgram", &net.UnixAddr{Name: p, Net: "unixgram"})
	if err != nil {
		fmt.Fprintln(os.Stderr, "midicat stand-in: listen:", err)
		os.Exit(1)
	}
	conn.SetReadBuffer(1 << 20)
	defer os.Remove(p)
	lg := logger("in", i)
	start := time.Now()
	buf := make([]byte, 1<<18)
	out := bufio.NewWriter(os.Stdout)
	for {
		n, err := conn.Read(buf)
		if err != nil {
			return
		}
		delay()
		line := fmt.Sprintf("%d %X\n", time.Since(start).Milliseconds(), buf[:n])
		if _, err := out.WriteString(line); err != nil {
			return
		}
		if err := out.Flush(); err != nil {
			return
		}
		lg(line)
	}
}

func runOut(i int) {
	lg := logger("out", i)
	sc := bufio.NewScanner(os.Stdin)
	sc.Buffer(make([]byte, 1<<20), 1<<20)
	var conn *net.UnixConn
	for sc.Scan() {
		line := sc.Text()
		sp := strings.IndexByte(line, ' ')
		if sp < 0 {
			continue
		}
		b, err := hex.DecodeString(line[sp+1:])
		if err != nil {
			continue
		}
		delay()
		if conn == nil {
			c, err := net.DialUnix("unixgram", nil, &net.UnixAddr{Name: sockPath(i), Net: "unixgram"})
			if err != nil {
				continue // nobody listens on the in side: the message is dropped, as on a real MIDI cable
			}
			c.SetWriteBuffer(1 << 20)
			conn = c
		}
		if _, err := conn.Write(b); err != nil {
			conn.Close()
			conn = nil
			continue
		}
		lg(line + "\n")
	}
}
