// vcheck runs the runtime monitors of all properties except C17 (which needs the
// race-instrumented binary vcheckmc).
package main

import (
	"verif/harness/mon"
	_ "verif/harness/props"
)

func main() { mon.Main() }
