// openprobe is the child process of C17 group (c): built WITHOUT the race detector, so that
// the Go runtime's own deadlock detector ("all goroutines are asleep") is active and a call
// that can never return is reported deterministically instead of by a wall-clock watchdog.
package main

import (
	"os"

	"verif/harness/props17"
)

func main() {
	mode := "in"
	if len(os.Args) >= 2 {
		mode = os.Args[1]
	}
	props17.OpenProbe(mode)
}
