// vcheckmc is the race-instrumented check binary of C17. It links
// drivers/midicatdrv, whose init() needs the (stand-in) midicat helper in PATH.
package main

import (
	"os"

	"verif/harness/mon"
	"verif/harness/props17"
)

func main() {
	if len(os.Args) >= 3 && os.Args[1] == "openprobe" {
		props17.OpenProbe(os.Args[2])
		return
	}
	mon.Main()
}
