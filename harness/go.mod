module verif/harness

go 1.22.2

toolchain go1.23.5

require (
	github.com/anishathalye/porcupine v1.3.0
	gitlab.com/gomidi/midi/v2 v2.0.0
)

replace gitlab.com/gomidi/midi/v2 => /repo/v2
