// Package props17 holds the monitors of C17 (port lifecycle). It imports
// drivers/midicatdrv, whose init() runs the midicat helper, so it is only linked
// into the race-instrumented binary vcheckmc that run.sh starts with the stand-in
// helper first in PATH.
package props17

import (
	"bytes"
	"errors"
	"fmt"

	"gitlab.com/gomidi/midi/v2"
	"gitlab.com/gomidi/midi/v2/drivers"
	"gitlab.com/gomidi/midi/v2/drivers/testdrv"

	"verif/harness/mon"
)

// lifecycle operations of the exhaustive in-memory histories
const (
	opInOpen = iota
	opInClose
	opOutOpen
	opOutClose
	opListen
	opStop
	opSend
	nOps
)

var opNames = []string{"in.Open", "in.Close", "out.Open", "out.Close", "Listen", "stop", "Send"}

// model is the sequential lifecycle model of a port pair.
type model struct {
	inOpen, outOpen bool
	active          int // id of the active listener, 0 = none
	listens         int // listeners created so far
	stopsSinceLast  int
}

// legal reports whether op respects the port protocol in this state.
func (m *model) legal(op int, viaListenTo bool) bool {
	switch op {
	case opListen:
		if m.active != 0 {
			return false
		}
		return m.inOpen || viaListenTo // midi.ListenTo opens the port itself
	case opInClose:
		return m.active == 0
	case opStop:
		return m.listens > 0 && m.stopsSinceLast < 2
	}
	return true
}

func histString(h []int) string {
	s := ""
	for i, o := range h {
		if i > 0 {
			s += " "
		}
		s += opNames[o]
	}
	return s
}

// runTestdrvHistory executes one history on a fresh testdrv pair and compares every
// result and callback with the model.
func runTestdrvHistory(c *mon.Ctx, h []int, viaListenTo bool) {
	drv := testdrv.New("c17")
	ins, _ := drv.Ins()
	outs, _ := drv.Outs()
	in, out := ins[0], outs[0]
	var m model
	level := "drivers.In.Listen"
	if viaListenTo {
		level = "midi.ListenTo"
	}
	desc := map[string]any{"history": histString(h), "listen_via": level}
	type deliv struct {
		listener int
		msg      []byte
	}
	var got []deliv
	var stopFn func()
	sendID := 0
	fail := func(class, msg string, want, gotv any) {
		c.Violation("testdrv:"+class, fmt.Sprintf("%s [history: %s; %s]", msg, histString(h), level), desc, want, gotv)
	}
	for step, op := range h {
		stepDesc := fmt.Sprintf("step %d (%s)", step, opNames[op])
		var panicked bool
		switch op {
		case opInOpen, opInClose, opOutOpen, opOutClose:
			var err error
			panicked = c.Guard("panic:testdrv", desc, func() {
				switch op {
				case opInOpen:
					err = in.Open()
					m.inOpen = true
				case opInClose:
					err = in.Close()
					m.inOpen = false
				case opOutOpen:
					err = out.Open()
					m.outOpen = true
				case opOutClose:
					err = out.Close()
					m.outOpen = false
				}
			})
			if panicked {
				return
			}
			if err != nil {
				fail("open-close-error", fmt.Sprintf("%s returned %v", stepDesc, err), nil, err.Error())
				return
			}
			if in.IsOpen() != m.inOpen || out.IsOpen() != m.outOpen {
				fail("isopen", fmt.Sprintf("after %s: in.IsOpen=%v out.IsOpen=%v, model %v %v", stepDesc, in.IsOpen(), out.IsOpen(), m.inOpen, m.outOpen), []bool{m.inOpen, m.outOpen}, []bool{in.IsOpen(), out.IsOpen()})
				return
			}
		case opListen:
			m.listens++
			id := m.listens
			var err error
			panicked = c.Guard("panic:testdrv", desc, func() {
				if viaListenTo {
					stopFn, err = midi.ListenTo(in, func(msg midi.Message, ts int32) {
						got = append(got, deliv{id, append([]byte(nil), msg...)})
					}, midi.UseSysEx(), midi.UseTimeCode(), midi.UseActiveSense())
					m.inOpen = true
				} else {
					stopFn, err = in.Listen(func(msg []byte, ts int32) {
						got = append(got, deliv{id, append([]byte(nil), msg...)})
					}, drivers.ListenConfig{SysEx: true, TimeCode: true, ActiveSense: true})
				}
			})
			if panicked {
				return
			}
			if err != nil || stopFn == nil {
				fail("listen-error", fmt.Sprintf("%s returned (%v, %v)", stepDesc, stopFn != nil, err), "stop function, nil", fmt.Sprint(err))
				return
			}
			m.active = id
			m.stopsSinceLast = 0
			c.Count("testdrv_listens", 1)
			if id > 1 {
				c.Count("testdrv_relistens", 1)
			}
		case opStop:
			panicked = c.Guard("panic:testdrv", desc, func() { stopFn() })
			if panicked {
				return
			}
			m.active = 0
			m.stopsSinceLast++
			c.Count("testdrv_stops", 1)
		case opSend:
			sendID++
			msg := []byte{0x90, byte(sendID), byte(step + 1)}
			before := len(got)
			var err error
			panicked = c.Guard("panic:testdrv", desc, func() { err = out.Send(msg) })
			if panicked {
				return
			}
			c.Count("testdrv_sends", 1)
			news := got[before:]
			switch {
			case !m.outOpen:
				c.Count("testdrv_sends_closed", 1)
				if !errors.Is(err, drivers.ErrPortClosed) {
					fail("send-closed", fmt.Sprintf("%s on a closed out-port returned %v", stepDesc, err), "ErrPortClosed", fmt.Sprint(err))
					return
				}
				if len(news) != 0 {
					fail("send-closed-delivered", fmt.Sprintf("%s on a closed out-port was delivered", stepDesc), 0, len(news))
					return
				}
			case m.active == 0:
				c.Count("testdrv_sends_no_listener", 1)
				if m.listens == 0 {
					c.Count("testdrv_sends_before_first_listen", 1)
				}
				if err != nil {
					fail("send-dropped-error", fmt.Sprintf("%s with no active listener returned %v", stepDesc, err), "nil", err.Error())
					return
				}
				if len(news) != 0 {
					fail("delivered-after-stop", fmt.Sprintf("%s with no active listener was delivered to listener %d (stopped or never started)", stepDesc, news[0].listener), 0, len(news))
					return
				}
			default:
				c.Count("testdrv_sends_live", 1)
				if err != nil {
					fail("send-live-error", fmt.Sprintf("%s returned %v", stepDesc, err), "nil", err.Error())
					return
				}
				if len(news) != 1 || news[0].listener != m.active || !bytes.Equal(news[0].msg, msg) {
					fail("live-delivery", fmt.Sprintf("%s with listener %d active: %d deliveries %v", stepDesc, m.active, len(news), news), fmt.Sprintf("exactly once to listener %d", m.active), fmt.Sprint(news))
					return
				}
				c.Count("testdrv_deliveries", 1)
			}
		}
	}
}

// enumTestdrv enumerates all protocol-respecting histories of exactly the given
// length with the given first two operations (sharding unit) and runs them.
func enumTestdrv(c *mon.Ctx, first, second, length int) int64 {
	var n int64
	h := make([]int, 0, length)
	var rec func(m model, viaLT bool)
	apply := func(m model, op int, viaLT bool) model {
		switch op {
		case opInOpen:
			m.inOpen = true
		case opInClose:
			m.inOpen = false
		case opOutOpen:
			m.outOpen = true
		case opOutClose:
			m.outOpen = false
		case opListen:
			m.listens++
			m.active = m.listens
			m.stopsSinceLast = 0
			if viaLT {
				m.inOpen = true
			}
		case opStop:
			m.active = 0
			m.stopsSinceLast++
		}
		return m
	}
	for _, viaLT := range []bool{false, true} {
		rec = func(m model, viaLT bool) {
			if len(h) == length {
				runTestdrvHistory(c, h, viaLT)
				n++
				return
			}
			for op := 0; op < nOps; op++ {
				if len(h) == 0 && op != first {
					continue
				}
				if len(h) == 1 && op != second {
					continue
				}
				if !m.legal(op, viaLT) {
					continue
				}
				h = append(h, op)
				rec(apply(m, op, viaLT), viaLT)
				h = h[:len(h)-1]
			}
		}
		rec(model{}, viaLT)
	}
	return n
}
