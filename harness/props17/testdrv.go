// Package props17 holds the monitors of C17 (port lifecycle). It imports
// drivers/midicatdrv, whose init() runs the midicat helper, so it is only linked
// into the race-instrumented binary vcheckmc that run.sh starts with the stand-in
// helper first in PATH.
package props17

import (
	"bytes"
	"errors"
	"fmt"

	"gitlab.com/gomidi/midi/v2"
	"gitlab.com/gomidi/midi/v2/drivers"
	"gitlab.com/gomidi/midi/v2/drivers/testdrv"

	"verif/harness/mon"
)

// lifecycle operations of the exhaustive in-memory histories
const (
	opInOpen = iota
	opInClose
	opOutOpen
	opOutClose
	opListen
	opStop
	opSend
	nOps
)

var opNames = []string{"in.Open", "in.Close", "out.Open", "out.Close", "Listen", "stop", "Send"}

// model is the sequential lifecycle model of a port pair.
type model struct {
	inOpen, outOpen bool
	active          int // id of the active listener, 0 = none
	listens         int // listeners created so far
	stopsSinceLast  int
}

// legal reports whether op respects the port protocol in this state.
func (m *model) legal(op int, viaListenTo bool) bool {
	switch op {
	case opListen:
		if m.active != 0 {
			return false
		}
		return m.inOpen || viaListenTo // midi.ListenTo opens the port itself
	case opInClose:
		return m.active == 0
	case opStop:
		return m.listens > 0 && m.stopsSinceLast < 2
	}
	return true
}

func histString(h []int) string {
	s := ""
	for i, o := range h {
		if i > 0 {
			s += " "
		}
		s += opNames[o]
	}
	return s
}

// runTestdrvHistory executes one history on a fresh testdrv pair and compares every
// result and callback with the model.
// c17Cfgs: what the successive listeners of one history ask for (variant v: listener id uses c17Cfgs[(id+v)%len]).
// Variant 0 is "every listener asks for everything". A message sent while listener id is active is one that this
// listener asked for (see c17Msg), so the lifecycle model stays "delivered exactly once".
type c17Cfg struct {
	sysex, clock, sense bool
	buf                 uint32
}

var c17Cfgs = []c17Cfg{{true, true, true, 0}, {false, false, false, 0}, {true, false, true, 4096}, {true, true, false, 16}, {false, true, false, 0}}

func c17CfgOf(variant, id int) c17Cfg {
	if variant == 0 {
		return c17Cfgs[0]
	}
	return c17Cfgs[(id+variant)%len(c17Cfgs)]
}

// c17Msg is the k-th message of a history: a note, or the most demanding message the active listener asked for
// (a sysex of the size its buffer takes, a real-time byte of a class it enabled).
func c17Msg(cfg c17Cfg, variant, k, step int) []byte {
	note := []byte{0x90, byte(k), byte(step + 1)}
	if variant == 0 {
		return note
	}
	switch k % 3 {
	case 0:
		if cfg.sysex {
			// lengths up to what the listener's buffer takes, with the powers of two and their neighbours among them
			n := []int{1024, 2, 3, 65, 129, 257, 513, 1023, 64, 128, 256, 512, 33, 1000}[(k*5+step)%14]
			switch {
			case cfg.buf == 16:
				n = []int{16, 2, 9, 15}[(k+step)%4]
			case cfg.buf == 4096:
				n = 1025 + (k*577+step*131)%3000
				if (k+step)%3 == 0 {
					n = []int{1025, 2049, 4096, 4095, 2048, 257}[(k*7+step)%6]
				}
			}
			m := make([]byte, n)
			m[0], m[n-1] = 0xF0, 0xF7
			for j := 1; j < n-1; j++ {
				m[j] = byte(j+k) & 0x7F
			}
			return m
		}
	case 1:
		if cfg.clock {
			return []byte{0xF8}
		}
		if cfg.sense {
			return []byte{0xFE}
		}
	}
	return note
}

func runTestdrvHistory(c *mon.Ctx, h []int, viaListenTo bool) {
	runTestdrvHistoryV(c, h, viaListenTo, 0)
	c17Variant++
	runTestdrvHistoryV(c, h, viaListenTo, 1+c17Variant%4)
	// variant 5: every Send carries two complete messages, and every listener ends itself (calls its own stop
	// function from the callback) on its 1st, 2nd or 3rd message: what the same Send still holds must not reach it
	runTestdrvHistoryV(c, h, viaListenTo, c17SelfStop)
}

const c17SelfStop = 5

var c17Variant int

func runTestdrvHistoryV(c *mon.Ctx, h []int, viaListenTo bool, variant int) {
	drv := testdrv.New("c17")
	ins, _ := drv.Ins()
	outs, _ := drv.Outs()
	in, out := ins[0], outs[0]
	var m model
	level := "drivers.In.Listen"
	if viaListenTo {
		level = "midi.ListenTo"
	}
	desc := map[string]any{"history": histString(h), "listen_via": level}
	selfStop := false
	received := map[int]int{} // listener id -> messages it got
	if variant == c17SelfStop {
		desc["variant"] = "every Send carries two messages; listener id calls its own stop function inside the callback of its (1 + id%3)-th message"
		c.Count("testdrv_histories_with_self_stopping_listeners", 1)
		variant = 0
		selfStop = true
	}
	if variant > 0 {
		desc["listener options"] = fmt.Sprintf("variant %d: listener id asks for c17Cfgs[(id+%d)%%%d] of %+v", variant, variant, len(c17Cfgs), c17Cfgs)
		c.Count("testdrv_histories_with_differing_listener_options", 1)
	}
	var activeCfg c17Cfg
	type deliv struct {
		listener int
		msg      []byte
	}
	var got []deliv
	var stopFn func()
	sendID := 0
	replying := false
	onMsg := func(id int, msg []byte) {
		got = append(got, deliv{id, append([]byte(nil), msg...)})
		received[id]++
		if selfStop && !replying && received[id] == 1+id%3 {
			if id%2 == 0 && out.IsOpen() {
				// the listener answers first (a reply sent while the out-port is open and it is itself still active: it gets
				// it, nested, before this callback goes on), then ends itself
				replying = true
				out.Send([]byte{0x92, byte(id), 0x7F})
				replying = false
				c.Count("testdrv_replies_sent_from_inside_the_callback_before_its_own_stop", 1)
			}
			stopFn() // returns here: from now on the listener must not be called again
			c.Count("testdrv_stops_from_inside_the_callback", 1)
		}
	}
	fail := func(class, msg string, want, gotv any) {
		c.Violation("testdrv:"+class, fmt.Sprintf("%s [history: %s; %s]", msg, histString(h), level), desc, want, gotv)
	}
	for step, op := range h {
		stepDesc := fmt.Sprintf("step %d (%s)", step, opNames[op])
		var panicked bool
		switch op {
		case opInOpen, opInClose, opOutOpen, opOutClose:
			var err error
			panicked = c.Guard("panic:testdrv", desc, func() {
				switch op {
				case opInOpen:
					err = in.Open()
					m.inOpen = true
				case opInClose:
					err = in.Close()
					m.inOpen = false
				case opOutOpen:
					err = out.Open()
					m.outOpen = true
				case opOutClose:
					err = out.Close()
					m.outOpen = false
				}
			})
			if panicked {
				return
			}
			if err != nil {
				fail("open-close-error", fmt.Sprintf("%s returned %v", stepDesc, err), nil, err.Error())
				return
			}
			if in.IsOpen() != m.inOpen || out.IsOpen() != m.outOpen {
				fail("isopen", fmt.Sprintf("after %s: in.IsOpen=%v out.IsOpen=%v, model %v %v", stepDesc, in.IsOpen(), out.IsOpen(), m.inOpen, m.outOpen), []bool{m.inOpen, m.outOpen}, []bool{in.IsOpen(), out.IsOpen()})
				return
			}
		case opListen:
			m.listens++
			id := m.listens
			var err error
			cfg := c17CfgOf(variant, id)
			activeCfg = cfg
			panicked = c.Guard("panic:testdrv", desc, func() {
				if viaListenTo {
					var opts []midi.Option
					if cfg.sysex {
						opts = append(opts, midi.UseSysEx())
					}
					if cfg.clock {
						opts = append(opts, midi.UseTimeCode())
					}
					if cfg.sense {
						opts = append(opts, midi.UseActiveSense())
					}
					if cfg.buf > 0 {
						opts = append(opts, midi.SysExBufferSize(cfg.buf))
					}
					stopFn, err = midi.ListenTo(in, func(msg midi.Message, ts int32) { onMsg(id, msg) }, opts...)
					m.inOpen = true
				} else {
					stopFn, err = in.Listen(func(msg []byte, ts int32) { onMsg(id, msg) }, drivers.ListenConfig{SysEx: cfg.sysex, TimeCode: cfg.clock, ActiveSense: cfg.sense, SysExBufferSize: cfg.buf})
				}
			})
			if panicked {
				return
			}
			if err != nil || stopFn == nil {
				fail("listen-error", fmt.Sprintf("%s returned (%v, %v)", stepDesc, stopFn != nil, err), "stop function, nil", fmt.Sprint(err))
				return
			}
			m.active = id
			m.stopsSinceLast = 0
			c.Count("testdrv_listens", 1)
			if id > 1 {
				c.Count("testdrv_relistens", 1)
			}
		case opStop:
			panicked = c.Guard("panic:testdrv", desc, func() { stopFn() })
			if panicked {
				return
			}
			m.active = 0
			m.stopsSinceLast++
			c.Count("testdrv_stops", 1)
		case opSend:
			sendID++
			msg := c17Msg(activeCfg, variant, sendID, step)
			if len(msg) > 3 {
				c.Count("testdrv_sysex_sends", 1)
			}
			parts := [][]byte{msg}
			if selfStop {
				second := []byte{0x91, byte(sendID), byte(step + 1)}
				parts = append(parts, second)
				msg = append(append([]byte(nil), msg...), second...)
			}
			// what the model delivers: the messages of this call up to the one on which the listener ends itself
			var expect [][]byte
			selfStopped := false
			if m.outOpen && m.active != 0 {
				n := received[m.active]
				for _, p := range parts {
					expect = append(expect, p)
					n++
					if selfStop && n == 1+m.active%3 {
						selfStopped = true
						if m.active%2 == 0 {
							expect = append(expect, []byte{0x92, byte(m.active), 0x7F})
						}
						break
					}
				}
			}
			before := len(got)
			var err error
			panicked = c.Guard("panic:testdrv", desc, func() { err = out.Send(msg) })
			if panicked {
				return
			}
			c.Count("testdrv_sends", 1)
			news := got[before:]
			switch {
			case !m.outOpen:
				c.Count("testdrv_sends_closed", 1)
				if !errors.Is(err, drivers.ErrPortClosed) {
					fail("send-closed", fmt.Sprintf("%s on a closed out-port returned %v", stepDesc, err), "ErrPortClosed", fmt.Sprint(err))
					return
				}
				if len(news) != 0 {
					fail("send-closed-delivered", fmt.Sprintf("%s on a closed out-port was delivered", stepDesc), 0, len(news))
					return
				}
			case m.active == 0:
				c.Count("testdrv_sends_no_listener", 1)
				if m.listens == 0 {
					c.Count("testdrv_sends_before_first_listen", 1)
				}
				if err != nil {
					fail("send-dropped-error", fmt.Sprintf("%s with no active listener returned %v", stepDesc, err), "nil", err.Error())
					return
				}
				if len(news) != 0 {
					fail("delivered-after-stop", fmt.Sprintf("%s with no active listener was delivered to listener %d (stopped or never started)", stepDesc, news[0].listener), 0, len(news))
					return
				}
			default:
				c.Count("testdrv_sends_live", 1)
				if err != nil {
					fail("send-live-error", fmt.Sprintf("%s returned %v", stepDesc, err), "nil", err.Error())
					return
				}
				if selfStopped && len(news) > len(expect) {
					fail("called-after-own-stop", fmt.Sprintf("%s: listener %d called its stop function inside the callback of message %d of this call (the stop function returned), and was then called again with % X", stepDesc, m.active, len(expect), news[len(expect)].msg), fmt.Sprintf("%d deliveries", len(expect)), fmt.Sprint(news))
					return
				}
				ok := len(news) == len(expect)
				for k := 0; ok && k < len(news); k++ {
					ok = news[k].listener == m.active && bytes.Equal(news[k].msg, expect[k])
				}
				if !ok {
					fail("live-delivery", fmt.Sprintf("%s with listener %d active: %d deliveries %v", stepDesc, m.active, len(news), news), fmt.Sprintf("exactly once to listener %d: % X", m.active, expect), fmt.Sprint(news))
					return
				}
				c.Count("testdrv_deliveries", int64(len(news)))
				if selfStopped {
					m.active = 0
					m.stopsSinceLast++
				}
			}
		}
	}
}

// enumTestdrv enumerates all protocol-respecting histories of exactly the given
// length with the given first two operations (sharding unit) and runs them.
func enumTestdrv(c *mon.Ctx, first, second, length int) int64 {
	var n int64
	h := make([]int, 0, length)
	var rec func(m model, viaLT bool)
	apply := func(m model, op int, viaLT bool) model {
		switch op {
		case opInOpen:
			m.inOpen = true
		case opInClose:
			m.inOpen = false
		case opOutOpen:
			m.outOpen = true
		case opOutClose:
			m.outOpen = false
		case opListen:
			m.listens++
			m.active = m.listens
			m.stopsSinceLast = 0
			if viaLT {
				m.inOpen = true
			}
		case opStop:
			m.active = 0
			m.stopsSinceLast++
		}
		return m
	}
	for _, viaLT := range []bool{false, true} {
		rec = func(m model, viaLT bool) {
			if len(h) == length {
				runTestdrvHistory(c, h, viaLT)
				n++
				return
			}
			for op := 0; op < nOps; op++ {
				if len(h) == 0 && op != first {
					continue
				}
				if len(h) == 1 && op != second {
					continue
				}
				if !m.legal(op, viaLT) {
					continue
				}
				h = append(h, op)
				rec(apply(m, op, viaLT), viaLT)
				h = h[:len(h)-1]
			}
		}
		rec(model{}, viaLT)
	}
	return n
}
