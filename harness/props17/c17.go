package props17

import (
	"bytes"
	"fmt"
	"os"
	"os/exec"
	"path/filepath"
	"runtime"
	"strconv"
	"strings"
	"sync"
	"sync/atomic"
	"syscall"
	"time"

	"gitlab.com/gomidi/midi/v2/drivers"
	"gitlab.com/gomidi/midi/v2/drivers/midicatdrv"

	"verif/harness/mon"
)

func init() {
	mon.Register(&mon.Spec{
		ID:    "C17",
		Level: "exploration",
		Rule: "(a) in-memory driver: exhaustive enumeration of all protocol-respecting histories of exact length 7 (quick) / 9 (thorough) over {in.Open, in.Close, out.Open, out.Close, Listen, stop, Send}, through drivers.In.Listen and through midi.ListenTo, each step compared with a sequential lifecycle model; " +
			"(b) process-backed driver under the race detector against a stand-in helper binary: seeded concurrent histories (1-2 port pairs, 1-8 concurrent senders, sleeping callbacks, listen/stop cycles with and without traffic in flight, IsOpen polling, injected helper delays), recorded at the client boundary with a logical clock and checked offline " +
			"(no fabrication/duplication, per-sender order, exactly-once before an observed sentinel, no callback after stop returned, porcupine FIFO linearizability); (c) non-race child processes whose main goroutine opens ports while the helper cannot be started, and sends / listens / closes after the helper process has died (runtime deadlock detector decides 'blocks forever'). " +
			"distinct: enumerated histories are distinct by construction; concurrent histories by seed index. Every history is non-trivial (contains at least one call whose result is compared with the model)",
		Assumptions: []string{
			"port protocol (drivers/port.go): Listen only on an open in-port with no active listener (midi.ListenTo opens the port itself), in.Close only with no active listener, a stop function only before the next Listen (calling it twice is allowed)",
			"the process-backed pipeline is asynchronous: exactly-once is required for messages whose Send returned before a sentinel that was observed by the listener of the same window; messages outside live windows may be dropped",
			"stand-in helper harness/cmd/midicat implements the sub-commands the driver uses (version -s, ins/outs --json, in/out --index=N) over a unix datagram loopback",
			"wall-clock limits (30 s to observe a probe/sentinel, 60 s per call) only ever make a run inconclusive",
			"race freedom is what the Go race detector reports on the executions produced (GORACE log, report blocks counted)",
		},
		Require: []string{"testdrv_histories", "testdrv_relistens", "testdrv_histories_with_differing_listener_options", "testdrv_sysex_sends", "mc_listento_sysex_lengths_swept", "mc_listento_dumps_of_32KiB_and_more", "mc_out_reopened_at_once", "mc_out_closed_right_after_send", "mc_reaping_checks", "stop_called_by_listener_probes", "testdrv_sends_before_first_listen", "testdrv_sends_closed", "testdrv_deliveries",
			"mc_histories", "mc_deliveries", "mc_overlapping_sends", "mc_exactly_once_checks", "mc_stop_stamp_checks", "mc_porcupine_histories", "mc_relistens", "mc_stops_with_traffic_in_flight", "open_unstartable_probes", "helper_dies_probes", "mc_slow_callback_stops", "close_with_traffic_probes", "mc_opens_from_dying_thread", "mc_listento_deliveries", "mc_dumps_sent_by_concurrent_senders", "mc_bursts_behind_slow_callback"},
		Workers: 8,
		UsesCur: true,
		Run:     runC17,
		EnvFn: func(dir string) []string {
			return []string{"GORACE=halt_on_error=0 log_path=" + filepath.Join(dir, "race")}
		},
		Post: postC17,
	})
}

func postC17(m *mon.Merged) {
	// count race detector report blocks in the logs of all workers
	files, _ := filepath.Glob(filepath.Join(m.Dir, "race.*"))
	reports := 0
	seen := map[string]bool{}
	for _, f := range files {
		b, err := os.ReadFile(f)
		if err != nil {
			continue
		}
		for _, blk := range strings.Split(string(b), "==================") {
			if !strings.Contains(blk, "WARNING: DATA RACE") {
				continue
			}
			reports++
			key := raceKey(blk)
			if seen[key] {
				continue
			}
			seen[key] = true
			m.ViolCount++
			m.Violations = append(m.Violations, mon.Violation{Class: "race:" + key, CaseID: "midicat", Sig: "race:" + key,
				Message: "the race detector reported a data race in the process-backed driver workload: " + key, Got: clipStr(blk, 5000)})
		}
	}
	m.Counters["race_detector_reports"] = int64(reports)
	m.Counters["race_detector_logs"] = int64(len(files))
	m.Notes["race_detector"] = fmt.Sprintf("binary built with -race; GORACE halt_on_error=0 log_path=<run dir>/race; %d report blocks in %d log files", reports, len(files))
}

// raceKey deduplicates reports by the pair of innermost library frames with line numbers stripped.
func raceKey(blk string) string {
	var fr []string
	for _, l := range strings.Split(blk, "\n") {
		l = strings.TrimSpace(l)
		if strings.HasPrefix(l, "gitlab.com/gomidi/") || strings.HasPrefix(l, "verif/harness/") {
			if i := strings.IndexByte(l, '('); i > 0 {
				l = l[:i]
			}
			fr = append(fr, l)
			if len(fr) == 2 {
				break
			}
		}
	}
	return strings.Join(fr, " <-> ")
}

func clipStr(s string, n int) string {
	if len(s) > n {
		return s[:n]
	}
	return s
}

func runC17(c *mon.Ctx) {
	length := 7
	if c.Thorough() {
		length = 9
	}
	// (a) exhaustive testdrv histories, sharded by the first two operations
	c.Each("testdrv", nOps*nOps, func(i int64, _ *mon.Rand) {
		n := enumTestdrv(c, int(i)/nOps, int(i)%nOps, length)
		c.Count("testdrv_histories", n)
		c.Enumerated(n)
		if n > 0 {
			c.Eval(n - 1)
		}
		if i == int64(opOutOpen*nOps+opSend) {
			c.Sample("testdrv-history", fmt.Sprintf("all %d protocol-respecting histories of length %d starting with out.Open Send, e.g. out.Open Send in.Open Listen Send stop Send", n, length))
		}
	})
	c.MarkExhaustive(fmt.Sprintf("all protocol-respecting testdrv lifecycle histories of length %d over 7 operations, at the driver level and through midi.ListenTo", length))

	// (b) concurrent histories on the process-backed driver
	nh := c.N(64, 1200)
	c.Each("midicat", nh, func(i int64, r *mon.Rand) {
		if c.Thorough() {
			// vary the scheduler as well
			procs := []int{2, 3, 4, 16}[i%4] // not 1: every open in-port runs a spinning control goroutine
			old := setProcs(procs)
			defer setProcs(old)
		}
		runMidicatHistory(c, r, i)
		CheckHelpersReaped(c, "concurrent history")
		c.DistinctBytes([]byte(fmt.Sprint("mc", i)))
		if i == 0 {
			c.Sample("midicat-history", "ports opened twice, cycles of Listen / probe / concurrent senders / sentinel / stop / messages outside the window, Close twice, Send and Listen on closed ports; see rule")
		}
	})

	// (b2) ordinary MIDI messages of every length through midi.SendTo / midi.ListenTo on the same driver
	c.Each("midicat-listento", c.N(16, 300), func(i int64, r *mon.Rand) {
		runMidicatListenTo(c, r, i)
		CheckHelpersReaped(c, "ListenTo / SendTo history")
		c.DistinctBytes([]byte(fmt.Sprint("mclt", i)))
	})

	c.Each("midicat-slow-callback", 1, func(_ int64, _ *mon.Rand) { runSlowCallbackHistory(c) })
	c.Each("midicat-burst-behind-slow-callback", 1, func(_ int64, _ *mon.Rand) { runBurstBehindSlowCallback(c) })

	// (c) no call blocks forever when the helper cannot be started
	c.Each("open-unstartable", 7, func(i int64, _ *mon.Rand) {
		mode := []string{"in", "out", "list", "outdies", "indies", "closebusy", "stopincallback"}[i]
		exe, _ := os.Executable()
		args := []string{"openprobe", mode}
		if hd := os.Getenv("VERIF_HELPER_DIR"); hd != "" {
			if _, err := os.Stat(filepath.Join(hd, "openprobe")); err == nil {
				exe, args = filepath.Join(hd, "openprobe"), []string{mode} // non-race build: runtime deadlock detector active
			}
		}
		logf := filepath.Join(c.Dir, fmt.Sprintf("openprobe-%s.log", mode))
		lf, _ := os.Create(logf)
		cmd := exec.Command(exe, args...)
		cmd.Stdout, cmd.Stderr = lf, lf
		cmd.Env = append(os.Environ(), "GORACE=halt_on_error=0")
		if err := cmd.Start(); err != nil {
			c.Inconclusive("cannot start open probe: " + err.Error())
			return
		}
		done := make(chan error, 1)
		go func() { done <- cmd.Wait() }()
		var werr error
		timedOut := false
		select {
		case werr = <-done:
		case <-time.After(30 * time.Second):
			timedOut = true
			cmd.Process.Signal(syscall.SIGQUIT)
			select {
			case werr = <-done:
			case <-time.After(5 * time.Second):
				cmd.Process.Kill()
				werr = <-done
			}
		}
		lf.Close()
		out, _ := os.ReadFile(logf)
		if mode == "stopincallback" {
			c.Count("stop_called_by_listener_probes", 1)
		} else if mode == "closebusy" {
			c.Count("close_with_traffic_probes", 1)
		} else if mode == "outdies" || mode == "indies" {
			c.Count("helper_dies_probes", 1)
		} else {
			c.Count("open_unstartable_probes", 1)
		}
		in := map[string]any{"probe": mode, "what": "helper made unstartable (PATH without midicat) after driver init, then " + mode + " port Open() on the main goroutine of an otherwise idle process"}
		if mode == "outdies" || mode == "indies" {
			in["what"] = "fault: the helper process exits right after it was started; then Send x 20 / Listen, stop, Close on the main goroutine of an otherwise idle process"
		}
		if mode == "closebusy" {
			in["what"] = "slow listener (2 ms per message); a sender goroutine pumps 4000 messages and then closes the out-port; meanwhile the main goroutine calls stop and in.Close: closing with lines still queued must return"
		}
		if mode == "stopincallback" {
			in["what"] = "history on the process-backed driver: in.Open, out.Open, stop := Listen(L), Send; the listener L itself calls stop() when the message arrives (listen until something arrives, then stop)"
		}
		switch {
		case bytes.Contains(out, []byte("OPENPROBE-STOP-BLOCKED")):
			// decided by the structure of the goroutine dump the child printed, not by the time it waited: the goroutine that
			// runs the listener waits in the stop function for an acknowledgement, the goroutine that has to give it waits for
			// the lock that the first one holds while it runs the listener
			dump := string(out)
			if strings.Contains(dump, "midicatdrv.(*in).Listen.func") && strings.Contains(dump, "sync.(*RWMutex).Lock") && strings.Contains(dump, "midicatdrv.(*in).fireCmd.func") {
				c.ViolationSig("blocks-forever:stopincallback", "blocks-forever:stop-called-by-the-listener:midicatdrv", "a stop function called by the listener itself never returns on the process-backed driver (the listener runs under the port's read lock; stop waits for an acknowledgement from a goroutine that needs the write lock): the goroutine dump shows the cycle; afterwards every call on the port blocks as well", in, "stop returns; listening again works", clipStr(dump, 6000))
			} else {
				c.Inconclusive("stop called by the listener did not return, but the goroutine dump does not show the lock cycle: " + lastLine(dump))
			}
		case bytes.Contains(out, []byte("all goroutines are asleep - deadlock!")):
			c.Violation("blocks-forever:"+mode, "a port call never returns (helper cannot be started / has died): the Go runtime reports 'all goroutines are asleep - deadlock!' | "+blockedFrame(string(out)), in, "the call returns (with an error)", clipStr(string(out), 4000))
		case timedOut:
			if bytes.Contains(out, []byte("midicatdrv.(*in).fireCmd")) && bytes.Contains(out, []byte("sync.(*RWMutex).Lock")) {
				c.Violation("blocks-forever:"+mode, "Open() with a helper that cannot be started did not return within 30 s; the goroutine dump shows it blocked on its own mutex", in, "Open returns an error", clipStr(string(out), 4000))
			} else {
				c.Inconclusive("open probe " + mode + " timed out without an attributable goroutine dump")
			}
		case bytes.Contains(out, []byte("OPENPROBE-OK")):
			c.Count("open_unstartable_returned_error", 1)
		case bytes.Contains(out, []byte("OPENPROBE-BAD")):
			c.Violation("open-unstartable-result:"+mode, "unexpected result with an unstartable helper: "+lastLine(string(out)), in, "error", lastLine(string(out)))
		default:
			c.Inconclusive(fmt.Sprintf("open probe %s ended unexpectedly (%v): %s", mode, werr, lastLine(string(out))))
		}
	})
}

// blockedFrame names the library frame of the main goroutine in a deadlock report.
func blockedFrame(out string) string {
	for _, l := range strings.Split(out, "\n") {
		if strings.HasPrefix(l, "gitlab.com/gomidi/") {
			if i := strings.IndexByte(l, '('); i > 0 {
				return "blocked in " + l[:strings.LastIndexByte(l, '(')]
			}
			return "blocked in " + l
		}
	}
	return ""
}

func setProcs(n int) int { return runtime.GOMAXPROCS(n) }

func lastLine(s string) string {
	l := strings.Split(strings.TrimSpace(s), "\n")
	return l[len(l)-1]
}

// OpenProbe is the body of the child process of group (c). It runs on the main goroutine.
func OpenProbe(mode string) {
	drv, err := midicatdrv.New() // not drivers.Get(): testdrv is registered in this binary as well
	if err != nil {
		fmt.Println("OPENPROBE-SETUP-FAILED", err)
		os.Exit(4)
	}
	ins, err1 := drv.Ins()
	outs, err2 := drv.Outs()
	if err1 != nil || err2 != nil {
		fmt.Println("OPENPROBE-SETUP-FAILED", err1, err2)
		os.Exit(4)
	}
	if mode == "stopincallback" {
		dir, _ := os.MkdirTemp("", "verif-stopcb")
		defer os.RemoveAll(dir)
		os.Setenv("VERIF_MC_DIR", dir)
		if e1, e2 := ins[0].Open(), outs[0].Open(); e1 != nil || e2 != nil {
			fmt.Println("OPENPROBE-SETUP-FAILED open:", e1, e2)
			os.Exit(4)
		}
		returned := make(chan struct{})
		var stop func()
		var once sync.Once
		ready := make(chan struct{})
		stop, err = ins[0].Listen(func([]byte, int32) {
			once.Do(func() {
				<-ready
				stop() // the listener stops the listening itself
				close(returned)
			})
		}, drivers.ListenConfig{})
		if err != nil {
			fmt.Println("OPENPROBE-SETUP-FAILED Listen:", err)
			os.Exit(4)
		}
		close(ready)
		deadline := time.After(10 * time.Second)
		for sent := 0; ; sent++ {
			if sent < 2000 {
				outs[0].Send([]byte{0x90, byte(sent & 127), 1})
			}
			select {
			case <-returned:
				// and listening again works
				var n int64
				stop2, err := ins[0].Listen(func([]byte, int32) { atomic.AddInt64(&n, 1) }, drivers.ListenConfig{})
				for k := 0; k < 3000 && atomic.LoadInt64(&n) == 0 && err == nil; k++ {
					outs[0].Send([]byte{0x90, 2, 2})
					time.Sleep(2 * time.Millisecond)
				}
				if err != nil || atomic.LoadInt64(&n) == 0 {
					fmt.Println("OPENPROBE-BAD after a stop called by the listener, listening again does not work:", err)
					os.Exit(0)
				}
				stop2()
				ins[0].Close()
				outs[0].Close()
				fmt.Println("OPENPROBE-OK stop called by the listener returned; listening again works")
				return
			case <-deadline:
				buf := make([]byte, 1<<20)
				fmt.Printf("%s\n", buf[:runtime.Stack(buf, true)])
				fmt.Println("OPENPROBE-STOP-BLOCKED the stop function called by the listener has not returned after 10 s")
				killOwnChildren() // the blocked port cannot be closed any more: its helper process would stay behind
				os.Exit(0)
			case <-time.After(2 * time.Millisecond):
			}
		}
	}
	if mode == "closebusy" {
		// close the in-port while lines are still queued between the helper and a slow listener
		dir, _ := os.MkdirTemp("", "verif-busy")
		defer os.RemoveAll(dir)
		os.Setenv("VERIF_MC_DIR", dir)
		if err := ins[0].Open(); err != nil {
			fmt.Println("OPENPROBE-SETUP-FAILED in.Open:", err)
			os.Exit(4)
		}
		if err := outs[0].Open(); err != nil {
			fmt.Println("OPENPROBE-SETUP-FAILED out.Open:", err)
			os.Exit(4)
		}
		var seen int64
		stop, err := ins[0].Listen(func([]byte, int32) {
			atomic.AddInt64(&seen, 1)
			time.Sleep(2 * time.Millisecond)
		}, drivers.ListenConfig{})
		if err != nil {
			fmt.Println("OPENPROBE-SETUP-FAILED Listen:", err)
			os.Exit(4)
		}
		for k := 0; k < 5000 && atomic.LoadInt64(&seen) == 0; k++ { // until the pipeline is live
			outs[0].Send([]byte{0x90, 1, 1})
			time.Sleep(2 * time.Millisecond)
		}
		// a sender keeps the pipeline full while the in-port is stopped and closed; it closes the
		// out-port when it is done, so that afterwards nothing but the port calls under test is running
		done := make(chan struct{})
		go func() {
			for k := 0; k < 20000; k++ {
				outs[0].Send([]byte{0x90, byte(k & 127), 2})
			}
			outs[0].Close()
			close(done)
		}()
		time.Sleep(150 * time.Millisecond) // the slow listener lets thousands of lines pile up in the pipeline
		fmt.Println("stopping; deliveries so far:", atomic.LoadInt64(&seen))
		stop()
		fmt.Println("closing in while the sender is still sending")
		ins[0].Close()
		<-done
		ins[0].Close()
		// and the port can be opened and closed again
		e1 := ins[0].Open()
		e2 := ins[0].Close()
		fmt.Println("OPENPROBE-OK stop, out.Close, in.Close x2 and re-open returned with traffic in flight; reopen:", e1, e2)
		return
	}
	if mode == "outdies" || mode == "indies" {
		// fault: the helper process starts and exits at once (crash of the backing process)
		dir, _ := os.MkdirTemp("", "verif-dies")
		defer os.RemoveAll(dir)
		os.Setenv("VERIF_MC_DIR", dir)
		if mode == "outdies" {
			os.Setenv("VERIF_MC_FAIL", "out")
			if err := outs[0].Open(); err != nil {
				fmt.Println("OPENPROBE-OK out.Open with a dying helper returned:", err)
				return
			}
			time.Sleep(300 * time.Millisecond) // let the helper die
			var errs []string
			for k := 0; k < 20; k++ {
				fmt.Println("send", k)
				if err := outs[0].Send([]byte{0x90, byte(k), 1}); err != nil {
					errs = append(errs, err.Error())
					break
				}
			}
			fmt.Println("closing")
			outs[0].Close()
			fmt.Println("OPENPROBE-OK all Send calls and Close returned with a dead out helper; errors:", errs)
			return
		}
		os.Setenv("VERIF_MC_FAIL", "in")
		if err := ins[0].Open(); err != nil {
			fmt.Println("OPENPROBE-OK in.Open with a dying helper returned:", err)
			return
		}
		time.Sleep(300 * time.Millisecond)
		stop, err := ins[0].Listen(func([]byte, int32) {}, drivers.ListenConfig{})
		fmt.Println("listen:", err)
		if stop != nil {
			stop()
			stop()
		}
		fmt.Println("closing")
		ins[0].Close()
		ins[0].Close()
		fmt.Println("OPENPROBE-OK Listen, stop and Close returned with a dead in helper")
		return
	}
	// from here on the helper cannot be started any more
	os.Setenv("PATH", "/nonexistent-verif")
	switch mode {
	case "in":
		err := ins[0].Open()
		if err == nil {
			fmt.Println("OPENPROBE-BAD in.Open returned nil although the helper cannot be started")
			os.Exit(0)
		}
		if ins[0].IsOpen() {
			fmt.Println("OPENPROBE-BAD in-port reports open after a failed Open:", err)
			os.Exit(0)
		}
		// a second attempt and Close must return as well
		err2 := ins[0].Open()
		ins[0].Close()
		fmt.Println("OPENPROBE-OK in.Open returned:", err, "| second:", err2)
	case "out":
		err := outs[0].Open()
		if err == nil {
			fmt.Println("OPENPROBE-BAD out.Open returned nil although the helper cannot be started")
			os.Exit(0)
		}
		if outs[0].IsOpen() {
			fmt.Println("OPENPROBE-BAD out-port reports open after a failed Open:", err)
			os.Exit(0)
		}
		serr := outs[0].Send([]byte{0x90, 1, 1})
		outs[0].Close()
		fmt.Println("OPENPROBE-OK out.Open returned:", err, "| Send:", serr)
	default:
		_, e1 := drv.Ins()
		_, e2 := drv.Outs()
		if e1 == nil || e2 == nil {
			fmt.Println("OPENPROBE-BAD Ins/Outs returned nil error although the helper cannot be started")
			os.Exit(0)
		}
		fmt.Println("OPENPROBE-OK Ins/Outs returned:", e1, "|", e2)
	}
}

// killOwnChildren ends the direct child processes of this process (the helper processes of ports that can no longer
// be closed); the library starts each helper in a process group of its own, so a group signal does not reach them.
func killOwnChildren() {
	me := os.Getpid()
	ents, _ := os.ReadDir("/proc")
	for _, e := range ents {
		pid, err := strconv.Atoi(e.Name())
		if err != nil || pid == me {
			continue
		}
		b, err := os.ReadFile(filepath.Join("/proc", e.Name(), "stat"))
		if err != nil {
			continue
		}
		// pid (comm) state ppid ...: comm may contain spaces and parentheses, the fields start behind the last ')'
		rest := string(b)
		if k := strings.LastIndexByte(rest, ')'); k >= 0 {
			rest = rest[k+1:]
		}
		f := strings.Fields(rest)
		if len(f) >= 2 {
			if ppid, _ := strconv.Atoi(f[1]); ppid == me {
				syscall.Kill(pid, syscall.SIGKILL)
			}
		}
	}
}
