package props17

import (
	"bytes"
	"errors"
	"fmt"
	"os"
	"path/filepath"
	"runtime"
	"sort"
	"strconv"
	"strings"
	"sync"
	"sync/atomic"
	"time"

	"github.com/anishathalye/porcupine"

	"gitlab.com/gomidi/midi/v2"
	"gitlab.com/gomidi/midi/v2/drivers"
	"gitlab.com/gomidi/midi/v2/drivers/midicatdrv"

	"verif/harness/mon"
)

// event log of one concurrent history ---------------------------------------

type sendEv struct {
	id        int // unique message id
	sender    int
	port      int
	call, ret int64
	err       error
	window    int // listening window during which the call started (0 = none)
}

type delivEv struct {
	id          int
	listener    int
	port        int
	entry, exit int64
	ts          int32
}

type stopEv struct {
	listener  int
	port      int
	call, ret int64
}

type hist struct {
	clk    int64
	mu     sync.Mutex
	sends  []sendEv
	delivs []delivEv
	stops  []stopEv
	notes  []string
}

func (h *hist) tick() int64 { return atomic.AddInt64(&h.clk, 1) }

func (h *hist) note(f string, v ...any) {
	h.mu.Lock()
	if len(h.notes) < 200 {
		h.notes = append(h.notes, fmt.Sprintf("@%d ", atomic.LoadInt64(&h.clk))+fmt.Sprintf(f, v...))
	}
	h.mu.Unlock()
}

// message encoding: a control-change status carrying the sender in its channel, followed by a
// 28-bit sequence number in four 7-bit bytes (the driver passes the bytes of a line through as they
// are). 28 bits cannot wrap within a history; ids are unique per (sender, sequence number).
func encMsg(sender, seq int) []byte {
	return []byte{0xB0 | byte(sender&15), byte(seq >> 21 & 127), byte(seq >> 14 & 127), byte(seq >> 7 & 127), byte(seq & 127)}
}
func msgID(sender, seq int) int { return sender<<28 | seq&(1<<28-1) }
func decMsg(b []byte) (id int, ok bool) {
	if len(b) < 5 || b[0]&0xF0 != 0xB0 || b[1] > 127 || b[2] > 127 || b[3] > 127 || b[4] > 127 {
		return 0, false
	}
	id = int(b[0]&15)<<28 | int(b[1])<<21 | int(b[2])<<14 | int(b[3])<<7 | int(b[4])
	// a dump: the id followed by a padding that is a function of the id
	for k, x := range b[5:] {
		if x != byte(id+k)&127 {
			return 0, false
		}
	}
	return id, true
}

// encDump is encMsg followed by n bytes of padding (a bulk dump: one line of several KiB for the helper).
func encDump(sender, seq, n int) []byte {
	b := encMsg(sender, seq)
	id := msgID(sender, seq)
	for k := 0; k < n; k++ {
		b = append(b, byte(id+k)&127)
	}
	return b
}

const (
	senderProbe    = 15 // messages sent by the main goroutine: probes, sentinels, out-of-window messages
	waitObserve    = 30 * time.Second
	callWatchdog   = 60 * time.Second
	maxSendersLive = 8
)

// guarded runs fn under a watchdog; a call that does not return within the watchdog makes
// the history inconclusive (never a violation by wall clock alone).
func guarded(c *mon.Ctx, h *hist, what string, fn func()) bool {
	done := make(chan struct{})
	go func() { fn(); close(done) }()
	select {
	case <-done:
		return true
	case <-time.After(callWatchdog):
		buf := make([]byte, 1<<16)
		n := runtime.Stack(buf, true)
		c.Inconclusive(fmt.Sprintf("call %s did not return within %v (goroutine dump: %d bytes, see worker log)", what, callWatchdog, n))
		fmt.Fprintf(os.Stderr, "WATCHDOG %s\n%s\n", what, buf[:n])
		return false
	}
}

// runMidicatHistory drives one randomized concurrent history against the process-backed
// driver and the stand-in helper, then checks the recorded history offline.
func runMidicatHistory(c *mon.Ctx, r *mon.Rand, idx int64) {
	dir := filepath.Join(c.Dir, fmt.Sprintf("mc-%d-%d", c.Shard, idx))
	os.MkdirAll(dir, 0o755)
	defer os.RemoveAll(dir)
	os.Setenv("VERIF_MC_DIR", dir)
	delayUS := r.Pick(0, 0, 50, 200, 1000)
	os.Setenv("VERIF_MC_DELAY_US", fmt.Sprint(delayUS))

	drv, err := midicatdrv.New()
	if err != nil {
		c.Inconclusive("midicatdrv.New failed: " + err.Error())
		return
	}
	ins, err1 := drv.Ins()
	outs, err2 := drv.Outs()
	if err1 != nil || err2 != nil || len(ins) < 2 || len(outs) < 2 {
		c.Violation("mc:ports", fmt.Sprintf("Ins/Outs against the stand-in helper: %v %v (%d ins, %d outs)", err1, err2, len(ins), len(outs)), nil, "2 ins, 2 outs", nil)
		return
	}
	nports := r.Range(1, 2)
	h := &hist{}
	desc := map[string]any{"history": idx, "ports": nports, "helper_delay_us": delayUS}
	violate := func(class, msg string, want, got any) {
		desc["notes"] = h.notes
		c.Violation("mc:"+class, msg, desc, want, got)
	}

	// ---- open (idempotent). In every third history the first Open calls are made by a goroutine that is
	// wired to its OS thread (runtime.LockOSThread, as GUI / audio / cgo code does) and ends without
	// unlocking: the Go runtime then destroys that thread. Ports opened that way must stay usable.
	dyingThread := idx%3 == 1
	desc["first_open_from_a_locked_goroutine_that_exits"] = dyingThread
	for p := 0; p < nports; p++ {
		for k := 0; k < 2; k++ {
			var e1, e2 error
			okOpen := true
			open := func() {
				okOpen = guarded(c, h, "in.Open", func() { e1 = ins[p].Open() }) && guarded(c, h, "out.Open", func() { e2 = outs[p].Open() })
			}
			if dyingThread && k == 0 {
				done := make(chan struct{})
				go func() {
					runtime.LockOSThread()
					defer close(done)
					open()
				}()
				<-done
				time.Sleep(5 * time.Millisecond) // let the runtime dispose of the thread
				c.Count("mc_opens_from_dying_thread", 1)
			} else {
				open()
			}
			if !okOpen {
				return
			}
			if e1 != nil || e2 != nil {
				violate("open", fmt.Sprintf("Open (call %d) of port %d failed: %v %v", k+1, p, e1, e2), "nil", fmt.Sprint(e1, e2))
				return
			}
			if !ins[p].IsOpen() || !outs[p].IsOpen() {
				violate("isopen", fmt.Sprintf("port %d not open after Open", p), true, false)
				return
			}
		}
	}
	defer func() {
		for p := 0; p < nports; p++ {
			ins[p].Close()
			outs[p].Close()
		}
	}()

	var pollStop int32
	var pollWG sync.WaitGroup
	pollWG.Add(1)
	go func() { // IsOpen polling concurrent with traffic (race detector target)
		defer pollWG.Done()
		for atomic.LoadInt32(&pollStop) == 0 {
			for p := 0; p < nports; p++ {
				ins[p].IsOpen()
				outs[p].IsOpen()
			}
			time.Sleep(200 * time.Microsecond)
		}
	}()
	defer func() { atomic.StoreInt32(&pollStop, 1); pollWG.Wait() }()

	seqOf := make([]int32, 16) // per sender sequence numbers
	dumps := idx%2 == 1
	desc["senders_mix_in_dumps_of_2_to_8_KiB"] = dumps
	var dumpsSent int64
	defer func() { c.Count("mc_dumps_sent_by_concurrent_senders", atomic.LoadInt64(&dumpsSent)) }()
	send := func(sender, port, window int) sendEv {
		seq := int(atomic.AddInt32(&seqOf[sender], 1))
		ev := sendEv{id: msgID(sender, seq), sender: sender, port: port, window: window}
		msg := encMsg(sender, seq)
		if dumps && sender != senderProbe && seq%7 == sender%7 {
			// every seventh message of a sender is a dump of 2..8 KiB (a line of 4..16 K characters)
			msg = encDump(sender, seq, []int{2041, 2042, 2043, 3000, 4096, 8000}[seq/7%6])
			atomic.AddInt64(&dumpsSent, 1)
		}
		ev.call = h.tick()
		ev.err = outs[port].Send(msg)
		ev.ret = h.tick()
		h.mu.Lock()
		h.sends = append(h.sends, ev)
		h.mu.Unlock()
		return ev
	}

	listenerID := 0
	cycles := r.Range(2, 4)
	for cyc := 0; cyc < cycles; cyc++ {
		window := cyc + 1
		hard := r.P(1, 3) // stop while traffic is in flight
		cbSleep := r.Pick(0, 0, 20, 100)
		type lst struct {
			id   int
			stop func()
			seen chan int
		}
		ls := make([]*lst, nports)
		for p := 0; p < nports; p++ {
			listenerID++
			l := &lst{id: listenerID, seen: make(chan int, 1<<16)}
			ls[p] = l
			port := p
			var stop func()
			var err error
			if !guarded(c, h, "Listen", func() {
				stop, err = ins[port].Listen(func(msg []byte, ts int32) {
					d := delivEv{listener: l.id, port: port, ts: ts}
					d.entry = h.tick()
					id, ok := decMsg(msg)
					if !ok {
						id = -1
						h.note("listener %d got undecodable message % X", l.id, msg)
					}
					d.id = id
					if cbSleep > 0 {
						time.Sleep(time.Duration(cbSleep) * time.Microsecond)
					}
					d.exit = h.tick()
					h.mu.Lock()
					h.delivs = append(h.delivs, d)
					h.mu.Unlock()
					select {
					case l.seen <- id:
					default:
					}
				}, drivers.ListenConfig{SysEx: true, TimeCode: true, ActiveSense: true})
			}) {
				return
			}
			if err != nil || stop == nil {
				violate("listen", fmt.Sprintf("Listen on open port %d (cycle %d) failed: %v", p, cyc, err), "stop function", fmt.Sprint(err))
				return
			}
			l.stop = stop
			h.note("listener %d listening on port %d", l.id, p)
			c.Count("mc_listens", 1)
			if cyc > 0 {
				c.Count("mc_relistens", 1)
			}
		}
		// ---- probe until the pipeline is live (helpers started, socket bound)
		live := true
		for p := 0; p < nports && live; p++ {
			deadline := time.Now().Add(waitObserve)
			got := false
			for !got && time.Now().Before(deadline) {
				ev := send(senderProbe, p, 0)
				if ev.err != nil {
					violate("send-error", fmt.Sprintf("Send on open port %d failed: %v", p, ev.err), "nil", ev.err.Error())
					return
				}
				t := time.After(2 * time.Millisecond)
			wait:
				for {
					select {
					case id := <-ls[p].seen:
						if id == ev.id {
							got = true
							break wait
						}
					case <-t:
						break wait
					}
				}
			}
			if !got {
				c.Inconclusive(fmt.Sprintf("history %d: probe on port %d not observed within %v (listening again after stop does not work, or the machine is overloaded)", idx, p, waitObserve))
				h.note("probe not observed on port %d in cycle %d", p, cyc)
				live = false
			}
		}
		if !live {
			for _, l := range ls {
				l.stop()
			}
			break
		}
		h.note("window %d live", window)
		// ---- concurrent senders
		nsend := r.Range(1, maxSendersLive)
		per := r.Range(5, 60)
		var wg sync.WaitGroup
		for s := 0; s < nsend; s++ {
			wg.Add(1)
			port := s % nports
			jit := r.Intn(3)
			go func(s, port, jit int) {
				defer wg.Done()
				for k := 0; k < per; k++ {
					ev := send(s, port, window)
					if ev.err != nil {
						h.note("sender %d: Send error %v", s, ev.err)
					}
					switch jit {
					case 1:
						runtime.Gosched()
					case 2:
						time.Sleep(time.Duration(k%5) * 20 * time.Microsecond)
					}
				}
			}(s, port, jit)
		}
		if hard {
			// stop while messages are in flight
			time.Sleep(time.Duration(r.Intn(3000)) * time.Microsecond)
		} else {
			wg.Wait()
			// sentinel per port: everything sent before it is ahead of it in the pipeline
			for p := 0; p < nports; p++ {
				ev := send(senderProbe, p, window)
				deadline := time.After(waitObserve)
				ok := false
			w2:
				for {
					select {
					case id := <-ls[p].seen:
						if id == ev.id {
							ok = true
							break w2
						}
					case <-deadline:
						break w2
					}
				}
				if !ok {
					c.Inconclusive(fmt.Sprintf("history %d: sentinel on port %d not observed within %v", idx, p, waitObserve))
				} else {
					c.Count("mc_sentinels_observed", 1)
				}
			}
		}
		// ---- stop
		for p, l := range ls {
			se := stopEv{listener: l.id, port: p}
			se.call = h.tick()
			if !guarded(c, h, "stop", l.stop) {
				return
			}
			se.ret = h.tick()
			h.mu.Lock()
			h.stops = append(h.stops, se)
			h.mu.Unlock()
			h.note("listener %d stopped", l.id)
			c.Count("mc_stops", 1)
			if hard {
				c.Count("mc_stops_with_traffic_in_flight", 1)
			}
			if r.P(1, 3) { // stop twice is allowed
				if !guarded(c, h, "stop (second call)", l.stop) {
					return
				}
			}
		}
		wg.Wait()
		// messages outside any window: dropped without failure, or delivered at most once to nobody
		for p := 0; p < nports; p++ {
			for k := 0; k < 3; k++ {
				ev := send(senderProbe, p, 0)
				if ev.err != nil {
					violate("send-dropped-error", fmt.Sprintf("Send with no active listener returned %v", ev.err), "nil", ev.err.Error())
					return
				}
			}
		}
		time.Sleep(5 * time.Millisecond)
	}

	// ---- close: idempotent, then sending reports the port-closed error
	for p := 0; p < nports; p++ {
		for k := 0; k < 2; k++ {
			var e1, e2 error
			if !guarded(c, h, "in.Close", func() { e1 = ins[p].Close() }) || !guarded(c, h, "out.Close", func() { e2 = outs[p].Close() }) {
				return
			}
			if e1 != nil {
				violate("close", fmt.Sprintf("in.Close (call %d) of port %d failed: %v", k+1, p, e1), "nil", e1.Error())
			}
			_ = e2 // out.Close returns the error of Process.Kill, which may legitimately be "process already finished"
			if ins[p].IsOpen() || outs[p].IsOpen() {
				violate("isopen", fmt.Sprintf("port %d still open after Close", p), false, true)
				return
			}
		}
		var e error
		if !guarded(c, h, "Send on closed port", func() { e = outs[p].Send(encMsg(senderProbe, 1)) }) {
			return
		}
		c.Count("mc_sends_closed", 1)
		if !errors.Is(e, drivers.ErrPortClosed) {
			violate("send-closed", fmt.Sprintf("Send on a closed out-port returned %v", e), "ErrPortClosed", fmt.Sprint(e))
		}
		var stop func()
		if !guarded(c, h, "Listen on closed port", func() { stop, e = ins[p].Listen(func([]byte, int32) {}, drivers.ListenConfig{}) }) {
			return
		}
		if e == nil {
			violate("listen-closed", "Listen on a closed in-port succeeded", "error", "nil")
			if stop != nil {
				stop()
			}
		}
	}
	c.Count("mc_histories", 1)
	checkMidicatHistory(c, h, desc, nports)
}

// runSlowCallbackHistory: a listener callback that stays busy for a long time (1.5 s) while stop()
// is called. stop() must not return before the callback has finished or, if it does, at least the
// port must stay usable: Listen directly after the returned stop must succeed and deliver.
func runSlowCallbackHistory(c *mon.Ctx) {
	dir := filepath.Join(c.Dir, fmt.Sprintf("mc-slow-%d", c.Shard))
	os.MkdirAll(dir, 0o755)
	defer os.RemoveAll(dir)
	os.Setenv("VERIF_MC_DIR", dir)
	os.Setenv("VERIF_MC_DELAY_US", "0")
	drv, err := midicatdrv.New()
	if err != nil {
		c.Inconclusive("midicatdrv.New failed: " + err.Error())
		return
	}
	ins, _ := drv.Ins()
	outs, _ := drv.Outs()
	h := &hist{}
	desc := map[string]any{"history": "slow callback: Listen, deliver one message whose callback sleeps 1.5 s, call stop() meanwhile, Listen again, deliver"}
	if ins[0].Open() != nil || outs[0].Open() != nil {
		c.Violation("mc:open", "cannot open ports against the stand-in helper", desc, nil, nil)
		return
	}
	defer ins[0].Close()
	defer outs[0].Close()
	var inCallback, callbackExit, entered int64
	slow := int32(0)
	stop, err := ins[0].Listen(func(msg []byte, ts int32) {
		if atomic.CompareAndSwapInt32(&slow, 1, 2) {
			atomic.StoreInt64(&entered, h.tick())
			atomic.StoreInt64(&inCallback, 1)
			time.Sleep(1500 * time.Millisecond)
			atomic.StoreInt64(&callbackExit, h.tick())
			atomic.StoreInt64(&inCallback, 0)
		}
	}, drivers.ListenConfig{})
	if err != nil {
		c.Violation("mc:listen", "Listen failed: "+err.Error(), desc, nil, nil)
		return
	}
	// wait until the pipeline is live, then arm the slow callback
	deadline := time.Now().Add(waitObserve)
	atomic.StoreInt32(&slow, 1)
	for atomic.LoadInt64(&inCallback) == 0 && time.Now().Before(deadline) {
		outs[0].Send(encMsg(senderProbe, 1))
		time.Sleep(2 * time.Millisecond)
	}
	if atomic.LoadInt64(&inCallback) == 0 {
		c.Inconclusive("slow-callback history: no message observed within the wait limit")
		stop()
		return
	}
	var stopRet int64
	if !guarded(c, h, "stop during a long callback", func() { stop(); stopRet = h.tick() }) {
		return
	}
	c.Count("mc_slow_callback_stops", 1)
	exit := atomic.LoadInt64(&callbackExit)
	stillRunning := atomic.LoadInt64(&inCallback) == 1
	// listening again directly after the returned stop must work
	got := make(chan struct{}, 64)
	var stop2 func()
	if !guarded(c, h, "Listen after stop", func() {
		stop2, err = ins[0].Listen(func(msg []byte, ts int32) {
			select {
			case got <- struct{}{}:
			default:
			}
		}, drivers.ListenConfig{})
	}) {
		return
	}
	if err != nil {
		c.Violation("mc:relisten-after-slow-stop", fmt.Sprintf("Listen directly after a stop function returned (the stopped listener's callback was busy for 1.5 s; still running when stop returned: %v; stop returned at stamp %d, callback finished at stamp %d) failed: %v", stillRunning, stopRet, exit, err), desc, "listening again works", err.Error())
		return
	}
	deadline = time.Now().Add(waitObserve)
	ok := false
	for !ok && time.Now().Before(deadline) {
		outs[0].Send(encMsg(senderProbe, 2))
		select {
		case <-got:
			ok = true
		case <-time.After(2 * time.Millisecond):
		}
	}
	if !ok {
		c.Inconclusive("slow-callback history: second listener observed nothing within the wait limit")
	} else {
		c.Count("mc_relisten_after_slow_stop", 1)
	}
	if stop2 != nil {
		guarded(c, h, "stop of the second listener", stop2)
	}
	// quick listen/stop cycles afterwards: the slow stop must not have left stale state behind
	// (e.g. a late acknowledgement that makes the next stop return before its listener is cleared)
	for cyc := 0; cyc < 40; cyc++ {
		var st func()
		var lerr error
		if !guarded(c, h, "Listen in a quick cycle", func() {
			st, lerr = ins[0].Listen(func([]byte, int32) {}, drivers.ListenConfig{})
		}) {
			return
		}
		if lerr != nil {
			c.Violation("mc:relisten-after-slow-stop", fmt.Sprintf("quick listen/stop cycle %d after a stop that overlapped a 1.5 s callback: Listen directly after a returned stop failed: %v", cyc, lerr), desc, "listening again works", lerr.Error())
			return
		}
		if !guarded(c, h, "stop in a quick cycle", st) {
			return
		}
		c.Count("mc_quick_cycles_after_slow_stop", 1)
	}
}

// checkMidicatHistory is the offline checker over the recorded event log.
func checkMidicatHistory(c *mon.Ctx, h *hist, desc map[string]any, nports int) {
	violate := func(class, msg string, want, got any) {
		desc["notes"] = h.notes
		c.Violation("mc:"+class, msg, desc, want, got)
	}
	sent := map[int]sendEv{}
	for _, s := range h.sends {
		sent[s.id] = s
	}
	c.Count("mc_sends", int64(len(h.sends)))
	c.Count("mc_deliveries", int64(len(h.delivs)))
	sort.Slice(h.delivs, func(i, j int) bool { return h.delivs[i].entry < h.delivs[j].entry })
	stopRet := map[int]int64{}
	for _, s := range h.stops {
		stopRet[s.listener] = s.ret
	}
	seen := map[int]int{}
	lastSeq := map[[2]int]int{} // (listener, sender) -> last id
	for _, d := range h.delivs {
		s, ok := sent[d.id]
		if !ok {
			violate("fabricated", fmt.Sprintf("listener %d received a message (id %d) that was never sent", d.listener, d.id), nil, d.id)
			return
		}
		if s.port != d.port {
			violate("wrong-port", fmt.Sprintf("message %d sent on port %d arrived on port %d", d.id, s.port, d.port), s.port, d.port)
			return
		}
		seen[d.id]++
		if seen[d.id] > 1 {
			violate("duplicate", fmt.Sprintf("message %d (sender %d) was delivered %d times", d.id, s.sender, seen[d.id]), 1, seen[d.id])
			return
		}
		if d.entry < s.call {
			violate("before-send", fmt.Sprintf("message %d delivered (stamp %d) before its Send was called (stamp %d)", d.id, d.entry, s.call), nil, nil)
			return
		}
		k := [2]int{d.port, s.sender}
		if last, ok := lastSeq[k]; ok && d.id < last {
			violate("order", fmt.Sprintf("sender %d on port %d: message %d delivered after message %d", s.sender, d.port, d.id&(1<<28-1), last&(1<<28-1)), "sending order", nil)
			return
		}
		lastSeq[k] = d.id
		if ret, ok := stopRet[d.listener]; ok && d.entry > ret {
			violate("callback-after-stop", fmt.Sprintf("listener %d was called (entry stamp %d) after its stop function had returned (stamp %d)", d.listener, d.entry, ret), "no call after stop returns", d.entry)
			return
		}
		c.Count("mc_stop_stamp_checks", 1)
	}
	// exactly once inside live windows: everything sent (Send returned) before an observed
	// sentinel on the same port is ahead of it in the FIFO pipeline and must have been delivered
	for _, sn := range h.sends {
		if sn.sender != senderProbe || sn.window == 0 || seen[sn.id] == 0 {
			continue // not an observed sentinel
		}
		for _, s := range h.sends {
			if s.port == sn.port && s.window == sn.window && s.sender != senderProbe && s.ret < sn.call {
				c.Count("mc_exactly_once_checks", 1)
				if seen[s.id] != 1 {
					violate("lost", fmt.Sprintf("message %d of sender %d (window %d, port %d) was sent before the sentinel that arrived, but was delivered %d times", s.id&(1<<28-1), s.sender, s.window, s.port, seen[s.id]), 1, seen[s.id])
					return
				}
			}
		}
	}
	// porcupine: sends + deliveries of each live window are a linearizable FIFO history
	type qin struct {
		enq bool
		id  int
	}
	qmodel := porcupine.Model{
		Init: func() interface{} { return []int(nil) },
		Step: func(state, input, output interface{}) (bool, interface{}) {
			q := state.([]int)
			in := input.(qin)
			if in.enq {
				return true, append(append([]int(nil), q...), in.id)
			}
			if len(q) == 0 || q[0] != output.(int) {
				return false, q
			}
			return true, append([]int(nil), q[1:]...)
		},
		Equal: func(a, b interface{}) bool {
			x, y := a.([]int), b.([]int)
			if len(x) != len(y) {
				return false
			}
			for i := range x {
				if x[i] != y[i] {
					return false
				}
			}
			return true
		},
	}
	byWindow := map[[2]int][]porcupine.Operation{}
	delivered := map[int]delivEv{}
	for _, d := range h.delivs {
		delivered[d.id] = d
	}
	for _, s := range h.sends {
		if s.window == 0 || s.sender == senderProbe {
			continue
		}
		d, ok := delivered[s.id]
		if !ok {
			continue // undelivered tail of a window that was stopped with traffic in flight
		}
		k := [2]int{s.window, s.port}
		byWindow[k] = append(byWindow[k],
			porcupine.Operation{ClientId: s.sender, Input: qin{true, s.id}, Call: s.call, Output: 0, Return: s.ret},
			porcupine.Operation{ClientId: 100 + d.listener, Input: qin{false, 0}, Call: d.entry, Output: s.id, Return: d.exit})
	}
	for k, ops := range byWindow {
		// (i) aspect check on the whole window (unique values, sequential consumer): a FIFO history is
		// linearizable iff no value is dequeued twice or without enqueue (checked above) and there is no
		// pair a, b with enq(a) entirely before enq(b) but b delivered before a.
		type pr struct {
			enqCall, enqRet, deq int64
			id                   int
		}
		var prs []pr
		for i := 0; i+1 < len(ops); i += 2 {
			prs = append(prs, pr{ops[i].Call, ops[i].Return, ops[i+1].Call, ops[i+1].Output.(int)})
		}
		sort.Slice(prs, func(i, j int) bool { return prs[i].deq < prs[j].deq })
		var maxCallSoFar int64 = -1 // max enq call among messages delivered so far
		var maxID int
		for _, x := range prs {
			// x is delivered after everything before it: none of those may have been enqueued entirely after x
			if x.enqRet < maxCallSoFar {
				violate("fifo-order", fmt.Sprintf("window %d port %d: message %d was enqueued (Send returned at stamp %d) before Send of message %d was even called (stamp %d), but was delivered after it", k[0], k[1], x.id&(1<<28-1), x.enqRet, maxID&(1<<28-1), maxCallSoFar), "FIFO", nil)
				return
			}
			if x.enqCall > maxCallSoFar {
				maxCallSoFar, maxID = x.enqCall, x.id
			}
			c.Count("mc_fifo_pairs_checked", 1)
		}
		// (ii) porcupine on groups of consecutively delivered messages of the window. Bounded to 6 pairs per
		// group: the general search is exponential - 8 mutually overlapping Sends delivered in reverse call
		// order (a legal history) already take porcupine minutes, 6 take 60 ms. Any subset of matched
		// enqueue/dequeue pairs of a linearizable FIFO history is itself one, so the groups are sound.
		const maxPairs = 6
		starts := []int{0}
		if len(prs) > 2*maxPairs {
			starts = append(starts, len(prs)/2-maxPairs/2, len(prs)-maxPairs)
		}
		for _, st := range starts {
			group := map[int]bool{}
			for i := st; i < st+maxPairs && i < len(prs); i++ {
				group[prs[i].id] = true
			}
			var sub []porcupine.Operation
			for i := 0; i+1 < len(ops); i += 2 {
				if group[ops[i+1].Output.(int)] {
					sub = append(sub, ops[i], ops[i+1])
				}
			}
			res := porcupine.CheckOperationsTimeout(qmodel, sub, 60*time.Second)
			c.Count("mc_porcupine_histories", 1)
			c.Count("mc_porcupine_operations", int64(len(sub)))
			switch res {
			case porcupine.Illegal:
				violate("not-linearizable", fmt.Sprintf("sends and deliveries of window %d on port %d are not a linearizable FIFO queue history (%d operations, deliveries %d.. of the window)", k[0], k[1], len(sub), st), "linearizable", "illegal")
				return
			case porcupine.Unknown:
				c.Inconclusive("porcupine timed out on a window history")
			}
		}
	}
	// an excerpt of the recorded history for the evidence file: the events around the first stop
	if len(h.stops) > 0 && len(h.delivs) > 0 {
		type line struct {
			at int64
			s  string
		}
		var ls []line
		pivot := h.stops[0].call
		for _, s := range h.sends {
			if s.ret > pivot-40 && s.call < pivot+40 {
				ls = append(ls, line{s.call, fmt.Sprintf("@%d..%d sender %d port %d Send(msg %d/%d) err=%v", s.call, s.ret, s.sender, s.port, s.id>>28, s.id&(1<<28-1), s.err)})
			}
		}
		for _, d := range h.delivs {
			if d.exit > pivot-40 && d.entry < pivot+40 {
				ls = append(ls, line{d.entry, fmt.Sprintf("@%d..%d listener %d port %d callback(msg %d/%d)", d.entry, d.exit, d.listener, d.port, d.id>>28, d.id&(1<<28-1))})
			}
		}
		for _, st := range h.stops {
			if st.ret > pivot-40 && st.call < pivot+40 {
				ls = append(ls, line{st.call, fmt.Sprintf("@%d..%d listener %d port %d stop()", st.call, st.ret, st.listener, st.port)})
			}
		}
		sort.Slice(ls, func(i, j int) bool { return ls[i].at < ls[j].at })
		var out []string
		for i, l := range ls {
			if i >= 30 {
				break
			}
			out = append(out, l.s)
		}
		c.Sample("midicat-history-excerpt", map[string]any{"events_around_first_stop (@call..return on the logical clock, msg sender/seq)": out, "sends": len(h.sends), "deliveries": len(h.delivs), "stops": len(h.stops)})
	}
	// concurrency actually observed: overlapping Send calls
	overlap := 0
	ss := append([]sendEv(nil), h.sends...)
	sort.Slice(ss, func(i, j int) bool { return ss[i].call < ss[j].call })
	for i := 1; i < len(ss); i++ {
		if ss[i].call < ss[i-1].ret {
			overlap++
		}
	}
	c.Count("mc_overlapping_sends", int64(overlap))
	inflight := 0
	for _, st := range h.stops {
		for _, d := range h.delivs {
			if d.listener == st.listener && d.exit > st.call && d.entry < st.ret {
				inflight++
			}
		}
	}
	c.Count("mc_callbacks_overlapping_stop", int64(inflight))
}

// runMidicatListenTo sends ordinary MIDI messages of every kind and length (1, 2 and 3 bytes, sysex)
// with midi.SendTo through the process-backed driver and receives them with midi.ListenTo, the way
// an application uses the ports. Every message sent after the pipeline is live and before an observed
// sentinel must arrive exactly once, in order, with the same value.
func runMidicatListenTo(c *mon.Ctx, r *mon.Rand, idx int64) {
	dir := filepath.Join(c.Dir, fmt.Sprintf("mc-lt-%d-%d", c.Shard, idx))
	os.MkdirAll(dir, 0o755)
	defer os.RemoveAll(dir)
	os.Setenv("VERIF_MC_DIR", dir)
	os.Setenv("VERIF_MC_DELAY_US", "0")
	drv, err := midicatdrv.New()
	if err != nil {
		c.Inconclusive("midicatdrv.New failed: " + err.Error())
		return
	}
	ins, err1 := drv.Ins()
	outs, err2 := drv.Outs()
	if err1 != nil || err2 != nil || len(ins) < 1 || len(outs) < 1 {
		c.Violation("mc:ports", fmt.Sprintf("Ins/Outs against the stand-in helper: %v %v", err1, err2), nil, nil, nil)
		return
	}
	ch := func() uint8 { return uint8(r.Intn(14)) } // channels 14 and 15 are the sentinel's and the probe's
	d := func() uint8 { return uint8(r.Intn(128)) }
	var msgs []midi.Message
	n := r.Range(8, 40)
	for k := 0; k < n; k++ {
		switch r.Intn(16) {
		case 0:
			msgs = append(msgs, midi.NoteOn(ch(), d(), 1+d()%127))
		case 1:
			msgs = append(msgs, midi.NoteOffVelocity(ch(), d(), d()))
		case 2:
			msgs = append(msgs, midi.ControlChange(ch(), d(), d()))
		case 3, 4:
			msgs = append(msgs, midi.ProgramChange(ch(), d()))
		case 5, 6:
			msgs = append(msgs, midi.AfterTouch(ch(), d()))
		case 7:
			msgs = append(msgs, midi.PolyAfterTouch(ch(), d(), d()))
		case 8:
			msgs = append(msgs, midi.Pitchbend(ch(), int16(r.Intn(16384)-8192)))
		case 9:
			msgs = append(msgs, midi.MTC(d()))
		case 10:
			msgs = append(msgs, midi.SPP(uint16(r.Intn(16384))))
		case 11:
			msgs = append(msgs, midi.SongSelect(d()))
		case 12:
			msgs = append(msgs, midi.Tune())
		case 13:
			msgs = append(msgs, midi.Message{[]byte{0xF8, 0xFA, 0xFB, 0xFC, 0xFE, 0xFF}[r.Intn(6)]})
		default:
			p := r.Bytes7(r.Pick(0, 1, 3, 10, 100))
			msgs = append(msgs, midi.SysEx(p))
		}
	}
	// every sysex length: history idx covers the total lengths 2+70*idx .. 71+70*idx (quick: 2..1121, thorough: to 21001)
	for ln := 2 + 70*int(idx); ln < 72+70*int(idx); ln++ {
		msgs = append(msgs, midi.SysEx(r.Bytes7(ln-2)))
		c.Count("mc_listento_sysex_lengths_swept", 1)
	}
	if idx%8 == 1 {
		// dumps of tens of kilobytes: one line of 64 KiB and more for the helper and for the reader of the in-port
		for _, ln := range []int{32_765, 32_766, 32_767, 32_768, 32_769, 40_000, 65_536, 70_000} {
			msgs = append(msgs, midi.SysEx(r.Bytes7(ln-2)), midi.NoteOn(ch(), d(), 1+d()%127))
			c.Count("mc_listento_dumps_of_32KiB_and_more", 1)
		}
	}
	probe := midi.NoteOn(15, 1, 1)
	sentinel := midi.NoteOn(14, 127, 127)
	desc := map[string]any{"history": "midi.ListenTo + midi.SendTo on the process-backed driver", "messages": func() []string {
		var l []string
		for _, m := range msgs {
			l = append(l, mon.Hex(head17(m, 24))+fmt.Sprintf(" (%d bytes)", len(m)))
		}
		return l
	}()}
	var mu sync.Mutex
	var got [][]byte
	live, done := make(chan struct{}, 1), make(chan struct{}, 1)
	var stop func()
	h := &hist{}
	if !guarded(c, h, "midi.ListenTo", func() {
		stop, err = midi.ListenTo(ins[0], func(m midi.Message, ts int32) {
			switch {
			case bytes.Equal(m, probe):
				select {
				case live <- struct{}{}:
				default:
				}
				return
			case bytes.Equal(m, sentinel):
				select {
				case done <- struct{}{}:
				default:
				}
				return
			}
			mu.Lock()
			got = append(got, append([]byte(nil), m...))
			mu.Unlock()
		}, midi.UseSysEx(), midi.UseTimeCode(), midi.UseActiveSense())
	}) {
		return
	}
	if err != nil {
		c.Violation("mc:listento", "midi.ListenTo on the process-backed in-port failed: "+err.Error(), desc, nil, err.Error())
		return
	}
	defer func() {
		guarded(c, h, "stop", stop)
		ins[0].Close()
		outs[0].Close()
	}()
	snd, err := midi.SendTo(outs[0])
	if err != nil {
		c.Violation("mc:sendto", "midi.SendTo on the process-backed out-port failed: "+err.Error(), desc, nil, err.Error())
		return
	}
	// wait until the pipeline is live
	deadline := time.Now().Add(waitObserve)
	isLive := false
	for !isLive && time.Now().Before(deadline) {
		if e := snd(probe); e != nil {
			c.Violation("mc:send-error", "Send of a probe failed: "+e.Error(), desc, nil, e.Error())
			return
		}
		select {
		case <-live:
			isLive = true
		case <-time.After(2 * time.Millisecond):
		}
	}
	if !isLive {
		c.Inconclusive(fmt.Sprintf("ListenTo history %d: probe not observed within %v", idx, waitObserve))
		return
	}
	// let the probes still in flight drain before the measured part (they are filtered by value anyway)
	round := func(label string, batch []midi.Message, pauseAfterFirst time.Duration) bool {
		mu.Lock()
		got = got[:0]
		mu.Unlock()
		desc["round"] = label
		for k, m := range batch {
			var e error
			if !guarded(c, h, "Send", func() { e = snd(m) }) {
				return false
			}
			if e != nil {
				c.Violation("mc:send-error", fmt.Sprintf("%s: Send of % X (%d bytes) on an open out-port failed: %v (IsOpen %v)", label, head17(m, 16), len(m), e, outs[0].IsOpen()), desc, nil, e.Error())
				return false
			}
			c.Count("mc_listento_sends", 1)
			if len(m) < 200 || len(m)%100 == 0 {
				c.SetAdd("mc_listento_message_lengths", fmt.Sprint(len(m)))
			}
			if k == 0 && pauseAfterFirst > 0 {
				time.Sleep(pauseAfterFirst)
				if !outs[0].IsOpen() {
					c.Violation("mc:isopen", fmt.Sprintf("%s: the out-port reports IsOpen() == false although it was opened and not closed since", label), desc, true, false)
					return false
				}
			}
		}
		if e := snd(sentinel); e != nil {
			c.Violation("mc:send-error", label+": Send of the sentinel failed: "+e.Error(), desc, nil, e.Error())
			return false
		}
		select {
		case <-done:
		case <-time.After(waitObserve):
			c.Inconclusive(fmt.Sprintf("ListenTo history %d (%s): sentinel not observed within %v", idx, label, waitObserve))
			return false
		}
		mu.Lock()
		defer mu.Unlock()
		var gl []string
		for _, g := range got {
			gl = append(gl, mon.Hex(head17(g, 24))+fmt.Sprintf(" (%d bytes)", len(g)))
		}
		if len(got) != len(batch) {
			first := ""
			for k := range batch {
				if k >= len(got) || !bytes.Equal(got[k], batch[k]) {
					first = fmt.Sprintf("; first message that did not arrive in its place: % X (%d bytes)", head17(batch[k], 16), len(batch[k]))
					break
				}
			}
			c.Violation("mc:listento-count", fmt.Sprintf("%s: %d messages sent with midi.SendTo before the sentinel that arrived, %d delivered by midi.ListenTo%s", label, len(batch), len(got), first), desc, len(batch), gl)
			return false
		}
		for k := range batch {
			if !bytes.Equal(got[k], batch[k]) {
				c.Violation("mc:listento-value", fmt.Sprintf("%s: message %d sent as % X (%d bytes) arrived as % X (%d bytes)", label, k, head17(batch[k], 24), len(batch[k]), head17(got[k], 24), len(got[k])), desc, mon.Hex(batch[k]), mon.Hex(got[k]))
				return false
			}
			c.Count("mc_listento_deliveries", 1)
		}
		return true
	}
	if !round("first session of the out-port", msgs, 0) {
		return
	}
	c.Count("mc_listento_histories", 1)
	// the out-port closed and opened again at once (a device re-selected in a menu): the new session works,
	// also a few milliseconds later, when everything that belonged to the old session has wound down
	for cyc := 0; cyc < 3; cyc++ {
		var e1, e2 error
		if !guarded(c, h, "out.Close; out.Open", func() {
			e1 = outs[0].Close()
			if cyc == 2 {
				time.Sleep(time.Duration(r.Intn(3000)) * time.Microsecond)
			}
			e2 = outs[0].Open()
		}) {
			return
		}
		if e1 != nil || e2 != nil || !outs[0].IsOpen() {
			c.Violation("mc:reopen", fmt.Sprintf("out.Close() = %v, out.Open() = %v, IsOpen() = %v", e1, e2, outs[0].IsOpen()), desc, nil, nil)
			return
		}
		c.Count("mc_out_reopened_at_once", 1)
		batch := []midi.Message{midi.NoteOn(ch(), d(), 1+d()%127), midi.ProgramChange(ch(), d()), midi.SysEx(r.Bytes7(r.Pick(1, 30, 300))), midi.ControlChange(ch(), d(), d())}
		if !round(fmt.Sprintf("out-port closed and opened again at once (cycle %d)", cyc+1), batch, time.Duration(r.Pick(1, 5, 20))*time.Millisecond) {
			return
		}
	}
	// the ordinary end of a program: the last messages (note offs) are sent and the out-port is closed right away.
	// They were sent while the port was open and the listener active, so they arrive; the port is then opened again
	// and the sentinel behind them shows that nothing is still on its way
	for cyc := 0; cyc < 3; cyc++ {
		last := []midi.Message{midi.NoteOffVelocity(ch(), d(), d()), midi.ControlChange(ch(), 123, 0), midi.SysEx(r.Bytes7(r.Pick(1, 50)))}[:1+r.Intn(3)]
		mu.Lock()
		got = got[:0]
		mu.Unlock()
		desc["round"] = fmt.Sprintf("Send x %d, then out.Close() at once (cycle %d)", len(last), cyc+1)
		var se, ce, oe error
		if !guarded(c, h, "Send; out.Close", func() {
			for _, m := range last {
				if e := snd(m); e != nil && se == nil {
					se = e
				}
			}
			ce = outs[0].Close()
		}) {
			return
		}
		if se != nil || ce != nil {
			c.Violation("mc:send-close", fmt.Sprintf("Send on the open out-port returned %v, the Close that followed returned %v", se, ce), desc, nil, nil)
			return
		}
		c.Count("mc_out_closed_right_after_send", 1)
		if !guarded(c, h, "out.Open", func() { oe = outs[0].Open() }) {
			return
		}
		if oe != nil {
			c.Violation("mc:reopen", fmt.Sprintf("out.Open() after Close = %v", oe), desc, nil, nil)
			return
		}
		if e := snd(sentinel); e != nil {
			c.Violation("mc:send-error", "Send of the sentinel after re-opening failed: "+e.Error(), desc, nil, e.Error())
			return
		}
		select {
		case <-done:
		case <-time.After(waitObserve):
			c.Inconclusive(fmt.Sprintf("ListenTo history %d: sentinel not observed within %v after close and re-open", idx, waitObserve))
			return
		}
		mu.Lock()
		n := len(got)
		ok := n == len(last)
		for k := 0; ok && k < n; k++ {
			ok = bytes.Equal(got[k], last[k])
		}
		mu.Unlock()
		if !ok {
			c.Violation("mc:lost-at-close", fmt.Sprintf("%d messages were sent (Send returned nil) while the out-port was open and the listener active, then the out-port was closed at once: %d of them reached the listener before a sentinel sent after re-opening did", len(last), n), desc, len(last), n)
			return
		}
		c.Count("mc_listento_deliveries", int64(n))
	}
}

// zombieHelpers counts the child processes of this process that have ended but were never waited for.
func zombieHelpers() (n int, names []string) {
	self := os.Getpid()
	ents, _ := os.ReadDir("/proc")
	for _, e := range ents {
		pid, err := strconv.Atoi(e.Name())
		if err != nil {
			continue
		}
		b, err := os.ReadFile(fmt.Sprintf("/proc/%d/stat", pid))
		if err != nil {
			continue
		}
		// pid (comm) state ppid ...
		st := string(b)
		rp := strings.LastIndexByte(st, ')')
		lp := strings.IndexByte(st, '(')
		if rp < 0 || lp < 0 {
			continue
		}
		f := strings.Fields(st[rp+1:])
		if len(f) < 2 {
			continue
		}
		if ppid, _ := strconv.Atoi(f[1]); ppid == self && f[0] == "Z" {
			n++
			if len(names) < 5 {
				names = append(names, fmt.Sprintf("%d %s", pid, st[lp+1:rp]))
			}
		}
	}
	return
}

// CheckHelpersReaped: after a history has closed all its ports, the helper processes it started have ended AND have
// been waited for. A helper that is killed but never waited for stays a zombie that holds its process id until the
// program ends: histories of some ten thousand open/close cycles then cannot open a port any more (fork fails).
func CheckHelpersReaped(c *mon.Ctx, what string) {
	var n int
	var names []string
	for try := 0; try < 100; try++ { // asynchronous reaping is fine: up to 10 s
		if n, names = zombieHelpers(); n == 0 {
			break
		}
		time.Sleep(100 * time.Millisecond)
	}
	c.Count("mc_reaping_checks", 1)
	if n > 0 {
		c.Violation("mc:helpers-not-reaped", fmt.Sprintf("%s: all ports are closed, but %d helper processes started by the driver have ended without being waited for (zombies, e.g. %v); every open/close cycle leaves one behind until no process can be started any more", what, n, names), nil, 0, n)
	}
}

func head17(b []byte, n int) []byte {
	if len(b) > n {
		return b[:n]
	}
	return b
}

// runBurstBehindSlowCallback: while one listener callback stays busy for two seconds, eight senders
// put 20 000 messages on the port (more than any bounded hand-over queue of a few thousand entries
// holds). Nothing is stopped or closed: after the callback has returned, every message whose Send
// returned before the observed sentinel must have arrived exactly once.
func runBurstBehindSlowCallback(c *mon.Ctx) {
	dir := filepath.Join(c.Dir, fmt.Sprintf("mc-burst-%d", c.Shard))
	os.MkdirAll(dir, 0o755)
	defer os.RemoveAll(dir)
	os.Setenv("VERIF_MC_DIR", dir)
	os.Setenv("VERIF_MC_DELAY_US", "0")
	drv, err := midicatdrv.New()
	if err != nil {
		c.Inconclusive("midicatdrv.New failed: " + err.Error())
		return
	}
	ins, _ := drv.Ins()
	outs, _ := drv.Outs()
	h := &hist{}
	const nSenders, perSender = 8, 2500
	desc := map[string]any{"history": fmt.Sprintf("Listen; one callback sleeps 2 s; meanwhile %d senders send %d messages each; sentinel; nothing stopped in flight", nSenders, perSender)}
	if ins[0].Open() != nil || outs[0].Open() != nil {
		c.Violation("mc:open", "cannot open ports against the stand-in helper", desc, nil, nil)
		return
	}
	defer ins[0].Close()
	defer outs[0].Close()
	var mu sync.Mutex
	seen := map[int]int{}
	live, done := make(chan struct{}, 1), make(chan struct{}, 1)
	slowID := msgID(senderProbe, 1_000_000)
	var stop func()
	if !guarded(c, h, "Listen", func() {
		stop, err = ins[0].Listen(func(msg []byte, ts int32) {
			id, ok := decMsg(msg)
			if !ok {
				return
			}
			switch {
			case id == slowID:
				time.Sleep(2 * time.Second)
			case id>>28 == senderProbe && id&(1<<28-1) >= 2_000_000:
				select {
				case done <- struct{}{}:
				default:
				}
			case id>>28 == senderProbe:
				select {
				case live <- struct{}{}:
				default:
				}
			}
			mu.Lock()
			seen[id]++
			mu.Unlock()
		}, drivers.ListenConfig{})
	}) || err != nil {
		if err != nil {
			c.Violation("mc:listen", "Listen failed: "+err.Error(), desc, nil, nil)
		}
		return
	}
	defer func() { guarded(c, h, "stop", stop) }()
	deadline := time.Now().Add(waitObserve)
	isLive := false
	for k := 1; !isLive && time.Now().Before(deadline); k++ {
		outs[0].Send(encMsg(senderProbe, k))
		select {
		case <-live:
			isLive = true
		case <-time.After(2 * time.Millisecond):
		}
	}
	if !isLive {
		c.Inconclusive("burst history: probe not observed within the wait limit")
		return
	}
	if e := outs[0].Send(encMsg(senderProbe, 1_000_000)); e != nil {
		c.Violation("mc:send-error", "Send failed: "+e.Error(), desc, nil, e.Error())
		return
	}
	var wg sync.WaitGroup
	var sendErr atomic.Value
	for s := 0; s < nSenders; s++ {
		wg.Add(1)
		go func(s int) {
			defer wg.Done()
			for k := 1; k <= perSender; k++ {
				if e := outs[0].Send(encMsg(s, k)); e != nil {
					sendErr.Store(e)
					return
				}
			}
		}(s)
	}
	if !guarded(c, h, "senders", wg.Wait) {
		return
	}
	if e := sendErr.Load(); e != nil {
		c.Violation("mc:send-error", fmt.Sprintf("Send on an open port failed: %v", e), desc, nil, fmt.Sprint(e))
		return
	}
	// sentinels (each sent after all the messages) until one of them is observed
	observed := false
	deadline = time.Now().Add(2 * waitObserve)
	for k := 0; !observed && time.Now().Before(deadline); k++ {
		outs[0].Send(encMsg(senderProbe, 2_000_000+k))
		select {
		case <-done:
			observed = true
		case <-time.After(50 * time.Millisecond):
		}
	}
	if !observed {
		c.Inconclusive("burst history: no sentinel observed within the wait limit")
		return
	}
	c.Count("mc_bursts_behind_slow_callback", 1)
	mu.Lock()
	defer mu.Unlock()
	missing, dup := 0, 0
	first := -1
	for s := 0; s < nSenders; s++ {
		for k := 1; k <= perSender; k++ {
			switch n := seen[msgID(s, k)]; {
			case n == 0:
				missing++
				if first < 0 {
					first = msgID(s, k)
				}
			case n > 1:
				dup++
			}
		}
	}
	c.Count("mc_burst_messages_checked", int64(nSenders*perSender))
	if missing > 0 || dup > 0 {
		c.Violation("mc:lost", fmt.Sprintf("%d messages were sent (Send returned nil) by %d senders while one listener callback was busy for 2 s, all before the sentinel that arrived: %d never arrived, %d arrived more than once (first missing: sender %d message %d)", nSenders*perSender, nSenders, missing, dup, first>>28, first&(1<<28-1)), desc, nSenders*perSender, nSenders*perSender-missing)
	}
}
