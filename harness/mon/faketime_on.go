//go:build faketime

package mon

// FakeTime is true in worker binaries built with the Go runtime's faketime tag: the process clock is
// virtual, starts at a fixed instant and jumps forward whenever every goroutine is blocked, so
// time.Sleep(48*time.Hour) returns at once and time.Now() is exact and deterministic. Such
// workers run only the EachFT case groups.
const FakeTime = true
