package mon

import (
	"encoding/json"
	"fmt"
	"hash/fnv"
	"os"
	"os/exec"
	"path/filepath"
	"sort"
	"strconv"
	"strings"
	"syscall"
	"time"
)

// Spec describes one property check.
type Spec struct {
	ID          string
	Level       string // exploration | fault_enumeration
	Rule        string
	Assumptions []string
	Require     []string // counters that must be non-zero in the merged result, else inconclusive
	Workers     int      // 0 = default (16)
	UsesCur     bool     // write current-case files (cases that can die with a fatal error)
	// FakeTimeWorkers > 0: that many additional workers are started from the binary built with the
	// runtime's faketime tag (<binary>-ft); they run the EachFT case groups on a virtual process clock.
	FakeTimeWorkers int
	// Int32Worker: one additional worker is started from the binary built for a platform where int has 32 bits
	// (<binary>-386, GOARCH=386); it runs the Each32 case groups only.
	Int32Worker bool
	// EnvFn returns extra environment variables for the workers, given the run directory.
	EnvFn func(dir string) []string
	Run   func(c *Ctx)
	// Post may inspect the merged result and add inconclusive reasons or violations.
	Post func(m *Merged)
	// Exhaustive names the finite spaces this check completes in each tier (informational; the
	// evidence sets exhaustive=true only if every one of them was marked by the workers).
	ExhaustiveSpaces map[string][]string
}

var registry = map[string]*Spec{}

func Register(s *Spec) { registry[s.ID] = s }

func Lookup(id string) *Spec { return registry[id] }

func IDs() []string {
	var l []string
	for k := range registry {
		l = append(l, k)
	}
	sort.Strings(l)
	return l
}

// Merged is the union of all worker results.
type Merged struct {
	Spec        *Spec
	Tier        string
	Seed        uint64
	Evaluations int64
	Enumerated  int64
	Counters    map[string]int64
	Max         map[string]float64
	Distinct    map[uint64]struct{}
	Sets        map[string]map[string]struct{}
	Samples     []any
	Violations  []Violation
	ViolCount   int64
	Inconcl     []string
	Notes       map[string]string
	Groups      map[string]int64
	GroupSecs   map[string]float64 // CPU-side wall seconds per case group, summed over workers
	Exhaustive  map[string]bool
	Extra       map[string]any
	Dir         string // run directory (worker logs, race detector logs, ...)
}

func (m *Merged) Inconclusive(r string) { m.Inconcl = append(m.Inconcl, r) }

type known struct {
	Kind     string `json:"kind"` // fixed | known
	Property string `json:"property"`
	Commit   string `json:"commit,omitempty"`
	Sig      string `json:"sig,omitempty"` // for kind=known: exact violation signature
	What     string `json:"what"`
	Line     string `json:"line"`
}

type knownFile struct {
	Entries []known `json:"entries"`
}

func loadKnown(verifDir string) []known {
	b, err := os.ReadFile(filepath.Join(verifDir, "known_findings.json"))
	if err != nil {
		return nil
	}
	var k knownFile
	if json.Unmarshal(b, &k) != nil {
		return nil
	}
	return k.Entries
}

// Options of a parent run.
type Options struct {
	Tier     string
	Seed     uint64
	VerifDir string
	Only     string
	Workers  int
	Env      []string
}

// RunParent spawns the workers, merges, decides, writes evidence, prints the verdict
// lines and returns the process exit code (0 held, 1 violated, 2 inconclusive).
func RunParent(spec *Spec, opt Options) int {
	t0 := time.Now()
	n := spec.Workers
	if n == 0 {
		n = 16
	}
	if opt.Workers > 0 {
		n = opt.Workers
	}
	if opt.Only != "" {
		n = 1
	}
	dir := filepath.Join(opt.VerifDir, ".build", "run", fmt.Sprintf("%s-%s-%d", spec.ID, opt.Tier, os.Getpid()))
	os.RemoveAll(dir)
	os.MkdirAll(dir, 0o755)

	watchdog := 12 * time.Minute
	if opt.Tier == "thorough" {
		watchdog = 100 * time.Minute
	}

	type wk struct {
		cmd  *exec.Cmd
		out  string
		cur  string
		log  string
		done chan error
	}
	var ws []*wk
	nft := spec.FakeTimeWorkers
	if nft > 0 && opt.Only != "" {
		nft = 1
	}
	ftBin := os.Args[0] + "-ft"
	if nft > 0 {
		if _, err := os.Stat(ftBin); err != nil {
			fmt.Printf("INCONCLUSIVE property=%s reason=the worker binary with the virtual clock (%s) was not built\n", spec.ID, ftBin)
			return 2
		}
	}
	n32 := 0
	bin32 := os.Args[0] + "-386"
	if spec.Int32Worker {
		if _, err := os.Stat(bin32); err != nil {
			fmt.Printf("INCONCLUSIVE property=%s reason=the worker binary for a 32-bit platform (%s) was not built\n", spec.ID, bin32)
			return 2
		}
		n32 = 1
	}
	for k := 0; k < n+nft+n32; k++ {
		i, pool, bin, tag := k, n, os.Args[0], ""
		if k >= n+nft {
			i, pool, bin, tag = 0, 1, bin32, "386-"
		} else if k >= n {
			i, pool, bin, tag = k-n, nft, ftBin, "ft-"
		}
		w := &wk{
			out: filepath.Join(dir, fmt.Sprintf("res-%s%d.json", tag, i)),
			cur: filepath.Join(dir, fmt.Sprintf("cur-%s%d", tag, i)),
			log: filepath.Join(dir, fmt.Sprintf("worker-%s%d.log", tag, i)),
		}
		args := []string{"-property", spec.ID, "-tier", opt.Tier, "-seed", strconv.FormatUint(opt.Seed, 10),
			"-worker", fmt.Sprintf("%d/%d", i, pool), "-out", w.out, "-dir", dir}
		if spec.UsesCur {
			args = append(args, "-cur", w.cur)
		}
		if opt.Only != "" {
			args = append(args, "-only", opt.Only)
		}
		w.cmd = exec.Command(bin, args...)
		w.cmd.Env = append(os.Environ(), opt.Env...)
		if spec.EnvFn != nil {
			w.cmd.Env = append(w.cmd.Env, spec.EnvFn(dir)...)
		}
		if tag == "ft-" {
			// with more than one P the faketime runtime of go 1.23 livelocks in GC mark termination
			// (forEachP never completes while the clock is being advanced): one P per virtual-clock worker
			w.cmd.Env = append(w.cmd.Env, "GOMAXPROCS=1")
		}
		lf, _ := os.Create(w.log)
		w.cmd.Stdout = lf
		w.cmd.Stderr = lf
		w.done = make(chan error, 1)
		if err := w.cmd.Start(); err != nil {
			fmt.Printf("INCONCLUSIVE property=%s reason=cannot start worker: %v\n", spec.ID, err)
			return 2
		}
		go func(w *wk, lf *os.File) { w.done <- w.cmd.Wait(); lf.Close() }(w, lf)
		ws = append(ws, w)
	}

	m := &Merged{Spec: spec, Tier: opt.Tier, Seed: opt.Seed, Counters: map[string]int64{}, Max: map[string]float64{},
		Distinct: map[uint64]struct{}{}, Sets: map[string]map[string]struct{}{}, Notes: map[string]string{},
		Groups: map[string]int64{}, GroupSecs: map[string]float64{}, Exhaustive: map[string]bool{}, Extra: map[string]any{}, Dir: dir}
	exhaustCount := map[string]int{}
	deadline := time.After(watchdog)
	timedOut := false
	for i, w := range ws {
		var err error
		select {
		case err = <-w.done:
		case <-deadline:
			timedOut = true
			for _, x := range ws {
				if x.cmd.Process != nil {
					x.cmd.Process.Signal(syscall.SIGQUIT)
				}
			}
			time.Sleep(2 * time.Second)
			for _, x := range ws {
				if x.cmd.Process != nil {
					x.cmd.Process.Kill()
				}
			}
			err = <-w.done
			deadline = nil
		}
		var r Result
		b, rerr := os.ReadFile(w.out)
		if rerr == nil {
			rerr = json.Unmarshal(b, &r)
		}
		if rerr != nil {
			// worker died without a result
			if timedOut {
				m.Inconclusive(fmt.Sprintf("watchdog fired after %v; worker %d log: %s", watchdog, i, w.log))
				continue
			}
			cur, _ := os.ReadFile(w.cur)
			if i := strings.Index(string(cur), CurEndMarker); i >= 0 {
				cur = cur[:i]
			} else {
				cur = nil // no complete record
			}
			tail := tailFile(w.log, 6000)
			if len(cur) > 0 {
				id := strings.SplitN(string(cur), "\n", 2)[0]
				grp := strings.SplitN(id, ":", 2)[0]
				m.ViolCount++
				m.Violations = append(m.Violations, Violation{
					Class: "fatal:" + grp, CaseID: id, Sig: "fatal:" + grp + ":" + fatalKind(tail),
					Message: fmt.Sprintf("worker process died (%v) while running this case: %s", err, fatalKind(tail)),
					Input:   string(cur), Want: "call returns", Got: tail,
				})
			} else {
				m.Inconclusive(fmt.Sprintf("worker %d died (%v) with no attributable case; log: %s; tail: %s", i, err, w.log, firstLine(tail)))
			}
			continue
		}
		m.Evaluations += r.Evaluations
		m.Enumerated += r.Enumerated
		for k, v := range r.Counters {
			m.Counters[k] += v
		}
		for k, v := range r.Max {
			if old, ok := m.Max[k]; !ok || v > old {
				m.Max[k] = v
			}
		}
		for _, h := range r.Distinct {
			m.Distinct[h] = struct{}{}
		}
		for name, l := range r.Sets {
			s := m.Sets[name]
			if s == nil {
				s = map[string]struct{}{}
				m.Sets[name] = s
			}
			for _, e := range l {
				s[e] = struct{}{}
			}
		}
		if len(m.Samples) < 10 {
			for _, s := range r.Samples {
				if len(m.Samples) < 10 {
					m.Samples = append(m.Samples, s)
				}
			}
		}
		m.Violations = append(m.Violations, r.Violations...)
		m.ViolCount += r.ViolCount
		m.Inconcl = append(m.Inconcl, r.Inconcl...)
		for k, v := range r.Notes {
			m.Notes[k] = v
		}
		for k, v := range r.Groups {
			m.Groups[k] += v
		}
		for k, v := range r.GroupSecs {
			m.GroupSecs[k] += v
		}
		for k, v := range r.Exhaustive {
			if v {
				exhaustCount[k]++
			}
		}
		for k, v := range r.Extra {
			var x any
			json.Unmarshal(v, &x)
			m.Extra[k] = x
		}
	}
	for k, cnt := range exhaustCount {
		if cnt == n && opt.Only == "" {
			m.Exhaustive[k] = true
		}
	}

	if opt.Only == "" {
		for _, req := range spec.Require {
			if m.Counters[req] == 0 {
				m.Inconclusive("mandatory observation counter is zero: " + req)
			}
		}
		if spec.Post != nil {
			spec.Post(m)
		}
	}

	// classify violations against the known-findings file
	kn := loadKnown(opt.VerifDir)
	var fresh []Violation
	knownHit := map[string]known{}
	for _, v := range m.Violations {
		matched := false
		for _, k := range kn {
			if k.Kind == "known" && k.Property == spec.ID && k.Sig != "" && k.Sig == v.Sig {
				knownHit[k.Sig] = k
				matched = true
				break
			}
		}
		if !matched {
			fresh = append(fresh, v)
		}
	}
	var sigs []string
	for s := range knownHit {
		sigs = append(sigs, s)
	}
	sort.Strings(sigs)
	for _, s := range sigs {
		fmt.Printf("KNOWN-FINDING: property=%s %s\n", spec.ID, knownHit[s].What)
	}

	// one replay file per violation class
	code := 0
	if len(fresh) > 0 {
		code = 1
		rdir := filepath.Join(opt.VerifDir, "replays", spec.ID)
		os.MkdirAll(rdir, 0o755)
		seen := map[string]bool{}
		for _, v := range fresh {
			if seen[v.Class] {
				continue
			}
			seen[v.Class] = true
			h := fnv.New32a()
			h.Write([]byte(v.Class))
			p := filepath.Join(rdir, fmt.Sprintf("%s-%s-%08x.json", opt.Tier, sanitize(v.Class), h.Sum32()))
			rb, _ := json.MarshalIndent(map[string]any{
				"property": spec.ID, "tier": opt.Tier, "seed": opt.Seed, "case_id": v.CaseID,
				"class": v.Class, "sig": v.Sig, "message": v.Message, "input": v.Input, "want": v.Want, "got": v.Got,
				"replay": fmt.Sprintf("./run.sh %s %s --replay %s", spec.ID, opt.Tier, p),
			}, "", " ")
			os.WriteFile(p, rb, 0o644)
			fmt.Printf("VIOLATION property=%s replay=%s\n", spec.ID, p)
			fmt.Printf("  class=%s case=%s: %s\n", v.Class, v.CaseID, firstLine(v.Message))
		}
	} else if len(m.Inconcl) > 0 {
		code = 2
		for _, r := range dedupe(m.Inconcl) {
			fmt.Printf("INCONCLUSIVE property=%s reason=%s\n", spec.ID, r)
		}
	}

	wall := time.Since(t0).Seconds()
	if d := distinctCount(m); m.Evaluations < d {
		m.Evaluations = d // cases counted as enumerated are evaluations too
	}
	if opt.Only == "" {
		writeEvidence(m, opt, wall, len(fresh), sigs)
	}
	if code == 0 {
		os.RemoveAll(dir) // worker logs are only kept for runs that need attention
	}
	verdict := map[int]string{0: "held", 1: "violated", 2: "inconclusive"}[code]
	fmt.Printf("%s %s seed=%d: %s on %d evaluations (%d distinct non-trivial) in %.1fs\n", spec.ID, opt.Tier, opt.Seed, verdict,
		m.Evaluations, distinctCount(m), wall)
	return code
}

func distinctCount(m *Merged) int64 { return int64(len(m.Distinct)) + m.Enumerated }

func dedupe(l []string) []string {
	seen := map[string]bool{}
	var out []string
	for _, s := range l {
		if !seen[s] {
			seen[s] = true
			out = append(out, s)
		}
	}
	return out
}

func sanitize(s string) string {
	var b strings.Builder
	for _, r := range s {
		if (r >= 'a' && r <= 'z') || (r >= 'A' && r <= 'Z') || (r >= '0' && r <= '9') || r == '-' {
			b.WriteRune(r)
		} else {
			b.WriteByte('_')
		}
	}
	out := b.String()
	if len(out) > 60 {
		out = out[:60]
	}
	return out
}

func tailFile(p string, n int) string {
	b, err := os.ReadFile(p)
	if err != nil {
		return ""
	}
	// for fatal errors the head of the log carries the reason
	if len(b) > n {
		return string(b[:n/2]) + "\n...\n" + string(b[len(b)-n/2:])
	}
	return string(b)
}

func fatalKind(log string) string {
	for _, line := range strings.Split(log, "\n") {
		if strings.HasPrefix(line, "fatal error:") || strings.HasPrefix(line, "runtime:") || strings.HasPrefix(line, "panic:") ||
			strings.Contains(line, "WARNING: DATA RACE") || strings.HasPrefix(line, "SIGQUIT") {
			return firstLine(line)
		}
	}
	return "unknown fatal"
}

func writeEvidence(m *Merged, opt Options, wall float64, fresh int, knownSigs []string) {
	cov := map[string]any{
		"evaluations":         m.Evaluations,
		"distinct_nontrivial": distinctCount(m),
		"rule":                m.Spec.Rule,
		"samples":             m.Samples,
		"events_observed":     m.Counters,
		"case_groups":         m.Groups,
	}
	gs := map[string]float64{}
	for k, v := range m.GroupSecs {
		gs[k] = float64(int(v*100)) / 100
	}
	cov["case_group_worker_seconds"] = gs
	if len(m.Max) > 0 {
		cov["maxima"] = m.Max
	}
	sets := map[string]any{}
	for name, s := range m.Sets {
		var l []string
		for e := range s {
			l = append(l, e)
		}
		sort.Strings(l)
		if len(l) > 400 {
			sets[name] = map[string]any{"size": len(l), "first": l[:400]}
		} else {
			sets[name] = map[string]any{"size": len(l), "elements": l}
		}
	}
	if len(sets) > 0 {
		cov["coverage_sets"] = sets
	}
	if len(m.Notes) > 0 {
		cov["notes"] = m.Notes
	}
	for k, v := range m.Extra {
		cov[k] = v
	}
	var ex []string
	for k, v := range m.Exhaustive {
		if v {
			ex = append(ex, k)
		}
	}
	sort.Strings(ex)
	if len(ex) > 0 {
		cov["exhaustive"] = true
		cov["exhaustive_spaces"] = ex
	}
	if len(m.Inconcl) > 0 {
		cov["inconclusive"] = dedupe(m.Inconcl)
	}
	if len(knownSigs) > 0 {
		cov["known_findings_observed"] = knownSigs
	}
	if m.Samples == nil {
		cov["samples"] = []any{}
	}
	ev := map[string]any{
		"property_id": m.Spec.ID,
		"tier":        opt.Tier,
		"seed":        opt.Seed,
		"level":       m.Spec.Level,
		"coverage":    cov,
		"assumptions": m.Spec.Assumptions,
		"wall_s":      wall,
		"violations":  fresh,
	}
	b, _ := json.MarshalIndent(ev, "", " ")
	evDir := filepath.Join(opt.VerifDir, "evidence")
	if d := os.Getenv("VERIF_EVIDENCE_DIR"); d != "" {
		evDir = d // runs against scratch copies (mutants) must not overwrite the evidence of the real tree
	}
	os.MkdirAll(evDir, 0o755)
	os.WriteFile(filepath.Join(evDir, m.Spec.ID+".json"), b, 0o644)
}
