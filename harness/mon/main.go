package mon

import (
	"encoding/json"
	"flag"
	"fmt"
	"os"
	"path/filepath"
	"strconv"
)

// Main is the entry point shared by the check binaries.
// Probes are small programs inside the check binary, run by checks as child processes.
var Probes = map[string]func(args []string){}

func Main() {
	prop := flag.String("property", "", "property id")
	tier := flag.String("tier", "quick", "quick|thorough")
	seedF := flag.String("seed", "", "seed (default VERIF_SEED or 1)")
	worker := flag.String("worker", "", "i/N (internal)")
	out := flag.String("out", "", "worker result file (internal)")
	cur := flag.String("cur", "", "current-case file (internal)")
	dir := flag.String("dir", "", "run directory (internal)")
	only := flag.String("only", "", "run only this case id")
	replay := flag.String("replay", "", "replay file written by a violation")
	workers := flag.Int("workers", 0, "number of worker processes")
	list := flag.Bool("list", false, "list properties")
	probe := flag.String("probe", "", "run the named probe with the remaining arguments (internal)")
	flag.Parse()

	if *probe != "" {
		// a child process of a check: one call of the library in a process of its own (e.g. under a system call injector)
		f := Probes[*probe]
		if f == nil {
			fmt.Println("unknown probe", *probe)
			os.Exit(2)
		}
		f(flag.Args())
		return
	}
	if *list {
		for _, id := range IDs() {
			fmt.Println(id)
		}
		return
	}
	seed := uint64(1)
	if s := os.Getenv("VERIF_SEED"); s != "" {
		if v, err := strconv.ParseUint(s, 10, 64); err == nil {
			seed = v
		}
	}
	if *seedF != "" {
		if v, err := strconv.ParseUint(*seedF, 10, 64); err == nil {
			seed = v
		}
	}
	if t := os.Getenv("VERIF_TIER"); t != "" && !isFlagSet("tier") {
		*tier = t
	}
	if *replay != "" {
		b, err := os.ReadFile(*replay)
		if err != nil {
			fmt.Println("cannot read replay file:", err)
			os.Exit(2)
		}
		var r struct {
			Property string `json:"property"`
			Tier     string `json:"tier"`
			Seed     uint64 `json:"seed"`
			CaseID   string `json:"case_id"`
		}
		json.Unmarshal(b, &r)
		if *prop == "" {
			*prop = r.Property
		}
		*tier, seed, *only = r.Tier, r.Seed, r.CaseID
	}
	spec := Lookup(*prop)
	if spec == nil {
		fmt.Printf("unknown property %q (have %v)\n", *prop, IDs())
		os.Exit(2)
	}
	if *worker != "" {
		var i, n int
		fmt.Sscanf(*worker, "%d/%d", &i, &n)
		c := NewCtx(spec.ID, *tier, seed, i, n)
		c.Only = *only
		c.CurFile = *cur
		c.Dir = *dir
		spec.Run(c)
		if c.CurFile != "" {
			os.Remove(c.CurFile) // finished normally: no case is running any more
		}
		if err := c.Finish(*out); err != nil {
			fmt.Println("cannot write result:", err)
			os.Exit(3)
		}
		return
	}
	vd := os.Getenv("VERIF_DIR")
	if vd == "" {
		vd = "/verif"
	}
	vd, _ = filepath.Abs(vd)
	os.Exit(RunParent(spec, Options{Tier: *tier, Seed: seed, VerifDir: vd, Only: *only, Workers: *workers}))
}

func isFlagSet(name string) bool {
	set := false
	flag.Visit(func(f *flag.Flag) {
		if f.Name == name {
			set = true
		}
	})
	return set
}
