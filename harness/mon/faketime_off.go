//go:build !faketime

package mon

// FakeTime: see faketime_on.go.
const FakeTime = false
