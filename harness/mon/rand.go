package mon

import "hash/fnv"

// Rand is a small deterministic PRNG (splitmix64 seeding, xoshiro256**).
type Rand struct{ s [4]uint64 }

func splitmix(x *uint64) uint64 {
	*x += 0x9E3779B97F4A7C15
	z := *x
	z = (z ^ (z >> 30)) * 0xBF58476D1CE4E5B9
	z = (z ^ (z >> 27)) * 0x94D049BB133111EB
	return z ^ (z >> 31)
}

// NewRand derives a generator from the run seed, the property, the case group and the case index.
func NewRand(seed uint64, prop, group string, idx uint64) *Rand {
	h := fnv.New64a()
	h.Write([]byte(prop))
	h.Write([]byte{0})
	h.Write([]byte(group))
	x := seed*0x9E3779B97F4A7C15 ^ h.Sum64() ^ (idx+1)*0xD1B54A32D192ED03
	var r Rand
	for i := range r.s {
		r.s[i] = splitmix(&x)
	}
	return &r
}

func rotl(x uint64, k uint) uint64 { return (x << k) | (x >> (64 - k)) }

func (r *Rand) U64() uint64 {
	s := &r.s
	res := rotl(s[1]*5, 7) * 9
	t := s[1] << 17
	s[2] ^= s[0]
	s[3] ^= s[1]
	s[1] ^= s[2]
	s[0] ^= s[3]
	s[2] ^= t
	s[3] = rotl(s[3], 45)
	return res
}

// Intn returns a value in [0,n).
func (r *Rand) Intn(n int) int {
	if n <= 1 {
		return 0
	}
	return int(r.U64() % uint64(n))
}

// Range returns a value in [lo,hi].
func (r *Rand) Range(lo, hi int) int { return lo + r.Intn(hi-lo+1) }

func (r *Rand) Bool() bool { return r.U64()&1 == 1 }

// P returns true with probability num/den.
func (r *Rand) P(num, den int) bool { return r.Intn(den) < num }

func (r *Rand) Byte() byte { return byte(r.U64()) }

func (r *Rand) U32() uint32 { return uint32(r.U64()) }

// Bytes returns n random bytes.
func (r *Rand) Bytes(n int) []byte {
	b := make([]byte, n)
	for i := 0; i < n; i += 8 {
		v := r.U64()
		for j := 0; j < 8 && i+j < n; j++ {
			b[i+j] = byte(v >> (8 * j))
		}
	}
	return b
}

// Bytes7 returns n random 7-bit bytes.
func (r *Rand) Bytes7(n int) []byte {
	b := r.Bytes(n)
	for i := range b {
		b[i] &= 0x7F
	}
	return b
}

// Pick returns one of the given ints.
func (r *Rand) Pick(v ...int) int { return v[r.Intn(len(v))] }

// PickU32 returns one of the given values.
func (r *Rand) PickU32(v ...uint32) uint32 { return v[r.Intn(len(v))] }

// Partition cuts [0,n) into random consecutive chunk lengths (each >= 1).
func (r *Rand) Partition(n int, maxChunk int) []int {
	var out []int
	for n > 0 {
		k := 1 + r.Intn(maxChunk)
		if k > n {
			k = n
		}
		out = append(out, k)
		n -= k
	}
	return out
}

// Perm returns a random permutation of 0..n-1.
func (r *Rand) Perm(n int) []int {
	p := make([]int, n)
	for i := range p {
		p[i] = i
	}
	for i := n - 1; i > 0; i-- {
		j := r.Intn(i + 1)
		p[i], p[j] = p[j], p[i]
	}
	return p
}
