// Package mon is the monitor runtime shared by all property checks: deterministic
// case scheduling over worker shards, PRNG, event counters, distinct-case sets,
// samples, violation records, and the merge of worker results into a verdict and
// an evidence file.
package mon

import (
	"encoding/json"
	"fmt"
	"hash/fnv"
	"os"
	"path/filepath"
	"runtime/debug"
	"sort"
	"strconv"
	"strings"
	"time"
)

// Violation is one observed refutation of a property.
type Violation struct {
	Class   string `json:"class"`   // dedupe key: kind of refutation
	CaseID  string `json:"case_id"` // group:index of the case that produced it
	Message string `json:"message"`
	Input   any    `json:"input,omitempty"`
	Want    any    `json:"want,omitempty"`
	Got     any    `json:"got,omitempty"`
	// Sig is the signature matched against known_findings.json entries.
	Sig string `json:"sig"`
}

// Result is what one worker hands back to the parent.
type Result struct {
	Property    string                     `json:"property"`
	Shard       int                        `json:"shard"`
	Evaluations int64                      `json:"evaluations"`
	Enumerated  int64                      `json:"enumerated"` // distinct by construction (injective enumeration index)
	Counters    map[string]int64           `json:"counters"`
	Max         map[string]float64         `json:"max"`
	Distinct    []uint64                   `json:"distinct"`
	Sets        map[string][]string        `json:"sets"`
	Samples     []any                      `json:"samples"`
	Violations  []Violation                `json:"violations"`
	ViolCount   int64                      `json:"viol_count"`
	Inconcl     []string                   `json:"inconclusive"`
	Notes       map[string]string          `json:"notes"`
	Groups      map[string]int64           `json:"groups"`
	GroupSecs   map[string]float64         `json:"group_secs"`
	Exhaustive  map[string]bool            `json:"exhaustive"`
	Extra       map[string]json.RawMessage `json:"extra,omitempty"`
}

// Ctx is the per-worker monitor context.
type Ctx struct {
	Prop    string
	Tier    string
	Seed    uint64
	Shard   int
	NShards int
	Only    string // when set: run only this case id
	CurFile string // when set: write the case id (and payload) before running each case
	Dir     string // scratch/build dir for this run

	res      Result
	distinct map[uint64]struct{}
	sets     map[string]map[string]struct{}
	violSeen map[string]int
	curCase  string
	curF     *os.File
	sampleN  map[string]int
}

var slowDebug = os.Getenv("VERIF_DEBUG_SLOW") != ""

const maxViolPerClass = 3
const maxViolations = 60
const maxDistinct = 1_000_000 // per worker; beyond it distinct cases are no longer recorded (the evidence count is then a lower bound)

func NewCtx(prop, tier string, seed uint64, shard, nshards int) *Ctx {
	c := &Ctx{Prop: prop, Tier: tier, Seed: seed, Shard: shard, NShards: nshards}
	c.res.Property = prop
	c.res.Shard = shard
	c.res.Counters = map[string]int64{}
	c.res.Max = map[string]float64{}
	c.res.Sets = map[string][]string{}
	c.res.Notes = map[string]string{}
	c.res.Groups = map[string]int64{}
	c.res.GroupSecs = map[string]float64{}
	c.res.Exhaustive = map[string]bool{}
	c.distinct = map[uint64]struct{}{}
	c.sets = map[string]map[string]struct{}{}
	c.violSeen = map[string]int{}
	c.sampleN = map[string]int{}
	return c
}

func (c *Ctx) Quick() bool    { return c.Tier != "thorough" }
func (c *Ctx) Thorough() bool { return c.Tier == "thorough" }

// N picks the case count by tier.
func (c *Ctx) N(quick, thorough int64) int64 {
	if c.Thorough() {
		return thorough
	}
	return quick
}

// Count adds n to a named event counter.
func (c *Ctx) Count(name string, n int64) { c.res.Counters[name] += n }

// MaxOf records the maximum of a named measure.
func (c *Ctx) MaxOf(name string, v float64) {
	if old, ok := c.res.Max[name]; !ok || v > old {
		c.res.Max[name] = v
	}
}

// SetAdd adds an element to a named coverage set (e.g. state x byte class pairs).
func (c *Ctx) SetAdd(set, elem string) {
	m := c.sets[set]
	if m == nil {
		m = map[string]struct{}{}
		c.sets[set] = m
	}
	m[elem] = struct{}{}
}

// Distinct records a non-trivial case by its canonical hash.
func (c *Ctx) Distinct(h uint64) {
	if len(c.distinct) < maxDistinct {
		c.distinct[h] = struct{}{}
	} else {
		c.res.Counters["distinct_hashes_not_recorded_beyond_cap"]++
	}
}

// DistinctBytes hashes a canonical byte form.
func (c *Ctx) DistinctBytes(parts ...[]byte) {
	h := fnv.New64a()
	for _, p := range parts {
		h.Write(p)
		h.Write([]byte{0xFE, 0xED})
	}
	c.Distinct(h.Sum64())
}

// Enumerated records n cases that are distinct by construction.
func (c *Ctx) Enumerated(n int64) { c.res.Enumerated += n }

// Sample keeps up to 3 samples per kind, written out in the evidence file.
func (c *Ctx) Sample(kind string, v any) {
	if c.sampleN[kind] >= 2 || len(c.res.Samples) >= 12 {
		return
	}
	c.sampleN[kind]++
	c.res.Samples = append(c.res.Samples, map[string]any{"kind": kind, "case": c.curCase, "value": v})
}

func (c *Ctx) Note(k, v string) { c.res.Notes[k] = v }

// Inconclusive records a reason why this run cannot give a verdict.
func (c *Ctx) Inconclusive(reason string) {
	for _, r := range c.res.Inconcl {
		if r == reason {
			return
		}
	}
	c.res.Inconcl = append(c.res.Inconcl, reason)
}

// Violation records a refutation. class is the dedupe key; sig the known-findings signature.
func (c *Ctx) Violation(class, msg string, input, want, got any) {
	c.ViolationSig(class, class, msg, input, want, got)
}

func (c *Ctx) ViolationSig(class, sig, msg string, input, want, got any) {
	c.res.ViolCount++
	c.violSeen[class]++
	if c.violSeen[class] > maxViolPerClass || len(c.res.Violations) >= maxViolations {
		return
	}
	c.res.Violations = append(c.res.Violations, Violation{
		Class: class, CaseID: c.curCase, Message: msg, Input: input, Want: want, Got: got, Sig: sig,
	})
}

// Violations returns the number of violations recorded so far by this worker.
func (c *Ctx) Violations() int64 { return c.res.ViolCount }

// Each runs fn for the cases i in [0,n) of a named group that belong to this
// shard. Each case gets its own PRNG determined by (seed, property, group, i).
// A panic inside fn is recorded as a violation of class "panic:<group>".
func (c *Ctx) Each(group string, n int64, fn func(i int64, r *Rand)) {
	if FakeTime || Int32 {
		return // workers on the virtual clock run only the EachFT groups, the 32-bit worker only the Each32 groups
	}
	c.each(group, n, fn)
}

// Int32 is true in the worker binary built for a platform where int has 32 bits (GOARCH=386).
const Int32 = strconv.IntSize == 32

// Each32 is Each for case groups that run in the worker built for a 32-bit platform: lengths and counts of 2^31 and
// more that come from the data become negative or wrap when they are converted to int there.
func (c *Ctx) Each32(group string, n int64, fn func(i int64, r *Rand)) {
	if !Int32 {
		return
	}
	c.each(group, n, fn)
}

// EachFT is Each for case groups that need the virtual process clock (long real pauses between
// calls, playback of hour-long files): they run only in the workers built with the faketime tag.
func (c *Ctx) EachFT(group string, n int64, fn func(i int64, r *Rand)) {
	if !FakeTime || Int32 {
		return
	}
	c.each(group, n, fn)
}

func (c *Ctx) each(group string, n int64, fn func(i int64, r *Rand)) {
	c.res.Groups[group] += 0
	t0 := time.Now()
	secs := group
	if FakeTime {
		secs = group + " (seconds passed on the virtual clock)"
	}
	defer func() { c.res.GroupSecs[secs] += time.Since(t0).Seconds() }()
	for i := int64(0); i < n; i++ {
		if int(i%int64(c.NShards)) != c.Shard {
			continue
		}
		id := fmt.Sprintf("%s:%d", group, i)
		if c.Only != "" && c.Only != id {
			continue
		}
		c.runCase(group, id, i, fn)
	}
}

// EachBlock is like Each but shards by contiguous blocks (for enumerations where
// the per-case cost is tiny and the index arithmetic should stay cheap).
func (c *Ctx) EachBlock(group string, n int64, blk int64, fn func(lo, hi int64)) {
	if FakeTime || Int32 {
		return
	}
	nb := (n + blk - 1) / blk
	t0 := time.Now()
	defer func() { c.res.GroupSecs[group] += time.Since(t0).Seconds() }()
	for b := int64(0); b < nb; b++ {
		if int(b%int64(c.NShards)) != c.Shard {
			continue
		}
		id := fmt.Sprintf("%s:%d", group, b)
		if c.Only != "" && c.Only != id {
			continue
		}
		lo, hi := b*blk, (b+1)*blk
		if hi > n {
			hi = n
		}
		c.curCase = id
		c.res.Groups[group]++
		func() {
			defer c.recoverCase(group, nil)
			fn(lo, hi)
		}()
	}
}

func (c *Ctx) runCase(group, id string, i int64, fn func(i int64, r *Rand)) {
	c.curCase = id
	c.res.Evaluations++
	c.res.Groups[group]++
	if c.CurFile != "" {
		c.writeCur(nil)
	}
	r := NewRand(c.Seed, c.Prop, group, uint64(i))
	defer c.recoverCase(group, nil)
	if slowDebug {
		t0 := time.Now()
		defer func() {
			if d := time.Since(t0); d > 200*time.Millisecond {
				fmt.Fprintf(os.Stderr, "SLOW-CASE %s %v\n", id, d)
			}
		}()
	}
	fn(i, r)
}

// writeCur records the running case (and optionally its input) in the current-case file with one
// positioned write into a file that stays open: no create/truncate per case. The record ends with a
// marker line; whatever follows the marker is stale data of an earlier, longer record.
func (c *Ctx) writeCur(payload []byte) {
	if c.curF == nil {
		f, err := os.OpenFile(c.CurFile, os.O_CREATE|os.O_RDWR|os.O_TRUNC, 0o644)
		if err != nil {
			return
		}
		c.curF = f
	}
	rec := c.curCase + "\n"
	if payload != nil {
		if len(payload) > 4000 {
			payload = payload[:4000]
		}
		rec += fmt.Sprintf("%x\n", payload)
	}
	rec += CurEndMarker + "\n"
	c.curF.WriteAt([]byte(rec), 0)
}

// CurEndMarker terminates the record in a current-case file.
const CurEndMarker = "--END-OF-CURRENT-CASE--"

// CurPayload adds details of the running case to the current-case file so the
// parent can build a witness if the worker dies with a fatal error.
func (c *Ctx) CurPayload(b []byte) {
	if c.CurFile == "" {
		return
	}
	c.writeCur(b)
}

func (c *Ctx) recoverCase(group string, input any) {
	if p := recover(); p != nil {
		st := string(debug.Stack())
		// keep the frames below the panic
		if len(st) > 3000 {
			st = st[:3000]
		}
		if !libraryPanic(st) {
			c.Inconclusive(fmt.Sprintf("harness panic in case %s: %v | %s", c.curCase, p, firstLine(harnessFrame(st))))
			return
		}
		c.ViolationSig("panic:"+group, "panic:"+group+":"+firstLine(fmt.Sprint(p)), fmt.Sprintf("panic: %v", p), input, "no panic", st)
	}
}

// libraryPanic reports whether the innermost non-runtime, non-stdlib frame below
// the panic belongs to the library under test (and not to the harness itself).
func libraryPanic(stack string) bool {
	lines := strings.Split(stack, "\n")
	seenPanic := false
	for _, l := range lines {
		if strings.HasPrefix(l, "panic(") {
			seenPanic = true
			continue
		}
		if !seenPanic || strings.HasPrefix(l, "\t") {
			continue
		}
		if strings.HasPrefix(l, "gitlab.com/gomidi/") {
			return true
		}
		if strings.HasPrefix(l, "verif/harness/") {
			return false
		}
	}
	return true
}

func harnessFrame(stack string) string {
	lines := strings.Split(stack, "\n")
	seenPanic := false
	for i, l := range lines {
		if strings.HasPrefix(l, "panic(") {
			seenPanic = true
			continue
		}
		if seenPanic && strings.HasPrefix(l, "verif/harness/") && i+1 < len(lines) {
			return l + " " + strings.TrimSpace(lines[i+1])
		}
	}
	return ""
}

func firstLine(s string) string {
	if i := strings.IndexByte(s, '\n'); i >= 0 {
		s = s[:i]
	}
	if len(s) > 120 {
		s = s[:120]
	}
	return s
}

// Guard runs fn and converts a panic into a violation of the given class; it
// returns true if fn panicked.
func (c *Ctx) Guard(class string, input any, fn func()) (panicked bool) {
	defer func() {
		if p := recover(); p != nil {
			panicked = true
			st := string(debug.Stack())
			if len(st) > 3000 {
				st = st[:3000]
			}
			if !libraryPanic(st) {
				c.Inconclusive(fmt.Sprintf("harness panic in case %s: %v | %s", c.curCase, p, firstLine(harnessFrame(st))))
				return
			}
			c.ViolationSig(class, class+":"+firstLine(fmt.Sprint(p)), fmt.Sprintf("panic: %v", p), input, "no panic", st)
		}
	}()
	fn()
	return false
}

// Eval counts additional evaluations made inside one scheduled case.
func (c *Ctx) Eval(n int64) { c.res.Evaluations += n }

// MarkExhaustive states that the named finite space was enumerated completely by
// the union of all shards.
func (c *Ctx) MarkExhaustive(space string) { c.res.Exhaustive[space] = true }

// Finish serialises the worker result.
func (c *Ctx) Finish(path string) error {
	for h := range c.distinct {
		c.res.Distinct = append(c.res.Distinct, h)
	}
	for name, m := range c.sets {
		var l []string
		for e := range m {
			l = append(l, e)
		}
		sort.Strings(l)
		c.res.Sets[name] = l
	}
	b, err := json.Marshal(&c.res)
	if err != nil {
		return err
	}
	os.MkdirAll(filepath.Dir(path), 0o755)
	return os.WriteFile(path, b, 0o644)
}

// Hex renders bytes for witnesses.
func Hex(b []byte) string {
	if len(b) > 600 {
		return fmt.Sprintf("% X ... (%d bytes)", b[:600], len(b))
	}
	return fmt.Sprintf("% X", b)
}

// HexList renders a list of messages.
func HexList(l [][]byte) []string {
	out := make([]string, 0, len(l))
	for i, m := range l {
		if i >= 60 {
			out = append(out, fmt.Sprintf("... (%d messages)", len(l)))
			break
		}
		out = append(out, Hex(m))
	}
	return out
}
