package gen

import (
	"hash/adler32"
	"hash/crc32"
	"hash/fnv"
	"sync"

	"verif/harness/mon"
)

// CollidingPairs returns pairs of distinct, equally long sysex messages that collide under a common
// 32-bit hash (FNV-1, FNV-1a, CRC-32 IEEE, CRC-32 Castagnoli, Adler-32): code that deduplicates,
// caches or interns messages by such a hash without comparing the bytes confuses the two.
// The pairs are found by a birthday search once per process (a few hundred thousand candidates).
func CollidingPairs() [][2][]byte {
	collideOnce.Do(func() {
		hashes := []func([]byte) uint32{
			func(b []byte) uint32 { h := fnv.New32a(); h.Write(b); return h.Sum32() },
			func(b []byte) uint32 { h := fnv.New32(); h.Write(b); return h.Sum32() },
			crc32.ChecksumIEEE,
			func(b []byte) uint32 { return crc32.Checksum(b, crc32.MakeTable(crc32.Castagnoli)) },
			adler32.Checksum,
		}
		r := mon.NewRand(12345, "collide", "sysex", 0)
		const n = 260000
		cands := make([][]byte, n)
		for i := range cands {
			m := make([]byte, 9)
			m[0], m[8] = 0xF0, 0xF7
			copy(m[1:8], r.Bytes7(7))
			cands[i] = m
		}
		for _, h := range hashes {
			seen := make(map[uint32]int, n)
			found := 0
			for i, m := range cands {
				k := h(m)
				if j, ok := seen[k]; ok && string(cands[j]) != string(m) {
					collidePairs = append(collidePairs, [2][]byte{cands[j], m})
					found++
					if found >= 3 {
						break
					}
				} else {
					seen[k] = i
				}
			}
		}
	})
	return collidePairs
}

var collideOnce sync.Once
var collidePairs [][2][]byte
