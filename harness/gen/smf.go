package gen

import (
	"verif/harness/mon"
	"verif/harness/ref"
)

// DeltaBoundaries are the VLQ boundary values of delta times.
var DeltaBoundaries = []uint32{0, 1, 127, 128, 16383, 16384, 2097151, 2097152, 0x0FFFFFFF,
	// values whose VLQ encoding ends with the bytes FF 2F (looks like an end-of-track marker when followed by 00)
	16303, 32687, 2097071}

// Markers are byte sequences that have a structural meaning elsewhere in a file; embedded in
// payloads they must be treated as plain content.
var Markers = [][]byte{{0xFF, 0x2F, 0x00}, []byte("MTrk"), []byte("MThd"), {0xF7}, {0xF0, 0x00}, {0xFF, 0x51, 0x03}, {0x00, 0xFF, 0x2F, 0x00}, {0xFF}, {0x00, 0x00, 0xFF, 0x2F, 0x00, 'M', 'T', 'r', 'k'}}

// embedMarker overwrites a random position of p with a structural marker (if it fits).
func embedMarker(r *mon.Rand, p []byte) {
	m := Markers[r.Intn(len(Markers))]
	if len(p) < len(m) {
		return
	}
	copy(p[r.Intn(len(p)-len(m)+1):], m)
}

// Delta draws a delta time biased to small values and VLQ boundaries (<= 0x0FFFFFFF).
func Delta(r *mon.Rand) uint32 {
	switch r.Intn(10) {
	case 0:
		return DeltaBoundaries[r.Intn(len(DeltaBoundaries))]
	case 1:
		return r.U32() & 0x0FFFFFFF
	case 2:
		return uint32(r.Intn(70000))
	case 3, 4, 5:
		return 0
	default:
		return uint32(r.Intn(1000))
	}
}

// PayloadLen draws a payload length biased to VLQ boundaries.
func PayloadLen(r *mon.Rand, allowBig bool) int {
	switch r.Intn(12) {
	case 0:
		return r.Pick(0, 1, 127, 128, 129)
	case 1:
		if allowBig {
			return r.Pick(16383, 16384, 70000)
		}
		return r.Pick(200, 255, 256)
	case 2:
		return r.Intn(400)
	default:
		return r.Intn(12)
	}
}

var knownMetaFixed = map[byte]int{0x00: 2, 0x20: 1, 0x21: 1, 0x51: 3, 0x54: 5, 0x58: 4, 0x59: 2}
var knownMetaText = []byte{0x01, 0x02, 0x03, 0x04, 0x05, 0x06, 0x07, 0x08, 0x09, 0x7F}

// MagicPrefixes are byte sequences that software treats specially at the start of a text or a file.
var MagicPrefixes = [][]byte{{0xEF, 0xBB, 0xBF}, {0xFF, 0xFE}, {0xFE, 0xFF}, []byte("RIFF"), []byte("MThd"), []byte("MTrk"), {0x00}, []byte("{\\rtf"), []byte("@KMIDI KARAOKE FILE"), []byte("\\"), []byte("/"), {0x1B, '$', 'B'}}

// UnknownMetaTypes are the meta types the library has no name for.
var UnknownMetaTypes []byte

func init() {
	known := map[byte]bool{0x2F: true}
	for k := range knownMetaFixed {
		known[k] = true
	}
	for _, k := range knownMetaText {
		known[k] = true
	}
	for t := 0; t < 128; t++ {
		if !known[byte(t)] {
			UnknownMetaTypes = append(UnknownMetaTypes, byte(t))
		}
	}
}

// MetaEvent draws a spec-valid meta event (never end-of-track) in canonical message form.
func MetaEvent(r *mon.Rand, allowBig bool) []byte {
	switch r.Intn(4) {
	case 0: // fixed-length known
		types := []byte{0x00, 0x20, 0x21, 0x51, 0x54, 0x58, 0x59}
		t := types[r.Intn(len(types))]
		p := r.Bytes(knownMetaFixed[t])
		switch t {
		case 0x51:
			// the corners of the 24-bit value now and then: 0 (a legal value of the field, no tempo a player could use),
			// 1, the largest, 120 BPM
			if r.P(1, 8) {
				p = append([]byte(nil), [][]byte{{0, 0, 0}, {0, 0, 1}, {0xFF, 0xFF, 0xFF}, {0x07, 0xA1, 0x20}}[r.Intn(4)]...)
			}
		case 0x58:
			p[1] &= 7
		case 0x59:
			p[0] = byte(int8(r.Range(-7, 7)))
			p[1] &= 1
		case 0x20:
			p[0] &= 0x0F
		}
		return ref.Meta(t, p)
	case 1, 2: // text-like
		t := knownMetaText[r.Intn(len(knownMetaText))]
		p := r.Bytes(PayloadLen(r, allowBig))
		if r.P(1, 6) {
			embedMarker(r, p)
		}
		if r.P(1, 8) {
			// texts as editors and converters write them: with a byte order mark or another signature in front
			m := MagicPrefixes[r.Intn(len(MagicPrefixes))]
			if len(p) >= len(m) {
				copy(p, m)
			} else {
				p = append([]byte(nil), m...)
			}
		}
		return ref.Meta(t, p)
	default:
		t := UnknownMetaTypes[r.Intn(len(UnknownMetaTypes))]
		p := r.Bytes(PayloadLen(r, allowBig))
		if r.P(1, 6) {
			embedMarker(r, p)
		}
		return ref.Meta(t, p)
	}
}

// SysexEvent draws F0 with F7, F0 without F7, or an F7 continuation/escape packet.
func SysexEvent(r *mon.Rand, allowBig bool) []byte {
	if r.P(1, 6) {
		return append([]byte(nil), WellKnownSysex[r.Intn(len(WellKnownSysex))]...)
	}
	n := PayloadLen(r, allowBig)
	p := r.Bytes7(n)
	switch r.Intn(4) {
	case 0: // F0 packet without terminating F7 (first of a multi-packet message)
		return append([]byte{0xF0}, p...)
	case 1: // F7 continuation / escape (arbitrary bytes allowed)
		if r.Bool() {
			p = r.Bytes(n)
		}
		if r.P(1, 3) {
			// what the escape is there for: real-time and system common bytes sent as they are
			p = [][]byte{{0xF8}, {0xFA}, {0xFC}, {0xFE}, {0xFF}, {0xF8, 0xF8}, {0xFB, 0xF8, 0xFE}, {0xF3, 0x01}, {0xF6}, {0xF2, 0x00, 0x08}}[r.Intn(10)]
		}
		if r.P(1, 5) {
			embedMarker(r, p)
		}
		return append([]byte{0xF7}, p...)
	default:
		return append(append([]byte{0xF0}, p...), 0xF7)
	}
}

// ChannelEvent draws a channel message; with prev != nil it often repeats the status.
func ChannelEvent(r *mon.Rand, prev []byte) []byte {
	if prev != nil && prev[0] < 0xF0 && r.P(3, 5) {
		m := append([]byte(nil), prev...)
		for i := 1; i < len(m); i++ {
			m[i] = r.Byte() & 0x7F
		}
		return m
	}
	if r.P(1, 8) {
		m := append([]byte(nil), WellKnownChannel[r.Intn(len(WellKnownChannel))]...)
		if r.Bool() {
			m[0] = m[0]&0xF0 | r.Byte()&0x0F
		}
		return m
	}
	return LiveMsg(r, r.Intn(7), 0)
}

// Division draws a raw division word: metric 1..32767 or SMPTE.
func Division(r *mon.Rand) uint16 {
	if r.P(1, 4) {
		fps := []byte{0xE8, 0xE7, 0xE3, 0xE2}[r.Intn(4)]
		return uint16(fps)<<8 | uint16(r.Byte())
	}
	if r.P(1, 2) {
		return uint16(r.Pick(1, 2, 24, 95, 96, 127, 128, 255, 256, 480, 960, 16383, 16384, 32767))
	}
	return uint16(r.Range(1, 32767))
}

// FileOpts steers SMFFile.
type FileOpts struct {
	MaxTracks  int
	MaxEvents  int
	AllowBig   bool // payloads of 16383/16384/70000 bytes
	Aliens     bool // alien chunks before / between / after tracks
	PaddedVLQ  bool // non-minimal VLQs
	Running    bool // running status
	MetricOnly bool
}

// SMFFile draws a spec-valid file at the byte level, with encoding choices the
// library's own writer never makes.
func SMFFile(r *mon.Rand, o FileOpts) *ref.EncFile {
	f := &ref.EncFile{NTracks: -1}
	f.Format = uint16(r.Intn(3))
	nt := 1
	if f.Format != 0 {
		nt = r.Range(1, o.MaxTracks)
	}
	f.Division = Division(r)
	if o.MetricOnly {
		f.Division &= 0x7FFF
		if f.Division == 0 {
			f.Division = 96
		}
	}
	for t := 0; t < nt; t++ {
		ne := r.Intn(o.MaxEvents + 1)
		var tr []ref.EncEv
		var prev []byte
		big := 0
		for e := 0; e < ne; e++ {
			var ev ref.EncEv
			ev.Delta = Delta(r)
			allowBig := o.AllowBig && big == 0
			switch r.Intn(8) {
			case 0, 1:
				ev.Msg = MetaEvent(r, allowBig)
			case 2:
				ev.Msg = SysexEvent(r, allowBig)
			default:
				ev.Msg = ChannelEvent(r, prev)
			}
			if len(ev.Msg) > 10000 {
				big++
			}
			prev = ev.Msg
			ev.RS = o.Running && r.P(4, 5)
			if o.PaddedVLQ && r.P(1, 6) {
				ev.DeltaW = r.Range(1, 4)
			}
			if o.PaddedVLQ && r.P(1, 6) {
				ev.LenW = r.Range(1, 4)
			}
			tr = append(tr, ev)
		}
		eot := ref.EncEv{Ev: ref.Ev{Delta: Delta(r), Msg: ref.EOT}}
		if o.PaddedVLQ && r.P(1, 8) {
			eot.DeltaW = r.Range(1, 4)
		}
		tr = append(tr, eot)
		f.Tracks = append(f.Tracks, tr)
	}
	if o.Aliens && r.P(1, 2) {
		na := r.Range(1, 3)
		for a := 0; a < na; a++ {
			var al ref.Alien
			al.Before = r.Intn(nt + 1)
			copy(al.Type[:], [][]byte{[]byte("XFIH"), []byte("XFKM"), []byte("junk"), []byte("MTrX"), r.Bytes(4), []byte("mtrk"), {0, 'p', 'a', 'd'}, {0, 0, 0, 0}, []byte("LIST"), []byte("data")}[r.Intn(10)])
			if t := string(al.Type[:]); t == "MTrk" || t == "MThd" {
				al.Type[3] = 'K'
			}
			al.Data = r.Bytes(r.Pick(0, 1, 2, 3, 5, 7, 8, 13, 100, 999, 1000))
			if a > 0 && r.P(1, 2) {
				al.Before = f.Aliens[a-1].Before // directly behind the previous one
			}
			f.Aliens = append(f.Aliens, al)
		}
	}
	return f
}
