// Package gen holds the seeded generators and enumerators of the workloads.
package gen

import (
	"verif/harness/mon"
)

// LiveMsg generates one complete wire message with explicit status.
// kind: 0..6 channel kinds (8n 9n An Bn Cn Dn En), 7 F1, 8 F2, 9 F3, 10 F6, 11 sysex, 12 real-time.
func LiveMsg(r *mon.Rand, kind int, bufSize int) []byte {
	d := func() byte { return r.Byte() & 0x7F }
	switch kind {
	case 0, 1, 2, 3:
		return []byte{byte(0x80+kind*0x10) | r.Byte()&0x0F, d(), d()}
	case 4, 5:
		return []byte{byte(0x80+kind*0x10) | r.Byte()&0x0F, d()}
	case 6:
		return []byte{0xE0 | r.Byte()&0x0F, d(), d()}
	case 7:
		return []byte{0xF1, d()}
	case 8:
		return []byte{0xF2, d(), d()}
	case 9:
		return []byte{0xF3, d()}
	case 10:
		return []byte{0xF6}
	case 11:
		// total length in [2, bufSize], biased to the boundaries
		n := 2 + r.Intn(12)
		switch r.Intn(6) {
		case 0:
			n = bufSize
		case 1:
			n = bufSize - 1
		case 2:
			n = 2
		case 3: // mid-size dumps
			n = 100 + r.Intn(900)
		}
		if n > bufSize {
			n = bufSize
		}
		if n < 2 {
			n = 2
		}
		m := make([]byte, n)
		m[0] = 0xF0
		for i := 1; i < n-1; i++ {
			m[i] = d()
		}
		m[n-1] = 0xF7
		return m
	default:
		return []byte{[]byte{0xF8, 0xF9, 0xFA, 0xFB, 0xFC, 0xFD, 0xFE, 0xFF}[r.Intn(8)]}
	}
}

// LiveSequence generates n messages; consecutive channel messages often repeat
// the status so that running status applies.
func LiveSequence(r *mon.Rand, n int, bufSize int, withSysex bool) [][]byte {
	var out [][]byte
	var last []byte
	for len(out) < n {
		var m []byte
		if last != nil && last[0] < 0xF0 && r.P(1, 2) {
			// same status again (running status opportunity)
			m = append([]byte(nil), last...)
			for i := 1; i < len(m); i++ {
				m[i] = r.Byte() & 0x7F
			}
		} else if r.P(1, 8) {
			// a message from the dictionary of standard messages
			mx := 0
			if withSysex {
				mx = bufSize
			}
			m = WellKnown(r, mx)
		} else {
			k := r.Intn(13)
			if k == 11 && !withSysex {
				k = r.Intn(11)
			}
			m = LiveMsg(r, k, bufSize)
		}
		out = append(out, m)
		last = m
	}
	return out
}

// Wire is a serialised message sequence together with its ground truth.
type Wire struct {
	Bytes      []byte
	Deliveries [][]byte // expected deliveries in order (messages and interleaved real-time bytes)
	EndIdx     []int    // per delivery: index in Bytes of its completing byte
	StartIdx   []int    // per delivery: index in Bytes of its first byte
	Elisions   int      // status bytes actually omitted
	RTInside   int      // real-time bytes placed inside another message
	RTInSysex  int
}

// SerOpts selects the serialisation.
type SerOpts struct {
	RunningStatus bool   // omit the status randomly (3 of 4 times) where legal
	ElideAll      bool   // omit the status wherever legal
	UseMask       bool   // omit the status of message i where legal iff bit i of ElideMask is set
	ElideMask     uint64 //
	Realtime      bool   // insert real-time bytes at random positions
	RTAt          []int  // explicit: insert RTByte before byte index p of the stream without real-time bytes (len = after the end)
	RTByte        byte
	FirstExplicit bool // never elide the status of the first message
}

// Serialize puts the messages on the wire. A status byte of a channel message may
// be omitted iff the receiver's running status at that point equals it: the previous
// non-real-time message was a channel message with the same status (system common
// and sysex cancel running status, real-time does not touch it).
func Serialize(r *mon.Rand, msgs [][]byte, o SerOpts) *Wire {
	w := &Wire{}
	type piece struct {
		b     []byte
		msg   []byte // delivery
		start bool
	}
	// first pass: bytes without real-time insertion, remembering message boundaries
	var plain []byte
	var bounds [][2]int // start,end(inclusive) in plain
	var running byte
	for i, m := range msgs {
		b := m
		if m[0] >= 0xF8 {
			// standalone real-time message: does not touch running status
		} else if m[0] < 0xF0 {
			legal := running == m[0] && !(i == 0 && o.FirstExplicit)
			elide := false
			if legal {
				switch {
				case o.UseMask:
					elide = o.ElideMask>>uint(i)&1 == 1
				case o.ElideAll:
					elide = true
				case o.RunningStatus:
					elide = r.P(3, 4)
				}
			}
			if elide {
				b = m[1:]
				w.Elisions++
			}
			running = m[0]
		} else {
			running = 0
		}
		bounds = append(bounds, [2]int{len(plain), len(plain) + len(b) - 1})
		plain = append(plain, b...)
	}
	// real-time insertion points
	ins := map[int][]byte{}
	if o.Realtime && r != nil {
		k := r.Intn(1 + len(plain)/3 + 1)
		for j := 0; j < k; j++ {
			p := r.Intn(len(plain) + 1)
			ins[p] = append(ins[p], []byte{0xF8, 0xFA, 0xFB, 0xFC, 0xFE, 0xFF, 0xF9, 0xFD}[r.Intn(8)])
		}
	}
	for _, p := range o.RTAt {
		ins[p] = append(ins[p], o.RTByte)
	}
	// second pass: emit
	mi := 0
	for p := 0; p <= len(plain); p++ {
		for _, rt := range ins[p] {
			w.Deliveries = append(w.Deliveries, []byte{rt})
			w.StartIdx = append(w.StartIdx, len(w.Bytes))
			w.EndIdx = append(w.EndIdx, len(w.Bytes))
			// inside a message?
			if mi < len(bounds) && p > bounds[mi][0] && p <= bounds[mi][1] {
				w.RTInside++
				if msgs[mi][0] == 0xF0 {
					w.RTInSysex++
				}
			}
			w.Bytes = append(w.Bytes, rt)
		}
		if p == len(plain) {
			break
		}
		if mi < len(bounds) && p == bounds[mi][0] {
			w.StartIdx = append(w.StartIdx, len(w.Bytes))
			w.Deliveries = append(w.Deliveries, msgs[mi])
			w.EndIdx = append(w.EndIdx, -1)
		}
		w.Bytes = append(w.Bytes, plain[p])
		if mi < len(bounds) && p == bounds[mi][1] {
			// completing byte of message mi: fix its delivery position (it must come after any
			// real-time bytes inserted inside it, which were appended after its slot)
			idx := -1
			for q := len(w.Deliveries) - 1; q >= 0; q-- {
				if w.EndIdx[q] == -1 {
					idx = q
					break
				}
			}
			d, s := w.Deliveries[idx], w.StartIdx[idx]
			copy(w.Deliveries[idx:], w.Deliveries[idx+1:])
			copy(w.StartIdx[idx:], w.StartIdx[idx+1:])
			copy(w.EndIdx[idx:], w.EndIdx[idx+1:])
			last := len(w.Deliveries) - 1
			w.Deliveries[last], w.StartIdx[last], w.EndIdx[last] = d, s, len(w.Bytes)-1
			mi++
		}
	}
	return w
}
