package props

import (
	"bytes"
	"fmt"
	"time"

	"gitlab.com/gomidi/midi/v2"
	"gitlab.com/gomidi/midi/v2/drivers"
	"gitlab.com/gomidi/midi/v2/drivers/testdrv"

	"verif/harness/mon"
	"verif/harness/ref"
)

// obs is one callback observation.
type obs struct {
	msg []byte
	ts  int32
	// chunk is the index of the Send/EachMessage call during which the callback ran
	chunk int
}

// liveCfg is a listen configuration.
type liveCfg struct {
	sysex, clock, sense bool
	buf                 uint32
}

func (l liveCfg) String() string {
	return fmt.Sprintf("sysex=%v clock=%v sense=%v buf=%d", l.sysex, l.clock, l.sense, l.buf)
}

func (l liveCfg) bufSize() int {
	if l.buf == 0 {
		return 1024
	}
	return int(l.buf)
}

// livePause, when set in a worker on the virtual process clock (mon.FakeTime), makes runL1 and
// l2.run really wait livePause[i] (time.Sleep on the process clock, not the delta argument or the
// driver's Sleep) before chunk i is delivered: MIDI has no timeouts, what is decoded must not
// depend on how much wall time passes between two deliveries.
var livePause []time.Duration

// ftSpentHours is the virtual time this worker has slept so far. The faketime clock is an int64 of
// nanoseconds that starts in 2009 and overflows (the process then sleeps forever) about 250 years
// later: pauses of days are only drawn while less than 60 years are spent (a drawn pause may be
// slept several times: a check runs a stream on several levels and configurations).
var ftSpentHours float64

// drawPause draws a real pause for the virtual-clock groups.
func drawPause(r *mon.Rand) time.Duration {
	ms := int64(r.Pick(1, 20, 500, 999, 1000, 1001, 1999, 2001, 3000, 5001, 10_000, 30_001, 61_000, 600_000, 3_600_001))
	if r.P(1, 40) && ftSpentHours < 60*365*24 {
		ms = []int64{90_000_000, 1<<31 + 5, 1<<32 + 7}[r.Intn(3)]
	}
	return time.Duration(ms) * time.Millisecond
}

func pauseBefore(i int) {
	if mon.FakeTime && i < len(livePause) && livePause[i] > 0 && ftSpentHours < 200*365*24 {
		ftSpentHours += livePause[i].Hours()
		time.Sleep(livePause[i])
	}
}

// liveFrac, when set, adds liveFrac[i] (a fraction of a millisecond) to the time the driver's virtual clock is advanced
// before chunk i: real inter-arrival times are not whole milliseconds. Only relational checks (C14) use it: the
// driver truncates every interval to whole milliseconds on its own, so absolute expectations would need its rounding rule.
var liveFrac []time.Duration

func fracBefore(i int) time.Duration {
	if i < len(liveFrac) {
		return liveFrac[i]
	}
	return 0
}

// silenceMs: pauses with a meaning in MIDI practice (active sensing: a receiver may assume the connection
// lost after 300 ms of silence, senders repeat FE within 270..330 ms) and round values beyond
var silenceMs = []int{270, 299, 300, 301, 329, 330, 331, 332, 400, 500, 999, 1000, 1001, 2000, 5000, 10_000, 60_000}

// liveDelta draws the time before a delivery: mostly below max ms, every tenth from silenceMs.
func liveDelta(r *mon.Rand, max int) int32 {
	if r.P(1, 10) {
		return int32(silenceMs[r.Intn(len(silenceMs))])
	}
	return int32(r.Intn(max))
}

// runL1 feeds the chunks to a drivers.Reader and records every callback.
func runL1(cfg liveCfg, chunks [][]byte, deltas []int32, out []obs) []obs {
	out = out[:0]
	cur := 0
	rd := drivers.NewReader(drivers.ListenConfig{SysEx: cfg.sysex, SysExBufferSize: cfg.buf, TimeCode: cfg.clock, ActiveSense: cfg.sense}, func(m []byte, ts int32) {
		out = append(out, obs{append([]byte(nil), m...), ts, cur})
	})
	for i, ch := range chunks {
		cur = i
		pauseBefore(i)
		rd.EachMessage(ch, deltas[i])
	}
	return out
}

// l2 is a reusable testdrv loopback observed through midi.ListenTo.
type l2 struct {
	// preListen (virtual-clock workers only): process time that passes between creating the driver and
	// listening, so that the session's time stamps start below zero; noBase: no advance of the driver's
	// clock before the first send
	preListen time.Duration
	noBase    bool
	drv       *testdrv.Driver
	in        drivers.In
	out       drivers.Out
	got       []obs
	cur       int
	stop      func()
	// the receiver keeps what it was handed: the last 16 delivered slices and their content when the callback returned
	held     [16][]byte
	heldWant [16][]byte
	heldN    int
	changed  string
}

// errKeptChanged: returned by run when a message that the receiver kept changed after its delivery
type errKeptChanged string

func (e errKeptChanged) Error() string { return string(e) }

func newL2() *l2 {
	l := &l2{drv: testdrv.New("verif")}
	ins, _ := l.drv.Ins()
	outs, _ := l.drv.Outs()
	l.in, l.out = ins[0], outs[0]
	l.in.Open()
	l.out.Open()
	return l
}

func (l *l2) opts(cfg liveCfg) []midi.Option {
	var o []midi.Option
	if cfg.sysex {
		o = append(o, midi.UseSysEx())
	}
	if cfg.clock {
		o = append(o, midi.UseTimeCode())
	}
	if cfg.sense {
		o = append(o, midi.UseActiveSense())
	}
	if cfg.buf != 0 {
		o = append(o, midi.SysExBufferSize(cfg.buf))
	}
	return o
}

// l2Base is the advance of the virtual clock before the first send: testdrv.Listen stamps its
// reference point with the real clock while Sleep moves a virtual one, so all time stamps of a
// session carry one constant offset in (-l2Base, 0].
const l2Base = 1000 * time.Second

// run starts a fresh listening session and sends the chunks, sleeping delta ms on the
// driver's virtual clock before each.
func (l *l2) run(cfg liveCfg, chunks [][]byte, deltas []int32) ([]obs, error) {
	l.got = l.got[:0]
	l.heldN, l.changed = 0, ""
	if l.preListen > 0 && mon.FakeTime {
		time.Sleep(l.preListen)
	}
	stop, err := midi.ListenTo(l.in, func(m midi.Message, ts int32) {
		l.got = append(l.got, obs{append([]byte(nil), m...), ts, l.cur})
		// the message handed to the receiver is the receiver's: it edits it in place (a thru rule that
		// transposes before forwarding); nothing delivered later may be affected
		for k := range m {
			m[k] ^= 0x2A
		}
		for k := 0; k < len(l.held) && k < l.heldN; k++ {
			if !bytes.Equal(l.held[k], l.heldWant[k]) && l.changed == "" {
				l.changed = fmt.Sprintf("a delivered message that the receiver kept (left by the receiver as % X after its in-place edit) reads % X after a later delivery", l.heldWant[k], l.held[k])
			}
		}
		slot := l.heldN % len(l.held)
		l.held[slot], l.heldWant[slot] = m, append([]byte(nil), m...)
		l.heldN++
	}, l.opts(cfg)...)
	if err != nil {
		return nil, err
	}
	l.stop = stop
	if !l.noBase {
		l.drv.Sleep(l2Base)
	}
	for i, ch := range chunks {
		l.cur = i
		l.drv.Sleep(time.Duration(deltas[i])*time.Millisecond + fracBefore(i))
		pauseBefore(i)
		if err := l.out.Send(ch); err != nil {
			return l.got, err
		}
	}
	if l.changed != "" {
		return l.got, errKeptChanged(l.changed)
	}
	return l.got, nil
}

// normL1 strips the documented zero padding of the internal drivers.Reader callback
// contract. kind: "msg", "strayF7", or "bad:<why>".
func normL1(m []byte) (kind string, norm []byte) {
	if len(m) == 0 {
		return "bad:empty", nil
	}
	s := m[0]
	switch {
	case s < 0x80:
		return "bad:first byte is not a status", m
	case s >= 0xF8:
		if len(m) == 1 || (len(m) == 3 && m[1] == 0 && m[2] == 0) {
			return "msg", m[:1]
		}
		return "bad:real-time message with data", m
	case s == 0xF0:
		return "msg", m
	case s == 0xF7:
		if len(m) == 3 && m[1] == 0 && m[2] == 0 {
			return "strayF7", m[:1]
		}
		if len(m) == 1 {
			return "strayF7", m
		}
		return "bad:F7 with data", m
	case s == 0xF4 || s == 0xF5:
		return "bad:undefined status delivered", m
	}
	n := 1 + ref.DataLen(s)
	if len(m) == n {
		return "msg", m
	}
	if len(m) == 3 && n < 3 {
		for _, b := range m[n:] {
			if b != 0 {
				return "bad:non-zero padding", m
			}
		}
		return "msg", m[:n]
	}
	return "bad:wrong length", m
}

func obsList(l []obs) []string {
	var out []string
	for i, o := range l {
		if i >= 60 {
			out = append(out, "...")
			break
		}
		out = append(out, fmt.Sprintf("[chunk %d t=%d] %s", o.chunk, o.ts, mon.Hex(o.msg)))
	}
	return out
}

func delivList(l []ref.Delivery) []string {
	var out []string
	for i, d := range l {
		if i >= 60 {
			out = append(out, "...")
			break
		}
		k := ""
		if d.Kind == ref.EvStrayF7 {
			k = " (stray F7: nothing for the user)"
		}
		out = append(out, fmt.Sprintf("[t=%d] %s%s", d.Time, mon.Hex(d.Msg), k))
	}
	return out
}

// refRun runs the reference receiver over the chunks.
func refRun(cfg liveCfg, chunks [][]byte, deltas []int32, cover func(string)) []ref.Delivery {
	r := &ref.Receiver{BufSize: cfg.bufSize(), HandleSysex: cfg.sysex, Cover: cover}
	for i, ch := range chunks {
		r.Feed(ch, int64(deltas[i]))
	}
	return r.Out
}

// filterByOptions removes the message classes whose listen option is off (what the
// driver-level filter in front of the user callback does).
func filterByOptions(cfg liveCfg, d []ref.Delivery) []ref.Delivery {
	var out []ref.Delivery
	for _, x := range d {
		switch {
		case x.Msg[0] == 0xFE && !cfg.sense:
		case x.Msg[0] == 0xF8 && !cfg.clock:
		case (x.Msg[0] == 0xF0 || x.Msg[0] == 0xF7) && !cfg.sysex:
		default:
			out = append(out, x)
		}
	}
	return out
}

// cmpL1 compares level-1 observations with the reference deliveries (incl. the stray F7
// notifications). Returns "" if equal, else a description.
func cmpL1(got []obs, want []ref.Delivery, checkTime bool) string {
	for i := 0; i < len(got) || i < len(want); i++ {
		if i >= len(got) {
			return fmt.Sprintf("delivery %d missing: reference delivers %s", i, mon.Hex(want[i].Msg))
		}
		kind, n := normL1(got[i].msg)
		if len(kind) > 4 && kind[:4] == "bad:" {
			return fmt.Sprintf("delivery %d (%s) is malformed: %s", i, mon.Hex(got[i].msg), kind[4:])
		}
		if i >= len(want) {
			return fmt.Sprintf("extra delivery %d: %s", i, mon.Hex(got[i].msg))
		}
		wk := "msg"
		if want[i].Kind == ref.EvStrayF7 {
			wk = "strayF7"
		}
		if kind != wk || !bytes.Equal(n, want[i].Msg) {
			return fmt.Sprintf("delivery %d: library %s, reference %s", i, mon.Hex(got[i].msg), mon.Hex(want[i].Msg))
		}
		if checkTime {
			ts := int64(got[i].ts)
			if want[i].Time > 1<<31-1 || want[i].Start > 1<<31-1 {
				// the driver's clock is an int32 millisecond counter: beyond 2^31 it wraps, compare modulo 2^32
				if got[i].ts != int32(want[i].Time) && got[i].ts != int32(want[i].Start) {
					return fmt.Sprintf("delivery %d (%s): time stamp %d, completing chunk arrived at %d (mod 2^32: %d)", i, mon.Hex(n), ts, want[i].Time, int32(want[i].Time))
				}
			} else if ts < want[i].Start || ts > want[i].Time {
				return fmt.Sprintf("delivery %d (%s): time stamp %d, completing chunk arrived at %d (first byte at %d)", i, mon.Hex(n), ts, want[i].Time, want[i].Start)
			}
		}
	}
	return ""
}

// cmpL2 compares user-level (midi.ListenTo) observations with the reference messages:
// byte exact, nothing for stray F7, never an empty message.
func cmpL2(got []obs, want []ref.Delivery) string {
	var w []ref.Delivery
	for _, d := range want {
		if d.Kind == ref.EvMsg {
			w = append(w, d)
		}
	}
	for i := 0; i < len(got) || i < len(w); i++ {
		if i >= len(got) {
			return fmt.Sprintf("delivery %d missing: reference delivers %s", i, mon.Hex(w[i].Msg))
		}
		if len(got[i].msg) == 0 {
			return fmt.Sprintf("delivery %d is an empty message", i)
		}
		if !ref.WellFormed(got[i].msg) {
			return fmt.Sprintf("delivery %d (%s) is not a well-formed message", i, mon.Hex(got[i].msg))
		}
		if i >= len(w) {
			return fmt.Sprintf("extra delivery %d: %s", i, mon.Hex(got[i].msg))
		}
		if !bytes.Equal(got[i].msg, w[i].Msg) {
			return fmt.Sprintf("delivery %d: library %s, reference %s", i, mon.Hex(got[i].msg), mon.Hex(w[i].Msg))
		}
	}
	return ""
}

func ones(n int) []int32 {
	d := make([]int32, n)
	for i := range d {
		d[i] = 1
	}
	return d
}

func splitBytes(b []byte) [][]byte {
	out := make([][]byte, len(b))
	for i := range b {
		out[i] = b[i : i+1]
	}
	return out
}
