package props

import (
	"bytes"
	"fmt"
	"time"

	"gitlab.com/gomidi/midi/v2"
	"gitlab.com/gomidi/midi/v2/drivers"

	"verif/harness/gen"
	"verif/harness/mon"
)

func init() {
	mon.Register(&mon.Spec{
		ID:    "C14",
		Level: "exploration",
		Rule: "relational monitor: the same well-formed stream (C04 domain: all ordered pairs of 16 message kinds as a fixed core + seeded random sequences with running status and interleaved real-time bytes) in the same chunking is played to 8 listening sessions, " +
			"one per combination of the active-sense / timing-clock / sysex options, at the driver level (testdrv In.Listen) and at the midi.ListenTo level; each session must equal the all-options session minus the disabled classes in content, order and time stamp. " +
			"distinct = distinct (stream, chunking) by content hash; non-trivial = the stream contains at least one message of a filterable class",
		Assumptions: []string{
			"message class by first byte: FE active sensing, F8 timing clock, F0 sysex",
			"time stamps of two testdrv sessions may differ by one constant (the driver mixes the real and its virtual clock when a session starts); the monitor requires the difference to be the same for every retained message and below 60 s",
			"domain is the well-formed C04 domain, as the quantifier says",
		},
		Require:         []string{"sessions_through_clock_zero", "sessions_with_fractional_intervals", "sessions_beyond_2^31_ms", "sessions_l1", "sessions_l2", "filtered:sense", "filtered:clock", "filtered:sysex", "retained_messages_compared", "cases_with_all_option_sets_on_one_port_pair", "standard_sysex_messages_under_all_option_sets"},
		FakeTimeWorkers: 1,
		Run:             runC14,
	})
}

// c14PreListen > 0 (virtual-clock workers): every session starts with a driver that is that much older
// than the listener and without advancing the driver's clock first: the time stamps run from
// -c14PreListen upwards through -1, 0, 1.
var c14PreListen time.Duration

func c14Session(level int, cfg liveCfg, chunks [][]byte, deltas []int32) ([]obs, error) {
	l := newL2()
	if c14PreListen > 0 {
		l.preListen, l.noBase = c14PreListen, true
	}
	if level == 2 {
		return l.run(cfg, chunks, deltas)
	}
	return c14L1On(l, cfg, chunks, deltas)
}

// c14L1On runs one driver-level listening session on the given port pair and ends it (stop function): the pair can be
// used for the next session.
func c14L1On(l *l2, cfg liveCfg, chunks [][]byte, deltas []int32) ([]obs, error) {
	if l.preListen > 0 && mon.FakeTime {
		time.Sleep(l.preListen)
	}
	var got []obs
	cur := 0
	stop, err := l.in.Listen(func(m []byte, ts int32) {
		got = append(got, obs{append([]byte(nil), m...), ts, cur})
	}, drivers.ListenConfig{SysEx: cfg.sysex, TimeCode: cfg.clock, ActiveSense: cfg.sense, SysExBufferSize: cfg.buf})
	if err != nil {
		return nil, err
	}
	if !l.noBase {
		l.drv.Sleep(l2Base)
	}
	for i, ch := range chunks {
		cur = i
		l.drv.Sleep(time.Duration(deltas[i])*time.Millisecond + fracBefore(i))
		if err := l.out.Send(ch); err != nil {
			return got, err
		}
	}
	stop()
	return got, nil
}

// c14SamePort: the option sets of a case are not tried on a fresh driver each but by eight listeners one after the other
// on the same port pair (a program that changes its listen options while it runs); what a listener gets must not
// depend on what its predecessors had asked for.
var c14SamePort bool

func c14Check(c *mon.Ctx, stream []byte, chunks [][]byte, deltas []int32, buf uint32) {
	in := map[string]any{"stream": mon.Hex(stream), "chunks": len(chunks), "deltas_ms": deltas, "sysex_buffer": buf}
	for level := 1; level <= 2; level++ {
		all := liveCfg{true, true, true, buf}
		var A []obs
		var err error
		if c.Guard("panic:session", in, func() { A, err = c14Session(level, all, chunks, deltas) }) || err != nil {
			if err != nil {
				c.Violation("session-error", err.Error(), in, nil, nil)
			}
			return
		}
		c.Count(fmt.Sprintf("sessions_l%d", level), 1)
		var shared *l2
		if c14SamePort && level == 1 && c14PreListen == 0 {
			shared = newL2()
			c.Count("cases_with_all_option_sets_on_one_port_pair", 1)
		}
		for mask := 0; mask < 7; mask++ { // the 7 proper subsets of options
			cfg := liveCfg{mask&1 != 0, mask&2 != 0, mask&4 != 0, buf}
			var S []obs
			if c.Guard("panic:session", in, func() {
				if shared != nil {
					S, err = c14L1On(shared, cfg, chunks, deltas)
				} else {
					S, err = c14Session(level, cfg, chunks, deltas)
				}
			}) || err != nil {
				return
			}
			c.Count(fmt.Sprintf("sessions_l%d", level), 1)
			// expected: A minus disabled classes
			var want []obs
			for _, o := range A {
				switch {
				case o.msg[0] == 0xFE && !cfg.sense:
					c.Count("filtered:sense", 1)
				case o.msg[0] == 0xF8 && !cfg.clock:
					c.Count("filtered:clock", 1)
				case (o.msg[0] == 0xF0 || o.msg[0] == 0xF7) && !cfg.sysex:
					c.Count("filtered:sysex", 1)
				default:
					want = append(want, o)
				}
			}
			detail := map[string]any{"level": level, "options": cfg.String(), "stream": mon.Hex(stream), "chunks": len(chunks)}
			if len(S) != len(want) {
				c.Violation(fmt.Sprintf("l%d-filter-count", level), fmt.Sprintf("with %s the listener got %d messages; the all-options session minus the disabled classes has %d", cfg, len(S), len(want)), detail, obsList(want), obsList(S))
				continue
			}
			var off int64
			for i := range S {
				if !bytes.Equal(S[i].msg, want[i].msg) {
					c.Violation(fmt.Sprintf("l%d-filter-content", level), fmt.Sprintf("with %s message %d is %s, all-options session has %s there", cfg, i, mon.Hex(S[i].msg), mon.Hex(want[i].msg)), detail, obsList(want), obsList(S))
					break
				}
				d := int64(S[i].ts) - int64(want[i].ts)
				if i == 0 {
					off = d
				}
				if d != off || d > 60000 || d < -60000 || S[i].chunk != want[i].chunk {
					c.Violation(fmt.Sprintf("l%d-filter-timestamp", level), fmt.Sprintf("with %s message %d (%s) has time stamp %d (call %d), all-options session %d (call %d); session offset %d", cfg, i, mon.Hex(S[i].msg), S[i].ts, S[i].chunk, want[i].ts, want[i].chunk, off), detail, obsList(want), obsList(S))
					break
				}
				c.Count("retained_messages_compared", 1)
			}
		}
	}
	c.Eval(15)
}

func runC14(c *mon.Ctx) {
	// sessions whose time stamps pass through zero one millisecond at a time (virtual process clock: the
	// driver is created exactly 25..60 ms before the listener): special time stamp values such as -1 and 0
	// are reached by messages of every class
	c.EachFT("around-clock-zero", c.N(400, 30_000), func(i int64, r *mon.Rand) {
		c14PreListen = time.Duration(r.Range(25, 60)) * time.Millisecond
		defer func() { c14PreListen = 0 }()
		lc := liveCfg{true, true, true, uint32(r.Pick(0, 16))}
		msgs := gen.LiveSequence(r, r.Range(20, 45), lc.bufSize(), true)
		for k := range msgs { // plenty of filterable messages
			if r.P(1, 3) {
				msgs[k] = [][]byte{{0xF8}, {0xFE}, {0xF0, 0x7D, byte(k & 127), 0xF7}, gen.WellKnownSysex[(k+int(i))%len(gen.WellKnownSysex)]}[r.Intn(4)]
			}
		}
		w := gen.Serialize(r, msgs, gen.SerOpts{RunningStatus: true, Realtime: r.P(1, 2)})
		// one message per call where possible, 1 ms apart (sometimes 0 or 2)
		var chunks [][]byte
		var deltas []int32
		last := 0
		for k := range w.EndIdx {
			if end := w.EndIdx[k] + 1; end > last {
				chunks = append(chunks, w.Bytes[last:end])
				deltas = append(deltas, int32(r.Pick(1, 1, 1, 1, 0, 2, 3)))
				last = end
			}
		}
		if last < len(w.Bytes) {
			chunks = append(chunks, w.Bytes[last:])
			deltas = append(deltas, 1)
		}
		c14Check(c, w.Bytes, chunks, deltas, lc.buf)
		c.Count("sessions_through_clock_zero", 1)
		c.DistinctBytes(w.Bytes, []byte(fmt.Sprint(deltas, c14PreListen)))
	})

	nk := len(c04Kinds)
	// core: all ordered pairs of the 16 kinds (contain F8, FE and two sysex shapes), whole and byte-wise
	c.Each("pairs", int64(nk*nk), func(i int64, _ *mon.Rand) {
		msgs := [][]byte{c04Kinds[int(i)/nk], c04Kinds[int(i)%nk], {0xFE}, {0xF8}, {0xF0, 0x7D, 0xF7}, {0x90, 0x40, 0x40}}
		w := gen.Serialize(nil, msgs, gen.SerOpts{ElideAll: true})
		c14Check(c, w.Bytes, [][]byte{w.Bytes}, []int32{5}, 8)
		c14Check(c, w.Bytes, splitBytes(w.Bytes), ones(len(w.Bytes)), 8)
		// and with the eight listeners one after the other on one port pair
		c14SamePort = true
		c14Check(c, w.Bytes, [][]byte{w.Bytes}, []int32{5}, 8)
		c14SamePort = false
		c.DistinctBytes(w.Bytes)
	})
	c.MarkExhaustive("all ordered pairs of the 16 message kinds followed by FE, F8, a sysex and a note: 8 option sets x 2 levels x 2 chunkings")
	// the standard sysex messages (MIDI time code full frame, MMC, GM on, identity, ...): a sysex is a sysex for the
	// filters, whatever it means
	c.Each("standard-sysex", int64(len(gen.WellKnownSysex)), func(i int64, _ *mon.Rand) {
		sx := gen.WellKnownSysex[i]
		if len(sx) > 200 {
			return
		}
		msgs := [][]byte{{0x90, 0x40, 0x40}, sx, {0xF8}, {0xFE}, sx, {0x80, 0x40, 0x00}}
		w := gen.Serialize(nil, msgs, gen.SerOpts{})
		c14Check(c, w.Bytes, [][]byte{w.Bytes}, []int32{5}, 0)
		c14Check(c, w.Bytes, splitBytes(w.Bytes), ones(len(w.Bytes)), 0)
		c.Count("standard_sysex_messages_under_all_option_sets", 1)
		c.DistinctBytes(w.Bytes)
	})
	// one chunk that starts with a sysex and ends with another sysex, other messages in between
	c.Each("sandwich", c.N(300, 20_000), func(i int64, r *mon.Rand) {
		mk := func(n int) []byte {
			sx := make([]byte, n)
			sx[0] = 0xF0
			for j := 1; j < n-1; j++ {
				sx[j] = byte(j*3+n) & 0x7F
			}
			sx[n-1] = 0xF7
			return sx
		}
		a, b := r.Range(2, 600), r.Range(2, 600)
		if i%2 == 0 {
			a, b = r.Pick(256, 300, 400, 500), r.Pick(256, 300, 400, 511)
		}
		msgs := [][]byte{mk(a), {0x80, 0x3C, 0x00}, {0xF8}, {0xFE}, gen.LiveMsg(r, r.Intn(7), 1024), mk(b)}
		w := gen.Serialize(nil, msgs, gen.SerOpts{})
		c14Check(c, w.Bytes, [][]byte{w.Bytes}, []int32{7}, uint32(r.Pick(0, 0, 2048)))
		c.DistinctBytes(w.Bytes)
	})

	// inter-arrival times that are not whole milliseconds (a MIDI clock at 120 bpm ticks every 20.833 ms, a byte
	// takes 0.32 ms on the wire), lone real-time bytes between the other messages: the time stamps of the messages
	// that remain must not depend on whether the filtered ones were delivered
	c.Each("sub-millisecond", c.N(1500, 60_000), func(i int64, r *mon.Rand) {
		buf := uint32(r.Pick(0, 16, 64))
		lc := liveCfg{buf: buf}
		msgs := gen.LiveSequence(r, r.Range(3, 25), lc.bufSize(), true)
		var seq [][]byte
		for _, m := range msgs {
			for n := r.Pick(0, 1, 1, 2, 3); n > 0; n-- {
				seq = append(seq, [][]byte{{0xF8}, {0xFE}, {0xF8}, {0xF0, 0x7D, byte(n), 0xF7}}[r.Intn(4)])
			}
			seq = append(seq, m)
		}
		w := gen.Serialize(r, seq, gen.SerOpts{RunningStatus: true})
		// one message per call
		var chunks [][]byte
		var deltas []int32
		var frac []time.Duration
		last := 0
		tick := time.Duration(r.Pick(20833, 10416, 1600, 500, 999, 333, 250)) * time.Microsecond
		for k := range w.EndIdx {
			if end := w.EndIdx[k] + 1; end > last {
				chunks = append(chunks, w.Bytes[last:end])
				d := tick
				if r.P(1, 3) {
					d = time.Duration(r.Intn(3000)) * time.Microsecond
				}
				deltas = append(deltas, int32(d/time.Millisecond))
				frac = append(frac, d%time.Millisecond)
				last = end
			}
		}
		if last < len(w.Bytes) {
			chunks = append(chunks, w.Bytes[last:])
			deltas = append(deltas, 1)
			frac = append(frac, 0)
		}
		liveFrac = frac
		defer func() { liveFrac = nil }()
		c14Check(c, w.Bytes, chunks, deltas, buf)
		c.Count("sessions_with_fractional_intervals", 1)
		c.DistinctBytes(w.Bytes, []byte(fmt.Sprint(deltas, frac)))
	})

	// long sessions: the accumulated time on the driver's clock passes 2^31 ms (24.8 days) and 2^32 ms, with a message of a
	// filterable class being the first after the overflow; the time stamps of the remaining messages are those of the
	// all-options session (whatever they are after the 32-bit wrap)
	c.Each("long-sessions", c.N(24, 600), func(i int64, r *mon.Rand) {
		buf := uint32(r.Pick(0, 64))
		var chunks [][]byte
		var deltas []int32
		days := r.Pick(26, 30, 52)
		for d := 0; d < days; d++ {
			// once a day: one of the filterable classes first, then a note
			first := [][]byte{{0xF8}, {0xFE}, {0xF0, 0x7D, byte(d), 0xF7}, {0x90, byte(d), 1}}[(int(i)+d)%4]
			chunks = append(chunks, first, []byte{0x90, byte(d), 100}, []byte{0x80, byte(d), 0})
			deltas = append(deltas, int32(24*3600*1000-7), 3, 4)
		}
		var stream []byte
		for _, ch := range chunks {
			stream = append(stream, ch...)
		}
		c14Check(c, stream, chunks, deltas, buf)
		c.Count("sessions_beyond_2^31_ms", 1)
		c.DistinctBytes(stream, []byte(fmt.Sprint("long", i, days)))
	})

	c.Each("random", c.N(10_000, 1_500_000), func(i int64, r *mon.Rand) {
		buf := uint32(r.Pick(0, 16, 64))
		lc := liveCfg{buf: buf}
		msgs := gen.LiveSequence(r, r.Range(2, 30), lc.bufSize(), true)
		// make sure the filterable classes are present
		for _, extra := range [][]byte{{0xFE}, {0xF8}, {0xF0, 0x01, 0xF7}} {
			if r.P(1, 2) {
				p := r.Intn(len(msgs) + 1)
				msgs = append(msgs[:p], append([][]byte{extra}, msgs[p:]...)...)
			}
		}
		w := gen.Serialize(r, msgs, gen.SerOpts{RunningStatus: true, Realtime: r.P(1, 2)})
		parts := r.Partition(len(w.Bytes), r.Pick(1, 5, 1000))
		chunks := make([][]byte, len(parts))
		deltas := make([]int32, len(parts))
		off := 0
		for j, p := range parts {
			chunks[j] = w.Bytes[off : off+p]
			off += p
			deltas[j] = liveDelta(r, 100)
		}
		c14Check(c, w.Bytes, chunks, deltas, buf)
		has := false
		for _, b := range w.Bytes {
			if b == 0xFE || b == 0xF8 || b == 0xF0 {
				has = true
			}
		}
		if has {
			c.DistinctBytes(w.Bytes, []byte(fmt.Sprint(parts)))
		}
		if i < 1 {
			c.Sample("stream", map[string]any{"wire": mon.Hex(head(w.Bytes, 60)), "chunks": len(chunks)})
		}
	})
	_ = midi.ActiveSenseMsg
}
