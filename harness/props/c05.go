package props

import (
	"bufio"
	"bytes"
	"encoding/binary"
	"fmt"
	"io"
	"runtime"
	"runtime/debug"
	"sync"

	"gitlab.com/gomidi/midi/v2/smf"

	"verif/harness/gen"
	"verif/harness/mon"
	"verif/harness/ref"
)

func init() {
	mon.Register(&mon.Spec{
		ID:    "C05",
		Level: "fault_enumeration",
		Rule: "crash points: every proper prefix (every byte offset) of seeded spec-valid files, each read and compared with the file's ground truth (error, or tracks that are event-for-event prefixes); " +
			"plus grammar-mutated files (bit flips, byte insert/delete/replace, length and VLQ tampering up to 2^32-1, chunk splicing, ntrks tampering), random strings (half with a valid header) and a fixed targeted list. " +
			"The source kind rotates (bytes.Reader; sources that offer nothing but Read: plain wrapper, small bufio, io.MultiReader). Every read runs under recover() with the allocation of the call measured (runtime.MemStats.TotalAlloc in a single-goroutine worker process). distinct = distinct input byte strings (content hash); non-trivial = input of at least 14 bytes starting with a valid header chunk, or any truncation of a valid file",
		Assumptions: []string{
			"allocation bound: 1 MiB + 256 B x declared track count + 2048 B x input length (calibration: densest valid input costs 267 B per input byte, a header declaring 65535 tracks costs 8 MB; a 31-byte file declaring a 0x0FFFFFFF-byte text cost 537 MB before the repair)",
			"termination is observed by the per-run watchdog (a hang makes the run inconclusive, with the case id in the worker's current-case file)",
			"the prefix relation is event-for-event on (delta, canonical message bytes); a missing end-of-track at the end of the last track is a legitimate prefix",
		},
		Require:     []string{"many_chunks_small_stack_reads", "shape_additivity_checks", "reads_after_failed_read", "sequence_failed_reads", "truncations", "truncation_results_ok_value", "truncation_results_error", "mutants", "random_strings", "targeted", "alloc_measurements", "reads_with_log", "big_payload_truncations", "proportionality_checks", "concurrent_truncation_files", "reads_from_sources_without_len_or_seek", "kept_truncation_results_rechecked", "proportionality_checks_event_counts"},
		UsesCur:     true,
		Int32Worker: true,
		Run:         runC05,
	})
}

type nullLogger struct{ n int }

func (l *nullLogger) Printf(format string, vals ...interface{}) {
	l.n++
	_ = fmt.Sprintf(format, vals...)
}

type c05Run struct {
	c    *mon.Ctx
	ms   runtime.MemStats
	n    int
	kind int // > 0: force this source kind for the next reads
	// accepted truncation results of the previous file, rechecked after the reads of the next one
	prevKept     []c05Kept
	prevTruth    *ref.File
	prevDeclared int
	prevLen      int
	prevHex      string
}

// c05Kept is an accepted result of reading a truncated file, kept by the caller
type c05Kept struct {
	s   *smf.SMF
	cut int
}

// opaqueReader hides everything but Read (no Len, Size, Seek, ReadAt, WriteTo): the library cannot ask the source how
// much is left, as with a pipe, a socket, a decompressor or an HTTP body
type opaqueReader struct{ r io.Reader }

func (o opaqueReader) Read(p []byte) (int, error) { return o.r.Read(p) }

const c05Kinds = 4

// source wraps the input in one of several kinds of io.Reader; what is read must not depend on it and the
// allocation bound holds for every kind
func (k *c05Run) source(b []byte) io.Reader {
	kind := k.kind
	if kind == 0 {
		k.n++
		kind = 1 + k.n%c05Kinds
	}
	switch kind {
	case 2:
		k.c.Count("reads_from_sources_without_len_or_seek", 1)
		return opaqueReader{bytes.NewReader(b)}
	case 3:
		k.c.Count("reads_from_sources_without_len_or_seek", 1)
		return bufio.NewReaderSize(opaqueReader{bytes.NewReader(b)}, 64)
	case 4:
		k.c.Count("reads_from_sources_without_len_or_seek", 1)
		h := len(b) / 2
		return io.MultiReader(bytes.NewReader(b[:h]), opaqueReader{bytes.NewReader(b[h:])})
	}
	return bytes.NewReader(b)
}

// read runs smf.ReadFrom on b under recover() and measures its allocation.
func (k *c05Run) read(b []byte, class string, in any, measure bool) (s *smf.SMF, err error, panicked bool) {
	c := k.c
	var before uint64
	if measure {
		runtime.ReadMemStats(&k.ms)
		before = k.ms.TotalAlloc
	}
	src := k.source(b)
	panicked = c.Guard("panic:"+class, in, func() { s, err = smf.ReadFrom(src) })
	if measure {
		runtime.ReadMemStats(&k.ms)
		alloc := k.ms.TotalAlloc - before
		c.Count("alloc_measurements", 1)
		ntrks := 0
		if len(b) >= 14 && string(b[0:4]) == "MThd" {
			ntrks = int(binary.BigEndian.Uint16(b[10:12]))
		}
		bound := uint64(1<<20 + 256*ntrks + 2048*len(b))
		c.MaxOf("max_alloc_over_bound_ratio", float64(alloc)/float64(bound))
		if alloc > bound {
			c.Violation("alloc:"+class, fmt.Sprintf("reading %d bytes allocated %d bytes (bound %d): allocation driven by a declared length the data does not back", len(b), alloc, bound), in, bound, alloc)
		}
	}
	if !panicked && err == nil && s == nil {
		c.Violation("neither:"+class, "ReadFrom returned neither an error nor a value", in, nil, nil)
	}
	return
}

// prefixOK checks the prefix relation of a non-error result against the ground truth.
func prefixOK(truth, got *ref.File, declared int) string {
	if len(got.Tracks) != declared {
		return fmt.Sprintf("result has %d tracks, the header declares %d", len(got.Tracks), declared)
	}
	for ti, g := range got.Tracks {
		var w []ref.Ev
		if ti < len(truth.Tracks) {
			w = truth.Tracks[ti]
		}
		if len(g) > len(w) {
			return fmt.Sprintf("track %d has %d events, the original track has %d", ti, len(g), len(w))
		}
		for i := range g {
			if g[i].Delta != w[i].Delta || !bytes.Equal(g[i].Msg, w[i].Msg) {
				return fmt.Sprintf("track %d event %d is (delta %d, % X), the original is (delta %d, % X)", ti, i, g[i].Delta, head(g[i].Msg, 24), w[i].Delta, head(w[i].Msg, 24))
			}
		}
	}
	return ""
}

func mutate(r *mon.Rand, b []byte) []byte {
	b = append([]byte(nil), b...)
	n := 1 + r.Intn(3)
	for k := 0; k < n && len(b) > 0; k++ {
		p := r.Intn(len(b))
		switch r.Intn(11) {
		case 0:
			b[p] ^= 1 << uint(r.Intn(8))
		case 1:
			b[p] = []byte{0x00, 0x7F, 0x80, 0xFF, 0xF0, 0xF7, 0x2F, 0x51}[r.Intn(8)]
		case 2:
			b[p] = r.Byte()
		case 3: // insert
			b = append(b[:p], append([]byte{r.Byte()}, b[p:]...)...)
		case 4: // delete
			b = append(b[:p], b[p+1:]...)
		case 5: // huge 4-byte field
			if p+4 <= len(b) {
				copy(b[p:], [][]byte{{0xFF, 0xFF, 0xFF, 0xFF}, {0xFF, 0xFF, 0xFF, 0x7F}, {0x7F, 0xFF, 0xFF, 0xFF}, {0x80, 0x00, 0x00, 0x00}, {0x00, 0xFF, 0xFF, 0xFF}}[r.Intn(5)])
			}
		case 6: // ntrks tampering
			if len(b) >= 12 {
				v := []uint16{0, 1, 2, 3, binary.BigEndian.Uint16(b[10:12]) + 1, binary.BigEndian.Uint16(b[10:12]) - 1}[r.Intn(6)]
				if r.P(1, 400) { // rare: each such input legitimately costs megabytes (pre-created track slice)
					v = []uint16{65535, 32768, 32767}[r.Intn(3)]
				}
				binary.BigEndian.PutUint16(b[10:12], v)
			}
		case 7: // chunk splicing: duplicate a slice of the file
			q := r.Intn(len(b))
			if q < p {
				p, q = q, p
			}
			b = append(b[:q], append(append([]byte(nil), b[p:q]...), b[q:]...)...)
		case 8: // truncate
			b = b[:p]
		case 9: // division / format tampering
			if len(b) >= 14 {
				b[8+r.Intn(6)] = r.Byte()
			}
		default: // long VLQ
			b = append(b[:p], append([]byte{0xFF, 0xFF, 0xFF, 0xFF, 0x7F}[r.Intn(3):], b[p:]...)...)
		}
	}
	return b
}

func hdr(format, ntrks, div uint16) []byte {
	b := []byte{'M', 'T', 'h', 'd', 0, 0, 0, 6, 0, 0, 0, 0, 0, 0}
	binary.BigEndian.PutUint16(b[8:], format)
	binary.BigEndian.PutUint16(b[10:], ntrks)
	binary.BigEndian.PutUint16(b[12:], div)
	return b
}

func trk(body ...byte) []byte {
	b := []byte{'M', 'T', 'r', 'k', 0, 0, 0, 0}
	binary.BigEndian.PutUint32(b[4:], uint32(len(body)))
	return append(b, body...)
}

func cat(parts ...[]byte) []byte {
	var out []byte
	for _, p := range parts {
		out = append(out, p...)
	}
	return out
}

// c05Targeted is the fixed list of hostile inputs (minimal reproducers of every defect found).
func c05Targeted() (out []struct {
	label string
	b     []byte
}) {
	add := func(l string, b []byte) {
		out = append(out, struct {
			label string
			b     []byte
		}{l, b})
	}
	add("empty", nil)
	add("header only", hdr(1, 1, 96))
	add("ntrks=0 followed by a track", cat(hdr(1, 0, 96), trk(0, 0x90, 1, 1, 0, 0xFF, 0x2F, 0)))
	add("ntrks=0 no track", hdr(1, 0, 96))
	add("data byte without running status", cat(hdr(0, 1, 96), trk(0, 0x40, 0x40, 0, 0xFF, 0x2F, 0)))
	for _, st := range []byte{0xF1, 0xF2, 0xF3, 0xF4, 0xF5, 0xF6, 0xF8, 0xF9, 0xFA, 0xFB, 0xFC, 0xFD, 0xFE} {
		add(fmt.Sprintf("status %02X as event status", st), cat(hdr(0, 1, 96), trk(0, st, 0x01, 0x02, 0, 0xFF, 0x2F, 0)))
		add(fmt.Sprintf("status %02X after a note", st), cat(hdr(0, 1, 96), trk(0, 0x90, 1, 1, 0, st, 0x01, 0, 0xFF, 0x2F, 0)))
	}
	// the containers a MIDI file travels in (RIFF / RMID, a MacBinary-like lead-in): whatever a reader makes of them, a
	// chunk size that promises more than there is must not be believed
	smfBody := cat(hdr(0, 1, 96), trk(0, 0x90, 1, 1, 0, 0xFF, 0x2F, 0))
	le := func(n uint32) []byte { return []byte{byte(n), byte(n >> 8), byte(n >> 16), byte(n >> 24)} }
	for _, sz := range []uint32{0, 22, 0x04000000, 0x7FFFFFF0, 0xFFFFFFF0} {
		add(fmt.Sprintf("RIFF RMID container, LIST chunk declaring %d bytes", sz), cat([]byte("RIFF"), le(uint32(len(smfBody))+32), []byte("RMID"), []byte("LIST"), le(sz), []byte("INFO"), []byte("data"), le(uint32(len(smfBody))), smfBody))
		add(fmt.Sprintf("RIFF RMID container, data chunk declaring %d bytes", sz), cat([]byte("RIFF"), le(sz), []byte("RMID"), []byte("data"), le(sz), smfBody))
		add(fmt.Sprintf("RIFF RMID container cut behind a chunk header declaring %d bytes", sz), cat([]byte("RIFF"), le(0x00FFFFFF), []byte("RMID"), []byte("DISP"), le(sz)))
	}
	add("SMPTE header", cat(hdr(1, 1, 0xE728), trk(0, 0x90, 1, 1, 0, 0xFF, 0x51, 3, 7, 0xA1, 0x20, 0, 0xFF, 0x2F, 0)))
	for _, l := range [][]byte{{0xFF, 0xFF, 0xFF, 0x7F}, {0x8F, 0xFF, 0xFF, 0xFF, 0x7F}, {0xFF, 0xFF, 0x7F}, {0x81, 0x80, 0x80, 0x00}} {
		add(fmt.Sprintf("meta text declaring length VLQ % X", l), cat(hdr(0, 1, 96), trk(cat([]byte{0, 0xFF, 0x01}, l, []byte("abc"))...)))
		add(fmt.Sprintf("sysex declaring length VLQ % X", l), cat(hdr(0, 1, 96), trk(cat([]byte{0, 0xF0}, l, []byte{1, 2, 0xF7})...)))
		add(fmt.Sprintf("F7 packet declaring length VLQ % X", l), cat(hdr(0, 1, 96), trk(cat([]byte{0, 0xF7}, l, []byte{1, 2})...)))
	}
	for _, cl := range []uint32{0xFFFFFFFF, 0x7FFFFFFF, 0x0FFFFFFF, 0x80000000} {
		a := []byte{'X', 'X', 'X', 'X', 0, 0, 0, 0, 1, 2, 3}
		binary.BigEndian.PutUint32(a[4:], cl)
		add(fmt.Sprintf("alien chunk declaring %d bytes", cl), cat(hdr(1, 1, 96), a))
		t := []byte{'M', 'T', 'r', 'k', 0, 0, 0, 0, 0, 0x90, 1, 1, 0, 0xFF, 0x2F, 0}
		binary.BigEndian.PutUint32(t[4:], cl)
		add(fmt.Sprintf("track chunk declaring %d bytes", cl), cat(hdr(1, 1, 96), t))
	}
	add("delta VLQ of 6 bytes", cat(hdr(0, 1, 96), trk(0xFF, 0xFF, 0xFF, 0xFF, 0xFF, 0x7F, 0x90, 1, 1, 0, 0xFF, 0x2F, 0)))
	add("endless VLQ", cat(hdr(0, 1, 96), trk(bytes.Repeat([]byte{0x80}, 300)...)))
	add("truncated inside a note", cat(hdr(0, 1, 96), trk(0, 0x90, 1, 1, 0, 0x90, 5)[:8+5]))
	add("note missing its second data byte", cat(hdr(0, 1, 96), []byte{'M', 'T', 'r', 'k', 0, 0, 0, 9, 0, 0x90, 1, 1, 0, 0x90, 5}))
	add("meta payload cut short", cat(hdr(0, 1, 96), []byte{'M', 'T', 'r', 'k', 0, 0, 0, 20, 0, 0xFF, 0x01, 10, 'a', 'b', 'c'}))
	add("unsupported format 3", cat(hdr(3, 1, 96), trk(0, 0xFF, 0x2F, 0)))
	add("wrong magic", []byte("RIFF\x00\x00\x00\x06\x00\x00\x00\x01\x00\x60"))
	add("header length 4G", cat([]byte{'M', 'T', 'h', 'd', 0xFF, 0xFF, 0xFF, 0xFF, 0, 0, 0, 1, 0, 96}, trk(0, 0xFF, 0x2F, 0)))
	var many []byte
	many = append(many, hdr(1, 32769, 96)...)
	for i := 0; i < 32769; i++ {
		many = append(many, trk(0, 0xFF, 0x2F, 0)...)
	}
	add("32769 tiny tracks", many)
	add("65535 declared tracks, none present", hdr(1, 65535, 96))
	add("more tracks than declared", cat(hdr(1, 1, 96), trk(0, 0xFF, 0x2F, 0), trk(0, 0x90, 1, 1, 0, 0xFF, 0x2F, 0)))
	add("events after end of track", cat(hdr(1, 2, 96), trk(0, 0xFF, 0x2F, 0, 0, 0x90, 1, 1), trk(0, 0xFF, 0x2F, 0)))
	add("tempo meta of length 0", cat(hdr(1, 1, 96), trk(0, 0xFF, 0x51, 0, 5, 0x90, 1, 1, 0, 0xFF, 0x2F, 0)))
	add("tempo meta of length 1", cat(hdr(1, 1, 96), trk(0, 0xFF, 0x51, 1, 9, 5, 0x90, 1, 1, 0, 0xFF, 0x2F, 0)))
	add("tempo zero", cat(hdr(1, 1, 96), trk(0, 0xFF, 0x51, 3, 0, 0, 0, 5, 0x90, 1, 1, 0, 0xFF, 0x51, 3, 0, 0, 1, 9, 0x80, 1, 1, 0, 0xFF, 0x2F, 0)))
	return
}

func runC05(c *mon.Ctx) {
	k := &c05Run{c: c}

	// ---- every truncation offset of valid files
	c.Each("truncations", c.N(2000, 40_000), func(i int64, r *mon.Rand) {
		f := gen.SMFFile(r, gen.FileOpts{MaxTracks: 4, MaxEvents: 14, AllowBig: false, Aliens: i%3 == 0, PaddedVLQ: true, Running: true})
		b := f.Bytes(nil)
		truth := f.Truth()
		declared := len(f.Tracks)
		c.CurPayload(b)
		var keptVals []c05Kept
		for cut := 0; cut < len(b); cut++ {
			p := b[:cut]
			in := map[string]any{"file": mon.Hex(b), "truncated_at": cut, "of": len(b)}
			s, err, panicked := k.read(p, "truncation", in, cut%8 == 0)
			c.Count("truncations", 1)
			c.Eval(1)
			if panicked {
				continue
			}
			if err != nil {
				c.Count("truncation_results_error", 1)
				continue
			}
			if s == nil {
				continue
			}
			c.Count("truncation_results_ok_value", 1)
			if d := prefixOK(truth, fromLib(s), declared); d != "" {
				c.Violation("truncation-fabricates", fmt.Sprintf("file of %d bytes truncated at %d reads without error but %s", len(b), cut, d), in, describeFile(truth, 20), describeFile(fromLib(s), 20))
				continue
			}
			keptVals = append(keptVals, c05Kept{s, cut})
		}
		// the caller keeps what was read (a salvage tool that collects what is left of damaged files): every value
		// accepted for the PREVIOUS file is still an event-for-event prefix of that file after all the reads of this one
		// (other content, other lengths), and so are this file's values after the later reads of its own prefixes
		recheck := func(vals []c05Kept, tr *ref.File, decl int, fileLen int, fileHex string) {
			for _, kv := range vals {
				c.Count("kept_truncation_results_rechecked", 1)
				if d := prefixOK(tr, fromLib(kv.s), decl); d != "" {
					c.Violation("kept-result-altered", fmt.Sprintf("the value read from a file of %d bytes truncated at %d was an event-for-event prefix when ReadFrom returned; after later reads of other inputs %s", fileLen, kv.cut, d), map[string]any{"file": fileHex, "truncated_at": kv.cut}, describeFile(tr, 20), describeFile(fromLib(kv.s), 20))
					break
				}
			}
		}
		recheck(k.prevKept, k.prevTruth, k.prevDeclared, k.prevLen, k.prevHex)
		recheck(keptVals, truth, declared, len(b), mon.Hex(b))
		k.prevKept, k.prevTruth, k.prevDeclared, k.prevLen, k.prevHex = keptVals, truth, declared, len(b), mon.Hex(b)
		// the complete file must of course read to the truth
		if s, err, p := k.read(b, "complete", mon.Hex(b), false); !p && (err != nil || ref.EqualFiles(truth, fromLib(s)) != "") {
			c.Violation("complete-file", fmt.Sprintf("complete valid file does not read to its content: %v", err), mon.Hex(b), nil, nil)
		}
		c.DistinctBytes(b)
		if i < 1 {
			c.Sample("truncated-file", map[string]any{"bytes": mon.Hex(b), "offsets": fmt.Sprintf("0..%d", len(b)-1)})
		}
	})

	// ---- truncations of files with payloads above the chunked-read threshold (4 KiB) and above 16 KiB
	c.Each("big-truncations", c.N(24, 400), func(i int64, r *mon.Rand) {
		n := r.Pick(4097, 4100, 5000, 8192, 8193, 16383, 16384, 16385, 20000)
		p := r.Bytes7(n)
		var big []byte
		switch i % 3 {
		case 0:
			big = ref.Meta(byte(r.Pick(0x01, 0x05, 0x7F, 0x60)), p)
		case 1:
			big = append(append([]byte{0xF0}, p...), 0xF7)
		default:
			big = append([]byte{0xF7}, p...)
		}
		tr := []ref.EncEv{{Ev: ref.Ev{Delta: 3, Msg: []byte{0x90, 1, 1}}}, {Ev: ref.Ev{Delta: 0, Msg: big}}, {Ev: ref.Ev{Delta: 9, Msg: []byte{0x80, 1, 0}}}, {Ev: ref.Ev{Delta: 0, Msg: ref.EOT}}}
		f := &ref.EncFile{Format: 1, Division: 96, NTracks: -1, Tracks: [][]ref.EncEv{{{Ev: ref.Ev{Delta: 0, Msg: ref.EOT}}}, tr}}
		if i%2 == 0 { // the big event in the last track or in the first of two
			f.Tracks[0], f.Tracks[1] = f.Tracks[1], f.Tracks[0]
		}
		b := f.Bytes(nil)
		truth := f.Truth()
		c.CurPayload(b[:64])
		step := 1
		if c.Quick() {
			step = 5
		}
		for cut := 0; cut < len(b); cut += step {
			if c.Quick() && cut > 80 && cut < len(b)-80 && (cut%4096 > 40 && cut%4096 < 4056) && r.P(9, 10) {
				continue // quick: dense near the ends and near 4 KiB multiples, sampled elsewhere
			}
			in := map[string]any{"file": fmt.Sprintf("%d bytes, one event with a payload of %d bytes", len(b), n), "truncated_at": cut}
			s, err, panicked := k.read(b[:cut], "big-truncation", in, cut%64 == 0)
			c.Count("truncations", 1)
			c.Count("big_payload_truncations", 1)
			c.Eval(1)
			if panicked || err != nil || s == nil {
				if err != nil {
					c.Count("truncation_results_error", 1)
				}
				continue
			}
			c.Count("truncation_results_ok_value", 1)
			if d := prefixOK(truth, fromLib(s), 2); d != "" {
				c.Violation("truncation-fabricates", fmt.Sprintf("file of %d bytes (payload of %d bytes) truncated at %d reads without error but %s", len(b), n, cut, d), in, nil, nil)
			}
		}
		c.DistinctBytes([]byte(fmt.Sprint("big", i, n)))
	})

	// ---- a failed read followed by successful ones in the same process: the value returned by a later
	// read must not contain anything of an earlier, interrupted one (payload sizes from a few hundred bytes
	// to several MiB: buffers that a reader keeps or pools are size dependent)
	seqSizes := []int{300, 4097, 70_000, 1 << 20, 1<<20 + 5000, 3 << 20}
	c.Each("read-after-failed-read", int64(len(seqSizes)*len(seqSizes)), func(i int64, r *mon.Rand) {
		mk := func(n int, fill byte) ([]byte, *ref.File) {
			p := r.Bytes7(n)
			for j := 0; j < len(p); j += 1000 {
				p[j] = fill
			}
			var big []byte
			if r.Bool() {
				big = ref.Meta(0x7F, p)
			} else {
				big = append(append([]byte{0xF0}, p...), 0xF7)
			}
			tr := []ref.EncEv{{Ev: ref.Ev{Delta: 3, Msg: []byte{0x90, 1, fill}}}, {Ev: ref.Ev{Delta: 0, Msg: big}}, {Ev: ref.Ev{Delta: 9, Msg: []byte{0x80, 1, 0}}}, {Ev: ref.Ev{Delta: 0, Msg: ref.EOT}}}
			f := &ref.EncFile{Format: 0, Division: 96, NTracks: -1, Tracks: [][]ref.EncEv{tr}}
			return f.Bytes(nil), f.Truth()
		}
		nA, nB := seqSizes[int(i)/len(seqSizes)], seqSizes[int(i)%len(seqSizes)]
		a, truthA := mk(nA, 0x11)
		b, truthB := mk(nB, 0x22)
		in := map[string]any{"file A": fmt.Sprintf("%d bytes, one payload of %d bytes", len(a), nA), "file B": fmt.Sprintf("%d bytes, one payload of %d bytes", len(b), nB)}
		full := func(name string, data []byte, truth *ref.File, after string) bool {
			s, err, panicked := k.read(data, "sequence", in, false)
			c.Count("reads_after_failed_read", 1)
			if panicked {
				return false
			}
			if err != nil {
				c.Violation("sequence-read-error", fmt.Sprintf("the complete, valid file %s is rejected when read %s: %v", name, after, err), in, nil, err.Error())
				return false
			}
			if d := ref.EqualFiles(truth, fromLib(s)); d != "" {
				c.Violation("sequence-content", fmt.Sprintf("the complete, valid file %s read %s differs from its content: %s", name, after, d), in, nil, nil)
				return false
			}
			return true
		}
		cutRead := func(name string, data []byte, truth *ref.File, cut int) bool {
			s, err, panicked := k.read(data[:cut], "sequence", in, false)
			if panicked {
				return false
			}
			if err != nil || s == nil {
				c.Count("sequence_failed_reads", 1)
				return true
			}
			if d := prefixOK(truth, fromLib(s), 1); d != "" {
				c.Violation("truncation-fabricates", fmt.Sprintf("file %s truncated at %d (after earlier reads in the same process) reads without error but %s", name, cut, d), in, nil, nil)
				return false
			}
			return true
		}
		_ = full("A", a, truthA, "first") &&
			cutRead("A", a, truthA, len(a)-nA/2) &&
			full("B", b, truthB, "after a read of A that was cut inside its payload") &&
			cutRead("B", b, truthB, len(b)-3) &&
			cutRead("B", b, truthB, 40+nB/3) &&
			full("A", a, truthA, "after two cut reads of B") &&
			full("B", b, truthB, "again")
		c.DistinctBytes([]byte(fmt.Sprint("seq", nA, nB)))
	})

	// ---- structural counts, quick tier: 500 000 empty unknown chunks in front of a track while the worker's
	// goroutine stack limit is lowered from Go's 1 GB to 16 MiB: per-chunk recursion or other work kept on
	// the stack shows as a fatal stack overflow (attributed to this case through the current-case file)
	c.Each("many-chunks-small-stack", 1, func(_ int64, _ *mon.Rand) {
		old := debug.SetMaxStack(16 << 20)
		defer debug.SetMaxStack(old)
		n := 500_000
		b := make([]byte, 0, 14+8*n+20)
		b = append(b, hdr(1, 1, 96)...)
		for k := 0; k < n; k++ {
			b = append(b, 'X', 'F', 'I', 'L', 0, 0, 0, 0)
		}
		b = append(b, trk(0, 0x90, 1, 1, 5, 0x80, 1, 0, 0, 0xFF, 0x2F, 0)...)
		in := fmt.Sprintf("%d empty unknown chunks (8 bytes each) followed by one track, goroutine stack limit 16 MiB", n)
		c.CurPayload([]byte(in))
		s, err, p := k.read(b, "many-chunks", in, true)
		if !p && (err != nil || len(s.Tracks) != 1 || len(s.Tracks[0]) != 3) {
			c.Violation("many-chunks", fmt.Sprintf("file with %d unknown chunks before its track: %v", n, err), in, "1 track with 3 events", fmt.Sprint(err))
		}
		c.Count("many_chunks_small_stack_reads", 1)
		c.DistinctBytes([]byte(in))
	})

	// ---- structural counts (thorough): millions of empty unknown chunks in front of a track
	if c.Thorough() {
		c.Each("many-chunks", 2, func(i int64, _ *mon.Rand) {
			n := []int{200_000, 6_500_000}[i]
			b := make([]byte, 0, 14+8*n+20)
			b = append(b, hdr(1, 1, 96)...)
			for k := 0; k < n; k++ {
				b = append(b, 'X', 'F', 'I', 'L', 0, 0, 0, 0)
			}
			b = append(b, trk(0, 0x90, 1, 1, 5, 0x80, 1, 0, 0, 0xFF, 0x2F, 0)...)
			c.CurPayload([]byte(fmt.Sprintf("%d empty unknown chunks followed by one track", n)))
			in := fmt.Sprintf("%d empty unknown chunks (8 bytes each) followed by one track", n)
			s, err, p := k.read(b, "many-chunks", in, true)
			if !p && (err != nil || len(s.Tracks) != 1 || len(s.Tracks[0]) != 3) {
				c.Violation("many-chunks", fmt.Sprintf("file with %d unknown chunks before its track: %v", n, err), in, "1 track with 3 events", fmt.Sprint(err))
			}
			c.Count("targeted", 1)
			c.DistinctBytes([]byte(in))
		})
	}

	// ---- proportionality: allocation per input byte must not grow with the input size
	c.Each("proportionality", c.N(2, 6), func(i int64, r *mon.Rand) {
		sizes := []int{1 << 20, 8 << 20}
		if c.Thorough() {
			sizes = []int{1 << 20, 4 << 20, 16 << 20}
		}
		var perByte []float64
		for _, n := range sizes {
			p := r.Bytes7(n)
			var ev []byte
			if i%2 == 0 {
				ev = ref.Meta(0x01, p)
			} else {
				ev = append(append([]byte{0xF0}, p...), 0xF7)
			}
			b := (&ref.EncFile{Format: 0, Division: 96, NTracks: -1, Tracks: [][]ref.EncEv{{{Ev: ref.Ev{Delta: 0, Msg: ev}}, {Ev: ref.Ev{Delta: 0, Msg: ref.EOT}}}}}).Bytes(nil)
			c.CurPayload([]byte(fmt.Sprintf("file with one payload of %d bytes", n)))
			runtime.GC()
			runtime.ReadMemStats(&k.ms)
			before := k.ms.TotalAlloc
			s, err := smf.ReadFrom(bytes.NewReader(b))
			runtime.ReadMemStats(&k.ms)
			if err != nil || s == nil {
				c.Violation("big-file", fmt.Sprintf("valid file with a payload of %d bytes does not read: %v", n, err), n, nil, nil)
				return
			}
			perByte = append(perByte, float64(k.ms.TotalAlloc-before)/float64(len(b)))
			c.Count("alloc_measurements", 1)
		}
		c.MaxOf("max_alloc_bytes_per_input_byte_large_files", perByte[len(perByte)-1])
		c.Count("proportionality_checks", 1)
		if perByte[len(perByte)-1] > 2*perByte[0]+8 {
			c.Violation("alloc-superlinear", fmt.Sprintf("allocation per input byte grows with the input: %.1f B/B for %d bytes, %.1f B/B for %d bytes", perByte[0], sizes[0], perByte[len(perByte)-1], sizes[len(sizes)-1]), fmt.Sprint(sizes), fmt.Sprintf("about %.1f B/B", perByte[0]), fmt.Sprint(perByte))
		}
		c.DistinctBytes([]byte(fmt.Sprint("prop", i)))
	})

	// the same for EVENT counts: one track of 200 000 two-byte events against one of 1.6 million (thorough 3.2 million);
	// a track that is re-allocated in constant steps costs time and memory that grow with the square of its length
	c.Each("proportionality-events", c.N(2, 4), func(i int64, r *mon.Rand) {
		counts := []int{200_000, 1_600_000}
		if c.Thorough() {
			counts = []int{200_000, 3_200_000}
		}
		var perByte []float64
		for _, n := range counts {
			body := make([]byte, 0, 2*n+12)
			body = append(body, 0x00, 0xC0|byte(i), 0x01) // status once, then running status: delta + one data byte per event
			for k := 1; k < n; k++ {
				body = append(body, byte(k&1), byte(k&127))
			}
			body = append(body, 0x00, 0xFF, 0x2F, 0x00)
			b := cat(hdr(0, 1, 96), trk(body...))
			c.CurPayload([]byte(fmt.Sprintf("file with one track of %d two-byte events", n)))
			runtime.GC()
			runtime.ReadMemStats(&k.ms)
			before := k.ms.TotalAlloc
			s, err := smf.ReadFrom(opaqueReader{bytes.NewReader(b)})
			runtime.ReadMemStats(&k.ms)
			if err != nil || s == nil || len(s.Tracks) != 1 || len(s.Tracks[0]) != n+1 {
				c.Violation("big-file", fmt.Sprintf("valid file with one track of %d events does not read completely: %v", n, err), n, nil, nil)
				return
			}
			perByte = append(perByte, float64(k.ms.TotalAlloc-before)/float64(len(b)))
			c.Count("alloc_measurements", 1)
		}
		c.MaxOf("max_alloc_bytes_per_input_byte_long_tracks", perByte[len(perByte)-1])
		c.Count("proportionality_checks_event_counts", 1)
		if perByte[len(perByte)-1] > 2*perByte[0]+8 {
			c.Violation("alloc-superlinear", fmt.Sprintf("allocation per input byte grows with the number of events of a track: %.1f B/B for %d events, %.1f B/B for %d events", perByte[0], counts[0], perByte[len(perByte)-1], counts[len(counts)-1]), fmt.Sprint(counts), fmt.Sprintf("about %.1f B/B", perByte[0]), fmt.Sprint(perByte))
		}
		c.DistinctBytes([]byte(fmt.Sprint("propev", i)))
	})

	// ---- shapes: what a file costs must be about the sum of what its parts cost. One long track among many
	// short ones (first, in the middle, last), many tracks of growing / shrinking length.
	c.Each("shape-additivity", c.N(6, 24), func(i int64, r *mon.Rand) {
		mkTrack := func(nev int, seed int) []ref.EncEv {
			tr := make([]ref.EncEv, 0, nev+1)
			for k := 0; k < nev; k++ {
				tr = append(tr, ref.EncEv{Ev: ref.Ev{Delta: uint32(k % 3), Msg: []byte{0x90 | byte((k+seed)&15), byte(k & 127), byte(1 + k%100)}}})
			}
			return append(tr, ref.EncEv{Ev: ref.Ev{Delta: 0, Msg: ref.EOT}})
		}
		long := mkTrack(r.Pick(20_000, 30_000, 60_000), 0)
		nshort := r.Pick(100, 200, 400)
		var shorts [][]ref.EncEv
		for k := 0; k < nshort; k++ {
			shorts = append(shorts, mkTrack(r.Range(1, 8), k))
		}
		file := func(tracks [][]ref.EncEv) []byte {
			return (&ref.EncFile{Format: 1, Division: 96, NTracks: -1, Tracks: tracks}).Bytes(nil)
		}
		measure := func(b []byte) (uint64, bool) {
			runtime.GC()
			runtime.ReadMemStats(&k.ms)
			before := k.ms.TotalAlloc
			s, err := smf.ReadFrom(bytes.NewReader(b))
			runtime.ReadMemStats(&k.ms)
			c.Count("alloc_measurements", 1)
			return k.ms.TotalAlloc - before, err == nil && s != nil
		}
		var combined [][]ref.EncEv
		pos := []string{"first", "in the middle", "last"}[i%3]
		switch i % 3 {
		case 0:
			combined = append([][]ref.EncEv{long}, shorts...)
		case 1:
			combined = append(append(append([][]ref.EncEv(nil), shorts[:nshort/2]...), long), shorts[nshort/2:]...)
		default:
			combined = append(append([][]ref.EncEv(nil), shorts...), long)
		}
		in := map[string]any{"long_track_events": len(long) - 1, "short_tracks": nshort, "long_track_position": pos}
		c.CurPayload([]byte(fmt.Sprint(in)))
		aLong, ok1 := measure(file([][]ref.EncEv{long}))
		aShort, ok2 := measure(file(shorts))
		bAll := file(combined)
		aAll, ok3 := measure(bAll)
		if !ok1 || !ok2 || !ok3 {
			c.Violation("big-file", "a valid multi-track file does not read", in, nil, nil)
			return
		}
		c.Count("shape_additivity_checks", 1)
		c.MaxOf("max_alloc_whole_over_sum_of_parts", float64(aAll)/float64(aLong+aShort))
		if aAll > 2*(aLong+aShort)+1<<20 {
			c.Violation("alloc-shape", fmt.Sprintf("a file of %d bytes with one track of %d events %s among %d short tracks allocates %d bytes; the long track alone costs %d, the short tracks alone %d", len(bAll), len(long)-1, pos, nshort, aAll, aLong, aShort), in, fmt.Sprintf("about %d", aLong+aShort), aAll)
		}
		c.DistinctBytes([]byte(fmt.Sprint("shape", i, len(long), nshort)))
	})

	// ---- shapes, second kind: thousands of tempo changes spread over several tracks (a tempo curve in every
	// track, later tracks holding earlier ticks): the whole must cost about the sum of its tracks
	c.Each("shape-tempo-tracks", c.N(3, 12), func(i int64, r *mon.Rand) {
		ntr := r.Pick(2, 8, 16)
		per := r.Pick(2500, 5000, 1200)
		var tracks [][]ref.EncEv
		for t := 0; t < ntr; t++ {
			tr := make([]ref.EncEv, 0, per+1)
			for k := 0; k < per; k++ {
				f := uint32(300000 + (k*37+t*11)%400000)
				d := uint32(1 + (k+t)%3)
				if k == 0 {
					d = uint32(ntr - t) // later tracks start earlier
				}
				tr = append(tr, ref.EncEv{Ev: ref.Ev{Delta: d, Msg: ref.Meta(0x51, []byte{byte(f >> 16), byte(f >> 8), byte(f)})}})
			}
			tracks = append(tracks, append(tr, ref.EncEv{Ev: ref.Ev{Delta: 0, Msg: ref.EOT}}))
		}
		measure := func(trs [][]ref.EncEv) (uint64, int, bool) {
			b := (&ref.EncFile{Format: 1, Division: 96, NTracks: -1, Tracks: trs}).Bytes(nil)
			runtime.GC()
			runtime.ReadMemStats(&k.ms)
			before := k.ms.TotalAlloc
			s, err := smf.ReadFrom(bytes.NewReader(b))
			runtime.ReadMemStats(&k.ms)
			c.Count("alloc_measurements", 1)
			return k.ms.TotalAlloc - before, len(b), err == nil && s != nil
		}
		in := map[string]any{"tracks": ntr, "tempo_changes_per_track": per}
		c.CurPayload([]byte(fmt.Sprint(in)))
		var sum uint64
		for t := 0; t < ntr; t++ {
			a, _, ok := measure(tracks[t : t+1])
			if !ok {
				c.Violation("big-file", "a valid file with a tempo track does not read", in, nil, nil)
				return
			}
			sum += a
		}
		all, size, ok := measure(tracks)
		if !ok {
			c.Violation("big-file", "a valid multi-track file with tempo changes in every track does not read", in, nil, nil)
			return
		}
		c.Count("shape_additivity_checks", 1)
		c.MaxOf("max_alloc_whole_over_sum_of_parts", float64(all)/float64(sum))
		if all > 2*sum+1<<20 {
			c.Violation("alloc-shape", fmt.Sprintf("a file of %d bytes with %d tracks of %d tempo changes each allocates %d bytes; its tracks read one by one cost %d in total", size, ntr, per, all, sum), in, fmt.Sprintf("about %d", sum), all)
		}
		c.DistinctBytes([]byte(fmt.Sprint("tempo-shape", i, ntr, per)))
	})

	// ---- independent reads from 8 goroutines at once: the prefix relation must hold all the same
	c.Each("concurrent-truncations", c.N(8, 100), func(i int64, r *mon.Rand) {
		type job struct {
			b     []byte
			truth *ref.File
			bad   string
			nt    int
		}
		jobs := make([]*job, 16)
		for k := range jobs {
			f := gen.SMFFile(mon.NewRand(c.Seed, "C05conc", fmt.Sprint(i), uint64(k)), gen.FileOpts{MaxTracks: 3, MaxEvents: 12, PaddedVLQ: true, Running: true})
			jobs[k] = &job{b: f.Bytes(nil), truth: f.Truth(), nt: len(f.Tracks)}
		}
		var wg sync.WaitGroup
		for g := 0; g < 8; g++ {
			wg.Add(1)
			go func(g int) {
				defer wg.Done()
				for k := g; k < len(jobs); k += 8 {
					j := jobs[k]
					func() {
						defer func() {
							if p := recover(); p != nil && j.bad == "" {
								j.bad = fmt.Sprintf("panic: %v", p)
							}
						}()
						for cut := 0; cut <= len(j.b); cut++ {
							s, err := smf.ReadFrom(bytes.NewReader(j.b[:cut]))
							if err != nil || s == nil {
								continue
							}
							if d := prefixOK(j.truth, fromLib(s), j.nt); d != "" && j.bad == "" {
								j.bad = fmt.Sprintf("truncated at %d of %d: %s", cut, len(j.b), d)
							}
						}
					}()
				}
			}(g)
		}
		wg.Wait()
		for _, j := range jobs {
			c.Count("concurrent_truncation_files", 1)
			c.Eval(int64(len(j.b)))
			if j.bad != "" {
				c.Violation("truncation-fabricates-concurrent", "prefix reads run from 8 goroutines at once (independent inputs): "+j.bad, mon.Hex(j.b), nil, nil)
			}
		}
	})

	// ---- grammar-mutated files
	c.Each("mutants", c.N(100_000, 4_000_000), func(i int64, r *mon.Rand) {
		f := gen.SMFFile(r, gen.FileOpts{MaxTracks: 3, MaxEvents: 10, Aliens: i%4 == 0, PaddedVLQ: true, Running: true})
		b := mutate(r, f.Bytes(nil))
		c.CurPayload(b)
		in := mon.Hex(b)
		withLog := i%50 == 0
		if withLog {
			lg := &nullLogger{}
			c.Guard("panic:mutant+log", in, func() { smf.ReadFrom(bytes.NewReader(b), smf.Log(lg)) })
			c.Count("reads_with_log", 1)
		}
		k.read(b, "mutant", in, i%4 == 0)
		c.Count("mutants", 1)
		if len(b) >= 14 {
			c.DistinctBytes(b)
		}
	})

	// ---- random strings, half with a valid header prefix
	c.Each("random", c.N(100_000, 4_000_000), func(i int64, r *mon.Rand) {
		n := r.Intn(200)
		b := r.Bytes(n)
		if i%2 == 0 {
			nt := uint16(r.Pick(0, 1, 1, 1, 2, 3))
			if r.P(1, 1000) { // rare: each such input legitimately costs megabytes
				nt = uint16(r.Pick(65535, 32768, 300))
			}
			h := hdr(uint16(r.Intn(3)), nt, gen.Division(r))
			if r.P(3, 4) {
				b = cat(h, []byte("MTrk"), []byte{0, 0, 0, byte(n)}, b)
			} else {
				b = cat(h, b)
			}
			c.DistinctBytes(b)
		}
		c.CurPayload(b)
		k.read(b, "random", mon.Hex(b), i%4 == 0)
		c.Count("random_strings", 1)
	})

	// ---- targeted list, also with logging enabled
	tg := c05Targeted()
	c.Each("targeted", int64(len(tg)), func(i int64, _ *mon.Rand) {
		b := tg[i].b
		c.CurPayload(b)
		in := map[string]any{"label": tg[i].label, "bytes": mon.Hex(b)}
		for kind := 1; kind <= c05Kinds; kind++ {
			k.kind = kind
			in["source kind"] = kind
			k.read(b, "targeted", in, true)
		}
		k.kind = 0
		delete(in, "source kind")
		lg := &nullLogger{}
		c.Guard("panic:targeted+log", in, func() { smf.ReadFrom(bytes.NewReader(b), smf.Log(lg)) })
		c.Count("reads_with_log", 1)
		c.Count("targeted", 1)
		c.DistinctBytes(b, []byte(tg[i].label))
		// every truncation of the targeted inputs as well (bounded)
		if len(b) < 400 {
			for cut := 0; cut < len(b); cut++ {
				k.read(b[:cut], "targeted-truncated", map[string]any{"label": tg[i].label, "bytes": mon.Hex(b[:cut])}, false)
			}
		}
		if i == 2 {
			c.Sample("targeted", in)
		}
	})
	// ---- the same hostile inputs where int has 32 bits (worker built with GOARCH=386): declared lengths and counts of
	// 2^31 and more become negative or wrap when they are converted to int
	c.Each32("targeted-32bit", int64(len(tg)), func(i int64, _ *mon.Rand) {
		b := tg[i].b
		c.CurPayload(b)
		in := map[string]any{"label": tg[i].label, "bytes": mon.Hex(head(b, 400)), "platform": "int has 32 bits (GOARCH=386)"}
		for kind := 1; kind <= c05Kinds; kind++ {
			k.kind = kind
			k.read(b, "targeted-32bit", in, false)
		}
		k.kind = 0
		c.Count("reads_on_a_32_bit_platform", c05Kinds)
		if len(b) < 400 {
			for cut := 0; cut < len(b); cut++ {
				k.read(b[:cut], "targeted-32bit-truncated", map[string]any{"label": tg[i].label, "bytes": mon.Hex(b[:cut]), "platform": "int has 32 bits"}, false)
			}
		}
	})
	c.Each32("mutants-32bit", c.N(20_000, 400_000), func(i int64, r *mon.Rand) {
		f := gen.SMFFile(r, gen.FileOpts{MaxTracks: 3, MaxEvents: 10, AllowBig: false, Aliens: i%3 == 0, PaddedVLQ: true, Running: true})
		b := mutate(r, f.Bytes(nil))
		c.CurPayload(b)
		k.read(b, "mutant-32bit", map[string]any{"bytes": mon.Hex(b), "platform": "int has 32 bits (GOARCH=386)"}, false)
		c.Count("reads_on_a_32_bit_platform", 1)
	})
	_ = io.EOF
}
