package props

import (
	"bufio"
	"bytes"
	"fmt"
	"io"
	"os"
	"path/filepath"
	"runtime"
	"sync"

	"gitlab.com/gomidi/midi/v2/smf"

	"verif/harness/gen"
	"verif/harness/mon"
	"verif/harness/ref"
)

func init() {
	mon.Register(&mon.Spec{
		ID:    "C01",
		Level: "exploration",
		Rule: "seeded random API histories (New/NewSMF1/NewSMF2, TimeFormat assignment incl. all four SMPTE rates, NoRunningStatus toggle, Track.Add single and variadic, Track.Close early/late/omitted, Add after Close, adding an end-of-track message, SMF.Add of closed and unclosed tracks, a track variable that is added, extended and added again) " +
			"with a shadow model as expected content, + a fixed boundary matrix (every VLQ boundary delta incl. 2^28 and 2^32-1 x every message kind x running status on/off x formats x divisions). Each value is written, read back and compared with the shadow. " +
			"distinct = distinct written byte streams (content hash); non-trivial = at least one event besides end-of-track",
		Assumptions: []string{
			"documented API semantics used by the shadow model: Add after Close is ignored, a variadic Add gives the delta to the first message, adding an end-of-track message closes the track, SMF.Add appends the track as it is, format 0 becomes 1 with a second track, WriteTo closes open tracks with delta 0",
			"resolution 0 (alias of 960), resolutions above 32767 (clamped) and more than 65535 tracks are outside the stated domain",
			"messages are non-empty smf.Message values: channel messages, FF type VLQ payload metas in canonical form, F0/F7 sysex and escape messages",
		},
		Require: []string{"bank_reads", "dumps_among_notes", "histories", "smpte_files", "rs_elisions_by_writer", "delta_ge_2^28", "early_close", "add_after_close", "variadic_add", "unclosed_tracks", "files_with_more_than_65536_events", "tracks_added_again_after_more_adds", "end_of_track_inside_multi_message_add", "end_of_track_messages_with_data_added", "tracks_extended_or_closed_after_smf_add", "tracks_added_after_a_write", "roundtrips_right_after_a_refused_write", "events_compared", "norunningstatus_files", "file_roundtrips", "read_modify_write_values", "concurrent_roundtrips", "vlq_width_combinations"},
		Run:     runC01,
	})
}

// apiValue is a library value together with its shadow model.
type apiValue struct {
	s    *smf.SMF
	sh   *ref.File
	desc []string
	// feature counts
	early, afterClose, variadic, unclosed, bigDelta, readded, eotInVariadic, eotWithData, lateOps int
}

func (a *apiValue) log(f string, v ...any) {
	if len(a.desc) < 80 {
		a.desc = append(a.desc, fmt.Sprintf(f, v...))
	}
}

// msgArena hands out message slices that are adjacent windows of one buffer: every message has
// spare capacity that belongs to the message allocated after it, as with messages cut out of a
// caller's receive or file buffer.
type msgArena struct {
	buf []byte
	p   int
}

func (a *msgArena) put(m []byte) []byte {
	if a.p+len(m) > len(a.buf) {
		n := 4096
		if len(m) > n {
			n = len(m)
		}
		a.buf, a.p = make([]byte, n), 0
	}
	w := a.buf[a.p : a.p+len(m)]
	copy(w, m)
	a.p += len(m)
	return w
}

var c01Arena msgArena

func randomMsg(r *mon.Rand, prev []byte, allowBig bool) []byte {
	return c01Arena.put(randomMsg0(r, prev, allowBig))
}

// yieldWriter is a slow in-memory destination: Write yields to other goroutines before copying and
// between the two halves of what it copies.
type yieldWriter struct{ b []byte }

func (w *yieldWriter) Write(p []byte) (int, error) {
	runtime.Gosched()
	h := len(p) / 2
	w.b = append(w.b, p[:h]...)
	runtime.Gosched()
	w.b = append(w.b, p[h:]...)
	return len(p), nil
}

func randomMsg0(r *mon.Rand, prev []byte, allowBig bool) []byte {
	switch r.Intn(10) {
	case 0, 1:
		return gen.MetaEvent(r, allowBig)
	case 2:
		return gen.SysexEvent(r, allowBig)
	default:
		return gen.ChannelEvent(r, prev)
	}
}

func randomTimeFormat(r *mon.Rand) (smf.TimeFormat, uint16) {
	if r.P(1, 4) {
		sub := r.Byte()
		switch r.Intn(4) {
		case 0:
			return smf.SMPTE24(sub), 0xE800 | uint16(sub)
		case 1:
			return smf.SMPTE25(sub), 0xE700 | uint16(sub)
		case 2:
			return smf.SMPTE30DropFrame(sub), 0xE300 | uint16(sub)
		default:
			return smf.SMPTE30(sub), 0xE200 | uint16(sub)
		}
	}
	res := uint16(r.Range(1, 32767))
	if r.P(1, 2) {
		res = uint16(r.Pick(1, 2, 24, 95, 96, 127, 128, 255, 256, 480, 960, 16383, 16384, 32767))
	}
	return smf.MetricTicks(res), res
}

// buildHistory runs a random API history against the library and the shadow model.
func buildHistory(r *mon.Rand, maxDelta uint32, allowBig bool) *apiValue {
	a := &apiValue{sh: &ref.File{}}
	switch r.Intn(3) {
	case 0:
		a.s = smf.New()
		a.sh.Format = 0
		a.log("New()")
	case 1:
		a.s = smf.NewSMF1()
		a.sh.Format = 1
		a.log("NewSMF1()")
	default:
		a.s = smf.NewSMF2()
		a.sh.Format = 2
		a.log("NewSMF2()")
	}
	a.sh.Division = 960
	if !r.P(1, 8) {
		tf, div := randomTimeFormat(r)
		a.s.TimeFormat = tf
		a.sh.Division = div
		a.log("TimeFormat = %v", tf)
	}
	a.s.NoRunningStatus = r.P(1, 3)
	a.log("NoRunningStatus = %v", a.s.NoRunningStatus)
	nt := 1
	if r.P(2, 3) {
		nt = r.Range(1, 6)
	}
	delta := func() uint32 {
		d := gen.Delta(r)
		if maxDelta > 0x0FFFFFFF && r.P(1, 12) {
			d = []uint32{1 << 28, 1<<28 + 1, 1<<32 - 1, 1 << 31, 0x0FFFFFFF}[r.Intn(5)]
		}
		if d >= 1<<28 {
			a.bigDelta++
		}
		return d
	}
	var open []bool // per track of the value: handed to SMF.Add without an end of track
	for t := 0; t < nt; t++ {
		var tr smf.Track
		var sh []ref.Ev
		closed := false
		shAdd := func(d uint32, msgs ...[]byte) {
			for _, m := range msgs {
				if closed {
					return
				}
				if ref.IsEOT(m) {
					// an end-of-track meta message ends the track for every reader, also when the caller built it with
					// data (MetaUndefined(0x2F, data)): the track holds the end of track, what follows is ignored
					sh = append(sh, ref.Ev{Delta: d, Msg: ref.EOT})
					closed = true
				} else {
					sh = append(sh, ref.Ev{Delta: d, Msg: append([]byte(nil), m...)}) // the model keeps its own copy
				}
				d = 0
			}
		}
		nops := r.Intn(25)
		var prev, lastChan []byte
		draw := func(big bool) []byte {
			// the status of the last CHANNEL message is the one that repeats, also across a sysex, an escape or a meta in between
			m := randomMsg(r, lastChan, big)
			if m[0] < 0xF0 {
				lastChan = m
			}
			return m
		}
		for k := 0; k < nops; k++ {
			switch x := r.Intn(20); {
			case x == 0 && k > nops/2: // close (possibly early)
				d := delta()
				if !closed && k < nops-1 {
					a.early++
				}
				tr.Close(d)
				if !closed {
					sh = append(sh, ref.Ev{Delta: d, Msg: ref.EOT})
					closed = true
				}
				a.log("track %d: Close(%d)", t, d)
			case x == 1: // variadic add
				n := r.Range(2, 4)
				var ms [][]byte
				for j := 0; j < n; j++ {
					prev = draw(false)
					ms = append(ms, prev)
				}
				if r.P(1, 12) {
					// the end-of-track message in the middle of one multi-message Add: what follows it in the
					// same call comes after the track was closed and is ignored like any Add after Close
					ms[r.Intn(len(ms))] = smf.EOT
					if r.P(1, 3) {
						ms[r.Intn(len(ms))] = smf.MetaUndefined(0x2F, r.Bytes(r.Range(1, 4)))
						a.eotWithData++
					}
					a.eotInVariadic++
				}
				d := delta()
				if closed {
					a.afterClose++
				}
				tr.Add(d, ms...)
				shAdd(d, ms...)
				a.variadic++
				a.log("track %d: Add(%d, %d messages)", t, d, n)
			case x == 2 && r.P(1, 6): // adding the end-of-track message itself
				d := delta()
				if r.P(1, 2) {
					m := smf.MetaUndefined(0x2F, r.Bytes(r.Range(1, 4)))
					tr.Add(d, m)
					shAdd(d, m)
					a.eotWithData++
					a.log("track %d: Add(%d, MetaUndefined(0x2F, ...) = % X)", t, d, []byte(m))
					break
				}
				tr.Add(d, smf.EOT)
				shAdd(d, ref.EOT)
				a.log("track %d: Add(%d, EOT)", t, d)
			default:
				prev = draw(allowBig && k == 0)
				d := delta()
				if closed {
					a.afterClose++
				}
				tr.Add(d, prev)
				shAdd(d, prev)
				a.log("track %d: Add(%d, % X)", t, d, head(prev, 12))
			}
		}
		if r.P(1, 2) && !closed {
			d := delta()
			tr.Close(d)
			sh = append(sh, ref.Ev{Delta: d, Msg: ref.EOT})
			closed = true
			a.log("track %d: Close(%d)", t, d)
		}
		err := a.s.Add(tr)
		a.log("SMF.Add(track %d) = %v", t, err)
		if (err == nil) != closed {
			a.log("!! SMF.Add error does not match closed state %v", closed)
		}
		base := append([]ref.Ev(nil), sh...) // the track as it was handed to SMF.Add
		if !closed {
			a.unclosed++
			sh = append(sh, ref.Ev{Delta: 0, Msg: ref.EOT}) // WriteTo closes with delta 0
		}
		a.sh.Tracks = append(a.sh.Tracks, sh)
		open = append(open, !closed)
		if len(a.sh.Tracks) > 1 && a.sh.Format == 0 {
			a.sh.Format = 1
		}
		// appending to the track value after SMF.Add must not change the file
		if r.P(1, 6) {
			tr.Add(1, []byte{0x90, 1, 1})
		} else if r.P(1, 4) && t+1 < nt {
			// the caller goes on with the same track variable (a take that was added and is then extended) and adds
			// it again as the next track: SMF.Add takes the track as it is at that moment, both entries are kept
			sh = base
			for k, n := 0, r.Range(1, 5); k < n; k++ {
				prev = draw(false)
				d := delta()
				tr.Add(d, prev)
				shAdd(d, prev)
				a.log("track %d (same variable as track %d): Add(%d, % X)", t+1, t, d, head(prev, 12))
			}
			if r.P(1, 2) && !closed {
				d := delta()
				tr.Close(d)
				sh = append(sh, ref.Ev{Delta: d, Msg: ref.EOT})
				closed = true
				a.log("track %d: Close(%d)", t+1, d)
			}
			err := a.s.Add(tr)
			a.log("SMF.Add(track %d, the extended variable of track %d) = %v", t+1, t, err)
			if !closed {
				a.unclosed++
				sh = append(sh, ref.Ev{Delta: 0, Msg: ref.EOT})
			}
			a.sh.Tracks = append(a.sh.Tracks, sh)
			open = append(open, !closed)
			if a.sh.Format == 0 {
				a.sh.Format = 1
			}
			a.readded++
			t++
		}
	}
	// late calls on a track of the value itself (the exported Tracks field): more messages and the Close that was
	// left out, after other tracks were added. Only that track changes.
	if r.P(1, 5) {
		for i := range open {
			if !open[i] || !r.P(1, 2) {
				continue
			}
			sh := a.sh.Tracks[i]
			sh = append([]ref.Ev(nil), sh[:len(sh)-1]...) // without the end of track that WriteTo would have added
			closed := false
			for k, n := 0, r.Intn(3); k < n && !closed; k++ {
				m := randomMsg(r, nil, false)
				d := delta()
				a.s.Tracks[i].Add(d, m)
				sh = append(sh, ref.Ev{Delta: d, Msg: append([]byte(nil), m...)})
				a.log("SMF.Tracks[%d].Add(%d, % X)", i, d, head(m, 12))
			}
			if r.P(2, 3) {
				d := delta()
				a.s.Tracks[i].Close(d)
				sh = append(sh, ref.Ev{Delta: d, Msg: ref.EOT})
				closed = true
				a.log("SMF.Tracks[%d].Close(%d)", i, d)
			}
			if !closed {
				sh = append(sh, ref.Ev{Delta: 0, Msg: ref.EOT})
			}
			a.sh.Tracks[i] = sh
			a.lateOps++
		}
	}
	return a
}

func countEvents(f *ref.File) (n int) {
	for _, t := range f.Tracks {
		n += len(t)
	}
	return
}

// c01Check writes, reads back and compares with the shadow.
func c01Check(c *mon.Ctx, a *apiValue, label string) {
	in := map[string]any{"case": label, "history": a.desc}
	var buf bytes.Buffer
	var n int64
	var err error
	if c.Guard("panic:WriteTo", in, func() { n, err = a.s.WriteTo(&buf) }) {
		return
	}
	if err != nil {
		c.Violation("write-error", fmt.Sprintf("WriteTo of a value in the domain fails: %v", err), in, "nil", err.Error())
		return
	}
	_ = n
	b := buf.Bytes()
	in["bytes"] = mon.Hex(b)
	// API semantics: the library's own value equals the shadow after writing
	if diff := ref.EqualFiles(a.sh, fromLib(a.s)); diff != "" {
		c.Violation("api-shadow", "SMF value after the API history differs from the documented API semantics: "+diff, in, describeFile(a.sh, 20), describeFile(fromLib(a.s), 20))
		return
	}
	s2, err, panicked := readLib(c, "panic:ReadFrom", in, b)
	if panicked {
		return
	}
	if err != nil {
		c.Violation("read-error", fmt.Sprintf("ReadFrom of the written bytes fails: %v", err), in, "value", err.Error())
		return
	}
	got := fromLib(s2)
	if diff := ref.EqualFiles(a.sh, got); diff != "" {
		c.Violation("roundtrip", "write/read round trip changed the content: "+diff, in, describeFile(a.sh, 20), describeFile(got, 20))
		return
	}
	if _, ok := s2.TimeFormat.(smf.TimeCode); ok {
		c.Count("smpte_files", 1)
	}
	if a.s.NoRunningStatus {
		c.Count("norunningstatus_files", 1)
	} else {
		// measure the elisions the writer performed by writing the running-status-off twin
		a.s.NoRunningStatus = true
		var off bytes.Buffer
		a.s.WriteTo(&off)
		a.s.NoRunningStatus = false
		c.Count("rs_elisions_by_writer", int64(off.Len()-len(b)))
		if s3, err, p := readLib(c, "panic:ReadFrom", in, off.Bytes()); !p {
			if err != nil {
				c.Violation("read-error", fmt.Sprintf("ReadFrom of the bytes written without running status fails: %v", err), in, "value", err.Error())
			} else if diff := ref.EqualFiles(a.sh, fromLib(s3)); diff != "" {
				c.Violation("roundtrip", "round trip without running status changed the content: "+diff, in, describeFile(a.sh, 20), describeFile(fromLib(s3), 20))
			}
		}
	}
	// a share of the values also goes through real files and a buffered reader
	if (len(b)%5 == 0 || len(b) > 4200) && c.Dir != "" {
		path := filepath.Join(c.Dir, fmt.Sprintf("c01-%d.mid", c.Shard))
		var werr error
		if !c.Guard("panic:WriteFile", in, func() { werr = a.s.WriteFile(path) }) {
			if werr != nil {
				c.Violation("writefile-error", "WriteFile fails: "+werr.Error(), in, nil, nil)
			} else {
				for k, rf := range []func() (*smf.SMF, error){
					func() (*smf.SMF, error) { return smf.ReadFile(path) },
					func() (*smf.SMF, error) { return smf.ReadFrom(bufio.NewReaderSize(bytes.NewReader(b), 16+len(b)%300)) },
					func() (*smf.SMF, error) { // a pipe: an *os.File that cannot seek
						pr, pw, e := os.Pipe()
						if e != nil {
							return nil, e
						}
						go func() { pw.Write(b); pw.Close() }()
						defer pr.Close()
						return smf.ReadFrom(pr)
					},
				} {
					var s4 *smf.SMF
					var err error
					if c.Guard("panic:ReadFile", in, func() { s4, err = rf() }) {
						continue
					}
					c.Count("file_roundtrips", 1)
					if err != nil {
						c.Violation("readfile-error", fmt.Sprintf("reading the written file back (source %d: 0 = ReadFile, 1 = bufio, 2 = os.Pipe) fails: %v", k, err), in, nil, err.Error())
					} else if diff := ref.EqualFiles(a.sh, fromLib(s4)); diff != "" {
						c.Violation("roundtrip-file", "round trip through a real file / buffered reader changed the content: "+diff, in, nil, nil)
					}
				}
			}
			os.Remove(path)
		}
	}
	c.Count("histories", 1)
	c.Count("events_compared", int64(countEvents(a.sh)))
	c.Count("early_close", int64(a.early))
	c.Count("add_after_close", int64(a.afterClose))
	c.Count("variadic_add", int64(a.variadic))
	c.Count("unclosed_tracks", int64(a.unclosed))
	c.Count("tracks_added_again_after_more_adds", int64(a.readded))
	c.Count("end_of_track_inside_multi_message_add", int64(a.eotInVariadic))
	c.Count("end_of_track_messages_with_data_added", int64(a.eotWithData))
	c.Count("tracks_extended_or_closed_after_smf_add", int64(a.lateOps))
	c.Count("delta_ge_2^28", int64(a.bigDelta))
	if countEvents(a.sh) > len(a.sh.Tracks) {
		c.DistinctBytes(b)
	}
}

// boundaryMsgs is one message per kind.
var boundaryMsgs = [][]byte{
	{0x80, 1, 2}, {0x9F, 60, 0}, {0xA1, 3, 4}, {0xB2, 7, 127}, {0xC3, 9}, {0xD4, 0}, {0xE5, 0, 64},
	ref.Meta(0x01, []byte("x")), ref.Meta(0x51, []byte{7, 0xA1, 0x20}), ref.Meta(0x7F, nil), ref.Meta(0x60, []byte{1, 2, 3}),
	{0xF0, 1, 2, 0xF7}, {0xF0, 1, 2}, {0xF7, 1, 0xF7}, {0xF0}, {0xF7},
}

func runC01(c *mon.Ctx) {
	// boundary matrix
	deltas := append(append([]uint32(nil), gen.DeltaBoundaries...), 1<<28, 1<<28+1, 1<<31, 1<<32-1)
	divs := []struct {
		tf  smf.TimeFormat
		div uint16
	}{{smf.MetricTicks(1), 1}, {smf.MetricTicks(96), 96}, {smf.MetricTicks(32767), 32767}, {smf.SMPTE24(8), 0xE808}, {smf.SMPTE25(40), 0xE728}, {smf.SMPTE30DropFrame(80), 0xE350}, {smf.SMPTE30(100), 0xE264}}
	c.Each("boundary", int64(len(deltas)*len(boundaryMsgs)), func(i int64, _ *mon.Rand) {
		d := deltas[int(i)/len(boundaryMsgs)]
		m := boundaryMsgs[int(i)%len(boundaryMsgs)]
		for fi, mk := range []func() *smf.SMF{smf.New, smf.NewSMF1, smf.NewSMF2} {
			for _, norsOff := range []bool{false, true} {
				for _, dv := range divs {
					a := &apiValue{s: mk(), sh: &ref.File{Format: uint16(fi), Division: dv.div}}
					a.s.TimeFormat = dv.tf
					a.s.NoRunningStatus = norsOff
					var tr smf.Track
					tr.Add(d, m)
					tr.Add(0, m) // running status opportunity for channel kinds
					tr.Add(d, []byte{0x90, 1, 1})
					tr.Add(0, []byte{0x90, 2, 2})
					tr.Close(d)
					a.s.Add(tr)
					a.sh.Tracks = [][]ref.Ev{{{Delta: d, Msg: m}, {Delta: 0, Msg: m}, {Delta: d, Msg: []byte{0x90, 1, 1}}, {Delta: 0, Msg: []byte{0x90, 2, 2}}, {Delta: d, Msg: ref.EOT}}}
					if d >= 1<<28 {
						a.bigDelta += 3
					}
					a.log("format %d, %v, NoRunningStatus=%v: Add(%d, % X) Add(0, same) Add(%d, 90 01 01) Add(0, 90 02 02) Close(%d)", fi, dv.tf, norsOff, d, m, d, d)
					c01Check(c, a, "boundary matrix")
					c.Eval(1)
				}
			}
		}
	})
	c.MarkExhaustive("boundary matrix: 13 boundary deltas x 16 message kinds x 3 formats x running status on/off x 7 divisions")

	c.Each("histories", c.N(30_000, 3_000_000), func(i int64, r *mon.Rand) {
		a := buildHistory(r, 1<<32-1, i%32 == 0)
		if i%8 == 5 {
			// the program has just had a write refused (disk full, connection gone) - of this value or of another one; that
			// is over and must not show in what is written next
			o := a
			if r.Bool() {
				o = buildHistory(r, 0x0FFFFFFF, false)
			}
			var probe bytes.Buffer
			if n, err := o.s.WriteTo(&probe); err == nil && n > 15 {
				w := &faultWriter{err: errInjected, limit: r.Range(14, int(n)-1), short: r.Bool()}
				if _, err := o.s.WriteTo(w); err != nil {
					c.Count("roundtrips_right_after_a_refused_write", 1)
					a.log("(a WriteTo of %s had been refused by its destination after %d bytes just before)", map[bool]string{true: "this value", false: "another value"}[o == a], w.accepted)
				}
			}
		}
		c01Check(c, a, fmt.Sprintf("history %d", i))
		if i < 2 {
			c.Sample("history", a.desc)
		}
		// the value goes on living after it was written: one more track (closed or not), written and read again
		if i%4 == 1 {
			var tr smf.Track
			var sh []ref.Ev
			for k, n := 0, r.Intn(4); k < n; k++ {
				m := randomMsg(r, nil, false)
				for ref.IsEOT(m) {
					m = randomMsg(r, nil, false)
				}
				d := gen.Delta(r)
				tr.Add(d, m)
				sh = append(sh, ref.Ev{Delta: d, Msg: append([]byte(nil), m...)})
			}
			if r.P(1, 3) {
				d := gen.Delta(r)
				tr.Close(d)
				sh = append(sh, ref.Ev{Delta: d, Msg: ref.EOT})
				a.log("after the write: one more track, %d messages, Close(%d), SMF.Add", len(sh)-1, d)
			} else {
				sh = append(sh, ref.Ev{Delta: 0, Msg: ref.EOT})
				a.log("after the write: one more track, %d messages, not closed, SMF.Add", len(sh)-1)
			}
			a.s.Add(tr)
			a.sh.Tracks = append(a.sh.Tracks, sh)
			if len(a.sh.Tracks) > 1 && a.sh.Format == 0 {
				a.sh.Format = 1
			}
			c01Check(c, a, fmt.Sprintf("history %d, one more track after the first write", i))
			c.Count("tracks_added_after_a_write", 1)
		}
	})

	// every width of the delta VLQ (1..5 bytes) combined with every width of the length VLQ (1..4 bytes)
	widthDeltas := []uint32{0, 128, 16384, 2097152, 1 << 28, 1<<32 - 1}
	widthLens := []int{0, 128, 16384, 2097152}
	c.Each("vlq-width-product", int64(len(widthDeltas)*len(widthLens)), func(i int64, r *mon.Rand) {
		d := widthDeltas[int(i)/len(widthLens)]
		n := widthLens[int(i)%len(widthLens)]
		p := make([]byte, n)
		for j := 0; j < n; j += 997 {
			p[j] = byte(j) & 0x7F
		}
		for _, nors := range []bool{false, true} {
			a := &apiValue{s: smf.NewSMF1(), sh: &ref.File{Format: 1, Division: 960}}
			a.s.NoRunningStatus = nors
			var tr smf.Track
			var sh []ref.Ev
			for _, m := range [][]byte{append(append([]byte{0xF0}, p...), 0xF7), append([]byte{0xF7}, p...), ref.Meta(0x01, p), ref.Meta(0x7F, p), {0x90, 1, 1}} {
				tr.Add(d, m)
				sh = append(sh, ref.Ev{Delta: d, Msg: append([]byte(nil), m...)}) // the model keeps its own copy
			}
			tr.Close(d)
			sh = append(sh, ref.Ev{Delta: d, Msg: ref.EOT})
			a.s.Add(tr)
			a.sh.Tracks = [][]ref.Ev{sh}
			if d >= 1<<28 {
				a.bigDelta += 6
			}
			a.log("delta %d (VLQ of %d bytes) x payload of %d bytes (length VLQ of %d bytes), NoRunningStatus=%v", d, ref.VLQLen(d), n, ref.VLQLen(uint32(n)), nors)
			c01Check(c, a, "vlq width product")
			c.Count("vlq_width_combinations", 1)
		}
	})

	// position inside the track: a payload above the chunked-read threshold at the start, in the middle or as the
	// last event of a track, before / behind runs of channel messages that the writer compresses with running
	// status (the bytes a track takes in the file then differ from the sum of its message lengths)
	dumpLens := []int{4097, 5000, 16384, 70_000, 1 << 20}
	// big files: hundreds of thousands of events of mixed sizes (two- and three-byte channel messages, short metas)
	// in one or several tracks; whatever block structure the reader or the writer uses inside (64 KiB and the like),
	// every event comes back
	c.Each("many-events", c.N(6, 60), func(i int64, r *mon.Rand) {
		a := &apiValue{sh: &ref.File{Format: 1, Division: 960}}
		a.s = smf.NewSMF1()
		nt := r.Pick(1, 1, 2, 5)
		total := r.Pick(70_000, 120_000, 300_000)
		lead := int(i) % 7 // leading two-byte messages shift every later offset by two
		a.log("NewSMF1(); %d tracks with %d events in all, %d program changes first", nt, total, lead)
		for t := 0; t < nt; t++ {
			var tr smf.Track
			var sh []ref.Ev
			add := func(d uint32, m []byte) {
				tr.Add(d, m)
				sh = append(sh, ref.Ev{Delta: d, Msg: append([]byte(nil), m...)})
			}
			for k := 0; k < lead && t == 0; k++ {
				add(0, []byte{0xC0 | byte(k), byte(k + 1)})
			}
			for k := 0; k < total/nt; k++ {
				switch x := r.Intn(40); {
				case x == 0:
					add(uint32(r.Intn(3)), []byte{0xC0 | byte(r.Intn(16)), byte(r.Intn(128))})
				case x == 1:
					add(1, []byte{0xD0 | byte(r.Intn(16)), byte(r.Intn(128))})
				case x == 2 && k%50 == 0:
					add(0, ref.Meta(0x06, []byte{byte(k), byte(k >> 8)}))
				default:
					add(uint32(k&3), []byte{0x90 | byte(k&15), byte(k & 127), byte(k >> 7 & 127)})
				}
			}
			tr.Close(uint32(t))
			sh = append(sh, ref.Ev{Delta: uint32(t), Msg: ref.EOT})
			a.s.Add(tr)
			a.sh.Tracks = append(a.sh.Tracks, sh)
		}
		a.s.TimeFormat = smf.MetricTicks(960)
		c01Check(c, a, fmt.Sprintf("many-events %d", i))
		c.Count("files_with_more_than_65536_events", 1)
	})

	c.Each("dump-among-notes", int64(len(dumpLens)*6), func(i int64, r *mon.Rand) {
		n := dumpLens[int(i)%len(dumpLens)]
		pos := int(i) / len(dumpLens) % 3 // 0 first, 1 middle, 2 last
		kind := int(i) / len(dumpLens) / 3
		p := r.Bytes7(n)
		var dump []byte
		switch kind {
		case 0:
			dump = append(append([]byte{0xF0}, p...), 0xF7)
		default:
			dump = ref.Meta(byte(r.Pick(0x01, 0x7F)), p)
		}
		for _, nors := range []bool{false, true} {
			a := &apiValue{s: smf.NewSMF1(), sh: &ref.File{Format: 1, Division: 960}}
			a.s.NoRunningStatus = nors
			for t := 0; t < 2; t++ {
				var tr smf.Track
				var sh []ref.Ev
				add := func(d uint32, m []byte) {
					tr.Add(d, m)
					sh = append(sh, ref.Ev{Delta: d, Msg: append([]byte(nil), m...)})
				}
				notes := func(k int) {
					for j := 0; j < k; j++ {
						add(uint32(j%3), c01Arena.put([]byte{0x90 | byte(t), byte(j & 127), byte(1 + j%100)}))
					}
				}
				nn := r.Pick(9, 10, 11, 24, 40, 200)
				switch pos {
				case 0:
					add(0, c01Arena.put(dump))
					notes(nn)
				case 1:
					notes(nn)
					add(1, c01Arena.put(dump))
					notes(nn)
				default:
					notes(nn)
					add(1, c01Arena.put(dump))
				}
				tr.Close(0)
				sh = append(sh, ref.Ev{Delta: 0, Msg: ref.EOT})
				a.s.Add(tr)
				a.sh.Tracks = append(a.sh.Tracks, sh)
			}
			a.log("payload of %d bytes %s in both tracks, runs of same-status notes around it, NoRunningStatus=%v", n, []string{"first", "in the middle", "last"}[pos], nors)
			c01Check(c, a, "dump among notes")
			c.Count("dumps_among_notes", 1)
		}
	})

	// values obtained from the reader are used with the writer API again: read, modify, write, read
	c.Each("read-modify-write", c.N(3000, 300_000), func(i int64, r *mon.Rand) {
		a := buildHistory(r, 1<<32-1, false)
		var buf bytes.Buffer
		if _, err := a.s.WriteTo(&buf); err != nil {
			return
		}
		s1, err := smf.ReadFrom(bytes.NewReader(buf.Bytes()))
		if err != nil {
			return // decided by the histories group
		}
		sh := &ref.File{Format: a.sh.Format, Division: a.sh.Division}
		for _, t := range a.sh.Tracks {
			sh.Tracks = append(sh.Tracks, append([]ref.Ev(nil), t...))
		}
		b := &apiValue{s: s1, sh: sh}
		b.log("value read back from a written history, then modified:")
		switch r.Intn(5) {
		case 0: // append a new track
			var tr smf.Track
			m := []byte{0x90, 1, 1}
			tr.Add(7, m)
			tr.Close(3)
			s1.Add(tr)
			sh.Tracks = append(sh.Tracks, []ref.Ev{{Delta: 7, Msg: m}, {Delta: 3, Msg: ref.EOT}})
			if sh.Format == 0 {
				sh.Format = 1
			}
			b.log("SMF.Add(new closed track)")
		case 1: // drop the last track (if more than one)
			if len(s1.Tracks) > 1 {
				s1.Tracks = s1.Tracks[:len(s1.Tracks)-1]
				sh.Tracks = sh.Tracks[:len(sh.Tracks)-1]
				b.log("Tracks = Tracks[:n-1]")
			}
		case 2: // re-open the first track: replace its end of track and add events
			t := s1.Tracks[0]
			t = t[:len(t)-1]
			m := ref.Meta(0x06, []byte("m"))
			t.Add(5, m)
			t.Close(9)
			s1.Tracks[0] = t
			st := sh.Tracks[0]
			st = append(append([]ref.Ev(nil), st[:len(st)-1]...), ref.Ev{Delta: 5, Msg: m}, ref.Ev{Delta: 9, Msg: ref.EOT})
			sh.Tracks[0] = st
			b.log("track 0 re-opened, Add(5, marker), Close(9)")
		case 3: // change the time format and the running status option
			tf, div := randomTimeFormat(r)
			s1.TimeFormat = tf
			sh.Division = div
			s1.NoRunningStatus = r.Bool()
			b.log("TimeFormat = %v, NoRunningStatus = %v", tf, s1.NoRunningStatus)
		default: // unchanged
			b.log("(no modification)")
		}
		c.Count("read_modify_write_values", 1)
		c01Check(c, b, fmt.Sprintf("read-modify-write %d", i))
	})

	// a bank: several values written one after the other into one stream and read back with consecutive
	// ReadFrom calls on the same source (regular file, pipe, bytes.Reader, bufio.Reader). Reading one value
	// must not consume bytes of the next one.
	c.Each("bank", c.N(400, 40_000), func(i int64, r *mon.Rand) {
		n := r.Range(2, 5)
		vals := make([]*apiValue, n)
		var all bytes.Buffer
		in := map[string]any{"values_in_the_stream": n}
		var sizes []int
		for k := range vals {
			vals[k] = buildHistory(r, 0x0FFFFFFF, false)
			var err error
			var m int64
			if c.Guard("panic:WriteTo", in, func() { m, err = vals[k].s.WriteTo(&all) }) || err != nil {
				return
			}
			sizes = append(sizes, int(m))
		}
		in["sizes"] = sizes
		b := all.Bytes()
		kind := int(i % 4)
		in["source"] = []string{"regular file (*os.File)", "os.Pipe", "*bytes.Reader", "*bufio.Reader (size 16) created by the caller"}[kind]
		var src io.Reader
		switch kind {
		case 0:
			if c.Dir == "" {
				return
			}
			path := filepath.Join(c.Dir, fmt.Sprintf("c01-bank-%d.mid", c.Shard))
			if err := os.WriteFile(path, b, 0o644); err != nil {
				return
			}
			f, err := os.Open(path)
			if err != nil {
				return
			}
			defer os.Remove(path)
			defer f.Close()
			src = f
		case 1:
			pr, pw, err := os.Pipe()
			if err != nil {
				return
			}
			go func() { pw.Write(b); pw.Close() }()
			defer pr.Close()
			src = pr
		case 2:
			src = bytes.NewReader(b)
		default:
			src = bufio.NewReaderSize(bytes.NewReader(b), 16)
		}
		for k := range vals {
			var s2 *smf.SMF
			var err error
			if c.Guard("panic:ReadFrom", in, func() { s2, err = smf.ReadFrom(src) }) {
				return
			}
			c.Count("bank_reads", 1)
			if err != nil {
				c.Violation("bank-read-error", fmt.Sprintf("value %d of %d written one after the other into one stream (%s): ReadFrom fails: %v", k, n, in["source"], err), in, nil, err.Error())
				return
			}
			if diff := ref.EqualFiles(vals[k].sh, fromLib(s2)); diff != "" {
				c.Violation("bank-roundtrip", fmt.Sprintf("value %d of %d in one stream (%s) reads back differently: %s", k, n, in["source"], diff), in, nil, nil)
				return
			}
		}
		c.DistinctBytes(b, []byte{byte(kind)})
	})

	// the API works on independent values: round trips from 8 goroutines at once must not interfere
	c.Each("concurrent", c.N(8, 200), func(i int64, r *mon.Rand) {
		type job struct {
			a   *apiValue
			out []byte
			got *ref.File
			err error
		}
		jobs := make([]*job, 64)
		for k := range jobs {
			jobs[k] = &job{a: buildHistory(mon.NewRand(c.Seed, "C01conc", fmt.Sprint(i), uint64(k)), 0x0FFFFFFF, false)}
		}
		var wg sync.WaitGroup
		for g := 0; g < 8; g++ {
			wg.Add(1)
			go func(g int) {
				defer wg.Done()
				defer func() {
					if p := recover(); p != nil {
						jobs[g].err = fmt.Errorf("panic: %v", p)
					}
				}()
				for k := g; k < len(jobs); k += 8 {
					j := jobs[k]
					// a destination that takes its time (as a pipe or a socket does): it yields the processor
					// before and in the middle of taking over the bytes it is handed
					buf := &yieldWriter{}
					if _, err := j.a.s.WriteTo(buf); err != nil {
						j.err = err
						continue
					}
					j.out = buf.b
					s2, err := smf.ReadFrom(bytes.NewReader(j.out))
					if err != nil {
						j.err = err
						continue
					}
					j.got = fromLib(s2)
				}
			}(g)
		}
		wg.Wait()
		for k, j := range jobs {
			c.Count("concurrent_roundtrips", 1)
			c.Eval(1)
			if j.err != nil {
				c.Violation("concurrent-error", fmt.Sprintf("round trip %d run concurrently with 7 others failed: %v", k, j.err), j.a.desc, nil, j.err.Error())
			} else if d := ref.EqualFiles(j.a.sh, j.got); d != "" {
				c.Violation("concurrent-roundtrip", "round trip run concurrently with 7 others changed the content: "+d, j.a.desc, nil, nil)
			}
		}
	})

	if c.Thorough() {
		// every metric resolution and every SMPTE division on a small file
		c.EachBlock("all-divisions", 32768+1024, 512, func(lo, hi int64) {
			for k := lo; k < hi; k++ {
				var tf smf.TimeFormat
				var div uint16
				if k < 32768 {
					if k == 0 {
						continue
					}
					tf, div = smf.MetricTicks(k), uint16(k)
				} else {
					x := k - 32768
					sub := uint8(x & 255)
					switch x >> 8 {
					case 0:
						tf, div = smf.SMPTE24(sub), 0xE800|uint16(sub)
					case 1:
						tf, div = smf.SMPTE25(sub), 0xE700|uint16(sub)
					case 2:
						tf, div = smf.SMPTE30DropFrame(sub), 0xE300|uint16(sub)
					default:
						tf, div = smf.SMPTE30(sub), 0xE200|uint16(sub)
					}
				}
				a := &apiValue{s: smf.NewSMF1(), sh: &ref.File{Format: 1, Division: div}}
				a.s.TimeFormat = tf
				var tr smf.Track
				tr.Add(1, []byte{0x90, 1, 1})
				tr.Close(2)
				a.s.Add(tr)
				a.sh.Tracks = [][]ref.Ev{{{Delta: 1, Msg: []byte{0x90, 1, 1}}, {Delta: 2, Msg: ref.EOT}}}
				a.log("TimeFormat %v", tf)
				c01Check(c, a, "all divisions")
				c.Eval(1)
			}
		})
		c.MarkExhaustive("all 32767 metric resolutions and all 4 x 256 SMPTE divisions")
		c.Each("huge", 2, func(i int64, r *mon.Rand) {
			a := &apiValue{s: smf.NewSMF1(), sh: &ref.File{Format: 1, Division: 960}}
			if i == 0 {
				for k := 0; k < 65535; k++ {
					var tr smf.Track
					tr.Add(uint32(k), []byte{0x90 | byte(k&15), byte(k & 127), 1})
					tr.Close(0)
					a.s.Add(tr)
					a.sh.Tracks = append(a.sh.Tracks, []ref.Ev{{Delta: uint32(k), Msg: []byte{0x90 | byte(k&15), byte(k & 127), 1}}, {Delta: 0, Msg: ref.EOT}})
				}
				a.log("65535 tracks")
			} else {
				p := r.Bytes7(2 << 20)
				var tr smf.Track
				ms := [][]byte{ref.Meta(0x01, p), append(append([]byte{0xF0}, p...), 0xF7), ref.Meta(0x7F, p)}
				var sh []ref.Ev
				for _, m := range ms {
					tr.Add(5, m)
					sh = append(sh, ref.Ev{Delta: 5, Msg: m})
				}
				tr.Close(0)
				sh = append(sh, ref.Ev{Delta: 0, Msg: ref.EOT})
				a.s.Add(tr)
				a.sh.Tracks = [][]ref.Ev{sh}
				a.log("2 MiB payloads")
			}
			c01Check(c, a, "huge")
		})
	}
}
