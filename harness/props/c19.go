package props

import (
	"bufio"
	"bytes"
	"fmt"
	"io"
	"os"
	"strconv"
	"strings"
	"sync"
	"time"

	"gitlab.com/gomidi/midi/v2/drivers/midicat"

	"verif/harness/mon"
)

// refLine is the independent encoder of the line format "%d %X\n" (strconv + a hex table, no fmt verbs).
func refLine(ts int32, msg []byte) []byte {
	const hexd = "0123456789ABCDEF"
	out := []byte(strconv.FormatInt(int64(ts), 10))
	out = append(out, ' ')
	for _, b := range msg {
		out = append(out, hexd[b>>4], hexd[b&15])
	}
	return append(out, '\n')
}

// fragmenting readers -------------------------------------------------------

type oneByteReader struct{ b []byte }

func (r *oneByteReader) Read(p []byte) (int, error) {
	if len(p) == 0 {
		return 0, nil
	}
	if len(r.b) == 0 {
		return 0, io.EOF
	}
	p[0] = r.b[0]
	r.b = r.b[1:]
	return 1, nil
}

// chunkReader hands out the data in the given chunk sizes; with eofWithLast the
// final bytes are returned together with io.EOF (allowed by the io.Reader contract).
type chunkReader struct {
	b           []byte
	chunks      []int
	eofWithLast bool
	shortReads  int
	// idle: before chunk k the source has nothing for idle[k%len] calls and says so with (0, nil) - an io.Pipe fed with
	// empty writes, a polling serial source between two bytes. Legal for an io.Reader; the data behind it is intact.
	idle      []int
	idleLeft  int
	idleArmed bool
	chunkNo   int
}

func (r *chunkReader) Read(p []byte) (int, error) {
	if len(p) == 0 {
		return 0, nil
	}
	if len(r.idle) > 0 && len(r.b) > 0 {
		if !r.idleArmed {
			r.idleLeft, r.idleArmed = r.idle[r.chunkNo%len(r.idle)], true
		}
		if r.idleLeft > 0 {
			r.idleLeft--
			return 0, nil
		}
		r.idleArmed = false
		r.chunkNo++
	}
	if len(r.b) == 0 {
		return 0, io.EOF
	}
	n := len(r.b)
	if len(r.chunks) > 0 {
		n = r.chunks[0]
	}
	if n > len(r.b) {
		n = len(r.b)
	}
	if n > len(p) {
		n = len(p)
	}
	if n < len(p) {
		r.shortReads++
	}
	copy(p, r.b[:n])
	r.b = r.b[n:]
	if len(r.chunks) > 0 {
		r.chunks[0] -= n
		if r.chunks[0] <= 0 {
			r.chunks = r.chunks[1:]
		}
	}
	if len(r.b) == 0 && r.eofWithLast {
		return n, io.EOF
	}
	return n, nil
}

type rec struct {
	ts  int32
	msg []byte
}

// lockstep couples two sources: a Read on one side has its data in the caller's buffer and then lets the OTHER side
// complete a Read of its own before it returns (a goroutine that is descheduled between the copy and the return,
// made deterministic). Two independent streams decoded at the same time, as with two open in-ports.
type lockstep struct {
	mu     sync.Mutex
	cond   *sync.Cond
	filled [2]int
	done   [2]bool
	stuck  bool
}

type lockstepSide struct {
	l     *lockstep
	side  int
	b     []byte
	parts []int
}

func (s *lockstepSide) Read(p []byte) (int, error) {
	if len(p) == 0 {
		return 0, nil
	}
	if len(s.b) == 0 {
		s.finish()
		return 0, io.EOF
	}
	n := 1
	if len(s.parts) > 0 {
		n, s.parts = s.parts[0], s.parts[1:]
	}
	if n > len(p) {
		n = len(p)
	}
	if n > len(s.b) {
		n = len(s.b)
	}
	l := s.l
	l.mu.Lock()
	other := 1 - s.side
	snap := l.filled[other]
	copy(p, s.b[:n])
	s.b = s.b[n:]
	l.filled[s.side]++
	l.cond.Broadcast()
	deadline := time.Now().Add(20 * time.Second)
	for l.filled[other] == snap && !l.done[other] && !l.stuck {
		if time.Now().After(deadline) {
			l.stuck = true
			break
		}
		l.cond.Wait()
	}
	l.mu.Unlock()
	return n, nil
}

func (s *lockstepSide) finish() {
	s.l.mu.Lock()
	s.l.done[s.side] = true
	s.l.cond.Broadcast()
	s.l.mu.Unlock()
}

func init() {
	mon.Register(&mon.Spec{
		ID:    "C19",
		Level: "exploration",
		Rule: "seeded record sequences (1..12 records, time stamps over the whole int32 range incl. both extremes and negatives, messages of 1..2000 bytes incl. leading-zero nibbles) written by an independent line encoder and read back " +
			"through 11 reader flavours (a source that answers up to 1000 calls in a row with (0, nil) between its pieces, whole, one byte per Read, random fragments, last bytes together with io.EOF, fragments + EOF-with-data, a real os.Pipe, an io.Pipe fed by a writer goroutine in random fragments, and *bufio.Reader / *bytes.Buffer / *strings.Reader handed over directly); plus mutated lines embedded between two intact lines. " +
			"distinct = distinct byte streams x reader flavour (content hash); every case is non-trivial (at least one record is decoded and compared)",
		Assumptions: []string{
			"the line format is the one the out-port writes: decimal time stamp, one space, upper-case hex pairs, newline",
			"a malformed line is: a character that is no decimal digit in the time stamp field (other than a leading sign), odd number of hex digits, a character that is not a hex digit in the hex field (incl. a second separator, which is what a lost terminator produces), no separator, no terminator before end of stream",
			"lower-case hex digits are not treated as malformed",
		},
		Require: []string{"records_decoded", "reader:onebyte", "reader:eof-with-data", "reader:ospipe", "reader:iopipe", "mutant:odd-hex", "mutant:non-hex", "mutant:no-separator", "mutant:no-terminator", "mutant:lost-terminator", "mutants_of_long_lines", "mutant:char-before-terminator", "mutant:bad-timestamp", "mutant_reader:bufio", "reader:bufio", "intact_line_after_mutant_decoded", "two_stream_sessions", "long_sessions_records_kept", "reader:idle-source"},
		Run:     runC19,
	})
}

func genRec(r *mon.Rand) rec {
	var ts int32
	switch r.Intn(8) {
	case 0:
		ts = []int32{0, 1, -1, 2147483647, -2147483648, 10, -10, 99999}[r.Intn(8)]
	case 1:
		ts = int32(r.Intn(100000))
	default:
		ts = int32(r.U32())
	}
	n := r.Range(1, 12)
	switch r.Intn(10) {
	case 0:
		n = r.Range(1, 2000)
	case 1:
		n = r.Pick(1, 2, 3, 1999, 2000, 1024, 1025)
	}
	msg := r.Bytes(n)
	if r.P(1, 3) {
		for i := range msg {
			if r.P(1, 2) {
				msg[i] &= 0x0F // leading-zero nibble
			}
		}
	}
	if r.P(1, 4) {
		msg[0] = 0x00
	}
	return rec{ts, msg}
}

// decodeAll calls ReadAndConvert until it returns an error.
func decodeAll(rd io.Reader, max int) (out []rec, err error) {
	for i := 0; i < max; i++ {
		b, ts, e := midicat.ReadAndConvert(rd)
		if e != nil {
			return out, e
		}
		out = append(out, rec{ts, b})
	}
	return out, nil
}

func recsEqual(a, b []rec) bool {
	if len(a) != len(b) {
		return false
	}
	for i := range a {
		if a[i].ts != b[i].ts || !bytes.Equal(a[i].msg, b[i].msg) {
			return false
		}
	}
	return true
}

func showRecs(l []rec) []string {
	var out []string
	for _, x := range l {
		out = append(out, fmt.Sprintf("%d %s", x.ts, mon.Hex(head(x.msg, 40))))
	}
	return out
}

func runC19(c *mon.Ctx) {
	flavours := []string{"whole", "onebyte", "fragments", "eof-with-data", "fragments+eof", "ospipe", "iopipe", "bufio", "bytes.Buffer", "strings.Reader", "idle-source"}
	mkReader := func(fl string, stream []byte, r *mon.Rand) (io.Reader, func()) {
		switch fl {
		case "whole":
			return bytes.NewReader(stream), func() {}
		// well-known concrete reader types handed over directly (a decoder may recognise them by type)
		case "bufio":
			return bufio.NewReaderSize(&chunkReader{b: stream, chunks: r.Partition(len(stream), 11)}, r.Pick(16, 17, 64, 4096)), func() {}
		case "bytes.Buffer":
			return bytes.NewBuffer(append([]byte(nil), stream...)), func() {}
		case "strings.Reader":
			return strings.NewReader(string(stream)), func() {}
		case "idle-source":
			// runs of 1..1000 empty reads (0, nil) between the pieces
			return &chunkReader{b: stream, chunks: r.Partition(len(stream), 9), idle: []int{r.Pick(1, 5, 99), 0, r.Pick(100, 101, 250, 1000), 0, 0, 3}}, func() {}
		case "onebyte":
			return &oneByteReader{b: append([]byte(nil), stream...)}, func() {}
		case "fragments":
			return &chunkReader{b: stream, chunks: r.Partition(len(stream), 7)}, func() {}
		case "eof-with-data":
			return &chunkReader{b: stream, eofWithLast: true, chunks: r.Partition(len(stream), 1)}, func() {}
		case "fragments+eof":
			return &chunkReader{b: stream, chunks: r.Partition(len(stream), 5), eofWithLast: true}, func() {}
		case "ospipe":
			pr, pw, err := os.Pipe()
			if err != nil {
				panic(err)
			}
			parts := r.Partition(len(stream), 9)
			go func() {
				off := 0
				for _, n := range parts {
					pw.Write(stream[off : off+n])
					off += n
				}
				pw.Close()
			}()
			return pr, func() { pr.Close() }
		default:
			pr, pw := io.Pipe()
			parts := r.Partition(len(stream), 9)
			go func() {
				off := 0
				for _, n := range parts {
					pw.Write(stream[off : off+n])
					off += n
				}
				pw.Close()
			}()
			return pr, func() { pr.Close() }
		}
	}

	c.Each("roundtrip", c.N(5000, 500_000), func(i int64, r *mon.Rand) {
		n := r.Range(1, 12)
		var recs []rec
		var stream []byte
		for k := 0; k < n; k++ {
			x := genRec(r)
			recs = append(recs, x)
			stream = append(stream, refLine(x.ts, x.msg)...)
		}
		for _, fl := range flavours {
			if (fl == "ospipe" || fl == "iopipe") && i%4 != 0 {
				continue
			}
			rd, done := mkReader(fl, stream, r)
			var got []rec
			var err error
			if c.Guard("panic:roundtrip", mon.Hex(head(stream, 200)), func() { got, err = decodeAll(rd, n+2) }) {
				done()
				continue
			}
			done()
			c.Count("reader:"+fl, 1)
			c.Count("records_decoded", int64(len(got)))
			c.Eval(1)
			if !recsEqual(got, recs) {
				c.Violation("roundtrip:"+fl, fmt.Sprintf("%d records written, reader flavour %q decoded %d records (err %v); first difference: %s", n, fl, len(got), err, firstRecDiff(recs, got)), map[string]any{"stream": string(head(stream, 400)), "reader": fl}, showRecs(recs), showRecs(got))
			} else if err == nil {
				c.Violation("no-eof:"+fl, "reading past the last record returned no error", string(head(stream, 200)), "error", "nil")
			}
			c.DistinctBytes([]byte(fl), stream)
		}
		if i < 2 {
			c.Sample("stream", string(head(stream, 160)))
		}
	})

	// two independent streams decoded at the same time by two goroutines (two open in-ports of the process-backed
	// driver), their Read calls interleaved in lock step: each stream decodes to its own records
	c.Each("two-streams", c.N(600, 30_000), func(i int64, r *mon.Rand) {
		var recs [2][]rec
		var streams [2][]byte
		for sd := 0; sd < 2; sd++ {
			for k, n := 0, r.Range(1, 10); k < n; k++ {
				x := genRec(r)
				if len(x.msg) > 40 {
					x.msg = x.msg[:40]
				}
				recs[sd] = append(recs[sd], x)
				streams[sd] = append(streams[sd], refLine(x.ts, x.msg)...)
			}
		}
		l := &lockstep{}
		l.cond = sync.NewCond(&l.mu)
		// a ticker wakes waiters so that the deadline is noticed even if nobody broadcasts
		stopTick := make(chan struct{})
		go func() {
			t := time.NewTicker(500 * time.Millisecond)
			defer t.Stop()
			for {
				select {
				case <-stopTick:
					return
				case <-t.C:
					l.cond.Broadcast()
				}
			}
		}()
		var got [2][]rec
		var errs [2]error
		var pan [2]any
		var wg sync.WaitGroup
		for sd := 0; sd < 2; sd++ {
			side := &lockstepSide{l: l, side: sd, b: streams[sd]}
			if i%3 == 1 {
				side.parts = r.Partition(len(streams[sd]), 4)
			}
			wg.Add(1)
			go func(sd int, side *lockstepSide) {
				defer wg.Done()
				defer side.finish()
				defer func() { pan[sd] = recover() }()
				got[sd], errs[sd] = decodeAll(side, len(recs[sd])+2)
			}(sd, side)
		}
		wg.Wait()
		close(stopTick)
		if l.stuck {
			c.Inconclusive("two-streams: a lock-step reader waited 20 s for its peer")
			return
		}
		c.Count("two_stream_sessions", 1)
		c.Eval(1)
		for sd := 0; sd < 2; sd++ {
			in := map[string]any{"stream A": string(head(streams[0], 300)), "stream B": string(head(streams[1], 300))}
			if pan[sd] != nil {
				c.Violation("panic:two-streams", fmt.Sprintf("decoding stream %d while another stream is decoded panicked: %v", sd, pan[sd]), in, nil, fmt.Sprint(pan[sd]))
				continue
			}
			c.Count("records_decoded", int64(len(got[sd])))
			if !recsEqual(got[sd], recs[sd]) {
				c.Violation("roundtrip:two-streams", fmt.Sprintf("two streams decoded at the same time by two goroutines (reads interleaved in lock step): stream %d had %d records, %d were decoded (err %v); first difference: %s", sd, len(recs[sd]), len(got[sd]), errs[sd], firstRecDiff(recs[sd], got[sd])), in, showRecs(recs[sd]), showRecs(got[sd]))
			}
		}
		c.DistinctBytes(streams[0], streams[1])
	})

	// a long session: hundreds of thousands of short records decoded from one stream, all of them kept (a recorder);
	// what was decoded first must still be what was written when the last record has been decoded
	c.Each("long-session", c.N(2, 20), func(i int64, r *mon.Rand) {
		n := r.Pick(450_000, 600_000)
		stream := make([]byte, 0, n*12)
		want := make([][]byte, n)
		for k := 0; k < n; k++ {
			var m []byte
			switch k % 5 {
			case 0:
				m = []byte{0xC0 | byte(k&15), byte(k & 127)}
			case 1:
				m = r.Bytes(1 + r.Intn(32))
			default:
				m = []byte{0x90 | byte(k&15), byte(k & 127), byte(k >> 7 & 127)}
			}
			want[k] = m
			stream = append(stream, refLine(int32(k), m)...)
		}
		rd := bufio.NewReaderSize(bytes.NewReader(stream), 4096)
		got := make([][]byte, 0, n)
		var derr error
		c.Guard("panic:roundtrip", fmt.Sprintf("stream of %d records", n), func() {
			for k := 0; k < n; k++ {
				b, ts, e := midicat.ReadAndConvert(rd)
				if e != nil || ts != int32(k) {
					derr = fmt.Errorf("record %d: time stamp %d, error %v", k, ts, e)
					return
				}
				got = append(got, b)
			}
		})
		c.Eval(1)
		c.Count("long_sessions_records_kept", int64(len(got)))
		c.Count("records_decoded", int64(len(got)))
		if derr != nil {
			c.Violation("roundtrip:long-session", fmt.Sprintf("stream of %d records: %v", n, derr), nil, nil, derr.Error())
			return
		}
		for k := range got {
			if !bytes.Equal(got[k], want[k]) {
				c.Violation("roundtrip:long-session", fmt.Sprintf("stream of %d records, all decoded records kept: record %d reads % X after the whole stream was decoded, it was written (and decoded) as % X", n, k, head(got[k], 16), head(want[k], 16)), nil, mon.Hex(want[k]), mon.Hex(got[k]))
				return
			}
		}
		c.DistinctBytes([]byte(fmt.Sprint("longsession", i, n)))
	})

	// mutated lines between two intact lines
	c.Each("mutants", c.N(20_000, 3_000_000), func(i int64, r *mon.Rand) {
		a, b := genRec(r), genRec(r)
		for len(a.msg) > 40 {
			a.msg = a.msg[:40]
		}
		x := genRec(r)
		if i%8 == 7 {
			// a long line (the hex field is decoded in pieces above some size): the mutation may sit anywhere
			x.msg = r.Bytes(r.Pick(1024, 1025, 1500, 2000, 2048, 2049, 3000, 5000))
			c.Count("mutants_of_long_lines", 1)
		} else if len(x.msg) > 30 {
			x.msg = x.msg[:30]
		}
		line := refLine(x.ts, x.msg)
		sp := bytes.IndexByte(line, ' ')
		hexLen := len(line) - sp - 2
		kind := []string{"odd-hex", "non-hex", "no-separator", "no-terminator", "lost-terminator", "char-before-terminator", "bad-timestamp"}[i%7]
		var stream []byte
		expectB := true
		switch kind {
		case "odd-hex":
			// drop or add one hex digit
			if r.Bool() && hexLen > 1 {
				p := sp + 1 + r.Intn(hexLen)
				line = append(append([]byte(nil), line[:p]...), line[p+1:]...)
			} else {
				p := sp + 1 + r.Intn(hexLen+1)
				line = append(append(append([]byte(nil), line[:p]...), "0123456789ABCDEF"[r.Intn(16)]), line[p:]...)
			}
		case "non-hex":
			p := sp + 1 + r.Intn(hexLen)
			bads := []byte("GgXxZ-+.,:;/_ \t#@!\x00\x7f\xff")
			bad := bads[r.Intn(len(bads))]
			line = append([]byte(nil), line...)
			line[p] = bad
		case "char-before-terminator":
			// a carriage return (or another stray character) directly in front of the newline
			bads := []byte("\r\r\r \t\x00;")
			line = append(append(append([]byte(nil), line[:len(line)-1]...), bads[r.Intn(len(bads))]), '\n')
		case "bad-timestamp":
			// a character that is no decimal digit in the time stamp field (replaced or inserted, not a sign in front)
			bads := []byte("xXgG.,eE_:;/#%@!\t\r\x00\x7f\xff")
			bad := bads[r.Intn(len(bads))]
			lo := 0
			if line[0] == '-' {
				lo = 1
			}
			if r.P(1, 8) {
				// a plus sign in front: the encoder never writes one ("%d"), so the line is not one of the protocol
				if line[0] == '-' || r.Bool() {
					line = append([]byte(nil), line...)
					line[0] = '+'
				} else {
					line = append([]byte{'+'}, line...)
				}
			} else if r.Bool() && sp > lo {
				p := lo + r.Intn(sp-lo)
				line = append([]byte(nil), line...)
				line[p] = bad
			} else {
				p := lo + r.Intn(sp-lo+1)
				line = append(append(append([]byte(nil), line[:p]...), bad), line[p:]...)
			}
		case "no-separator":
			line = append(append([]byte(nil), line[:sp]...), line[sp+1:]...)
		case "no-terminator":
			// last line of the stream lacks its newline
			line = line[:len(line)-1]
			expectB = false
		case "lost-terminator":
			// a newline lost in the middle: the mutated line runs into the next one
			line = line[:len(line)-1]
		}
		stream = append(stream, refLine(a.ts, a.msg)...)
		stream = append(stream, line...)
		if kind == "lost-terminator" {
			stream = append(stream, refLine(b.ts, b.msg)...) // swallowed into the malformed line
			b = genRec(r)
		}
		if kind != "no-terminator" {
			stream = append(stream, refLine(b.ts, b.msg)...)
		}
		fl := []string{"whole", "onebyte", "fragments", "fragments+eof", "bufio", "bytes.Buffer", "strings.Reader", "bufio"}[r.Intn(8)]
		c.Count("mutant_reader:"+fl, 1)
		rd, _ := mkReader(fl, stream, r)
		c.Count("mutant:"+kind, 1)
		c.DistinctBytes([]byte(fl), stream)
		in := map[string]any{"stream": strings.ToValidUTF8(string(stream), "?"), "hex": mon.Hex(stream), "reader": fl, "mutation": kind}
		c.Guard("panic:mutant", in, func() {
			m1, t1, e1 := midicat.ReadAndConvert(rd)
			if e1 != nil || t1 != a.ts || !bytes.Equal(m1, a.msg) {
				c.Violation("mutant-first-line:"+kind, fmt.Sprintf("intact first line decoded as (%s, %d, %v)", mon.Hex(m1), t1, e1), in, showRecs([]rec{a}), fmt.Sprint(mon.Hex(m1), t1, e1))
				return
			}
			m2, t2, e2 := midicat.ReadAndConvert(rd)
			if e2 == nil {
				c.Violation("mutant-accepted:"+kind, fmt.Sprintf("malformed line %q (%s) decoded without error as (%d, %s)", strings.ToValidUTF8(string(line), "?"), kind, t2, mon.Hex(m2)), in, "error", fmt.Sprintf("%d %s", t2, mon.Hex(m2)))
				return
			}
			c.Count("mutants_rejected", 1)
			if !expectB {
				// the last line of the stream lacks its terminator: the error must not be the plain io.EOF that a clean
				// end of the stream gives, or the caller cannot tell a lost record from the end
				if e2 == io.EOF {
					c.Violation("mutant-looks-like-clean-end:"+kind, fmt.Sprintf("the stream ends inside the line %q (no terminator): ReadAndConvert returns plain io.EOF, exactly what it returns at a clean end of the stream; the partial record is dropped without an error of its own", strings.ToValidUTF8(string(line), "?")), in, "io.ErrUnexpectedEOF or another error", "io.EOF")
				}
				return
			}
			// the statement allows more than one error for one malformed line, but the first record
			// decoded successfully afterwards must be the next intact line (self-framing)
			var m3 []byte
			var t3 int32
			var e3 error
			for k := 0; k < 4; k++ {
				m3, t3, e3 = midicat.ReadAndConvert(rd)
				if e3 == nil || e3 == io.EOF {
					break
				}
				c.Count("extra_errors_for_one_malformed_line", 1)
			}
			if e3 != nil || t3 != b.ts || !bytes.Equal(m3, b.msg) {
				c.Violation("mutant-next-line:"+kind, fmt.Sprintf("the intact line after the malformed one decoded as (%s, %d, %v)", mon.Hex(m3), t3, e3), in, showRecs([]rec{b}), fmt.Sprint(mon.Hex(m3), t3, e3))
				return
			}
			c.Count("intact_line_after_mutant_decoded", 1)
		})
		if i < 5 {
			c.Sample("mutant:"+kind, strings.ToValidUTF8(string(stream), "?"))
		}
	})
}

func firstRecDiff(want, got []rec) string {
	for i := range want {
		if i >= len(got) {
			return fmt.Sprintf("record %d (%d %s) missing", i, want[i].ts, mon.Hex(head(want[i].msg, 16)))
		}
		if want[i].ts != got[i].ts || !bytes.Equal(want[i].msg, got[i].msg) {
			return fmt.Sprintf("record %d: want (%d, %d bytes %s) got (%d, %d bytes %s)", i, want[i].ts, len(want[i].msg), mon.Hex(head(want[i].msg, 16)), got[i].ts, len(got[i].msg), mon.Hex(head(got[i].msg, 16)))
		}
	}
	return "extra records"
}
