package props

import (
	"bytes"
	"fmt"
	"sort"
	"sync"
	"sync/atomic"
	"time"

	"gitlab.com/gomidi/midi/v2/drivers"
	"gitlab.com/gomidi/midi/v2/smf"

	"verif/harness/mon"
	"verif/harness/ref"
)

type sendRec struct {
	seq  int64
	at   time.Duration // since t0 (monotonic)
	port int
	data []byte
}

type playLog struct {
	seq  int64
	t0   time.Time
	recs []sendRec
}

// fakeOut is a recording drivers.Out.
type fakeOut struct {
	id   int
	log  *playLog
	open bool
	// slow: the time a Send call takes (a serial port at 31250 baud, a busy USB hub). Only set in the
	// workers on the virtual process clock, where the pause is exact and costs nothing.
	slow time.Duration
	// failFrom > 0: from the failFrom-th Send on the port refuses every message with an error (a device that was unplugged;
	// the attempt is recorded all the same). What the library does with that port afterwards is not constrained; the
	// other ports must not notice.
	failFrom, n int
}

func (f *fakeOut) Open() error             { f.open = true; return nil }
func (f *fakeOut) Close() error            { f.open = false; return nil }
func (f *fakeOut) IsOpen() bool            { return f.open }
func (f *fakeOut) Number() int             { return f.id }
func (f *fakeOut) String() string          { return fmt.Sprintf("fake-out-%d", f.id) }
func (f *fakeOut) Underlying() interface{} { return nil }
func (f *fakeOut) Send(b []byte) error {
	now := time.Since(f.log.t0)
	s := atomic.AddInt64(&f.log.seq, 1)
	f.log.recs = append(f.log.recs, sendRec{s, now, f.id, append([]byte(nil), b...)})
	if f.slow > 0 {
		time.Sleep(f.slow)
	}
	if f.n++; f.failFrom > 0 && f.n >= f.failFrom {
		return fmt.Errorf("fake-out-%d: device gone", f.id)
	}
	return nil
}

var _ drivers.Out = &fakeOut{}

func init() {
	mon.Register(&mon.Spec{
		ID:    "C12",
		Level: "exploration",
		Rule: "seeded multi-track files (1..5 tracks, runs of 13..30 events on one tick in one and in several tracks, interleaved tick patterns, tempo events, metas and sysex between the channel messages; fast tempi so a play lasts a few ms) played with Play/MultiPlay to recording fake ports " +
			"under every track selection (all subsets for <= 4 tracks) and seeded track-to-port maps (with and without the -1 default). Every channel message carries a unique id in its data bytes. " +
			"distinct = distinct (file, selection, port map) triples; non-trivial = at least two playable messages share a tick",
		Assumptions: []string{
			"scheduled time of an event = exact integral of the tempo map at its absolute tick (harness/ref/tempo.go), minus one microsecond per tempo segment",
			"'never early' is one-sided: the start instant is read before Play/MultiPlay is called, so machine load can only delay sends, never make the check fire",
			"sysex events in tracks are not constrained (the statement speaks of channel messages and meta events)",
		},
		Require:         []string{"plays", "sends_observed", "same_tick_runs_ge_13", "cross_track_same_tick", "selections_proper_subset", "maps_without_default", "never_early_checks", "play_single_port", "replays_with_rerouted_map", "replays_with_another_map", "late_schedule_plays", "round_gap_plays", "selections_with_repeated_tracks", "selections_of_absent_tracks_only", "long_plays_on_virtual_clock", "slow_ports", "ports_that_refuse_every_message_from_some_send_on", "files_with_tempo_curves_over_32_changes", "files_with_tempo_events_in_two_tracks_and_same_tick_pairs", "undecodable_tempo_events", "plays_of_tracks_with_more_than_65536_messages"},
		FakeTimeWorkers: 2,
		Workers:         16,
		Run:             runC12,
	})
}

type c12Ev struct {
	track, idx int
	abs        int64
	msg        []byte
}

var c12Start = time.Now()

func runC12(c *mon.Ctx) {
	runC12LateSchedule(c)
	runC12RoundGaps(c)
	// slow = true (workers on the virtual process clock): musical tempi and long gaps, a play lasts minutes
	// to days of virtual time and is played in full; the time of every send is exact there
	files := func(i int64, r *mon.Rand, slow bool) {
		nt := r.Range(1, 5)
		res := int64(r.Pick(24, 96, 480))
		tempo := func() uint32 {
			if slow {
				return uint32(r.Pick(250000, 500000, 500001, 1000000, 1<<24-1, 60000, 333333))
			}
			return uint32(r.Pick(500, 1000, 2000))
		}
		tm := &ref.TempoMap{Resolution: res}
		var tracks [][]ref.EncEv
		var truth []c12Ev
		id := 0
		sameRun, cross := false, false
		usedTicks := map[int64]int{}
		// every fourth file has tempo events in two tracks (never on the same tick in both) and pairs of tempo events
		// on one tick within the first of them
		multiTempo := i%4 == 2 && nt >= 2
		tempoTick0, tempoTick1 := map[int64]bool{}, map[int64]bool{}
		tempoInTrack1, sameTickTempoPairs := 0, 0
		for t := 0; t < nt; t++ {
			var tr []ref.EncEv
			var abs int64
			if t == 0 {
				// fast tempo at tick 0, sometimes a change later
				f := tempo()
				tr = append(tr, ref.EncEv{Ev: ref.Ev{Delta: 0, Msg: ref.Meta(0x51, []byte{byte(f >> 16), byte(f >> 8), byte(f)})}})
				tm.Events = append(tm.Events, ref.TempoEv{AbsTick: 0, USPerQuarter: f})
			}
			if t == 0 && i%3 == 1 {
				// a tempo curve: 33..90 tempo changes on neighbouring ticks (a rendered ritardando / accelerando),
				// a note one tick behind each of them
				for q, nq := 0, r.Range(33, 90); q < nq; q++ {
					f := tempo()
					abs++
					tr = append(tr, ref.EncEv{Ev: ref.Ev{Delta: 1, Msg: ref.Meta(0x51, []byte{byte(f >> 16), byte(f >> 8), byte(f)})}})
					if len(tm.Events) == 0 || tm.Events[len(tm.Events)-1].AbsTick <= abs {
						tm.Events = append(tm.Events, ref.TempoEv{AbsTick: abs, USPerQuarter: f})
					}
					if r.P(2, 3) {
						id++
						abs++
						m := []byte{0xB0, byte(id >> 7 & 127), byte(id & 127)}
						truth = append(truth, c12Ev{t, len(tr), abs, m})
						usedTicks[abs] = t + 1
						tr = append(tr, ref.EncEv{Ev: ref.Ev{Delta: 1, Msg: m}})
					}
				}
				c.Count("files_with_tempo_curves_over_32_changes", 1)
			}
			ne := r.Range(0, 40)
			for k := 0; k < ne; {
				run := 1
				if r.P(1, 4) {
					run = r.Range(13, 30)
					sameRun = true
				}
				d := uint32(r.Intn(60))
				if r.P(1, 3) {
					d = uint32(r.Pick(0, 10, 20, 30)) // collide with other tracks
				}
				if slow && r.P(1, 6) {
					d = uint32(r.Pick(960, 10_000, 100_000, 1_000_000)) // bars, minutes, hours
				}
				for j := 0; j < run; j++ {
					abs += int64(d)
					var m []byte
					switch {
					case r.P(1, 12):
						m = ref.Meta(0x06, []byte{byte(id)})
					case r.P(1, 20):
						m = []byte{0xF0, 0x7D, byte(id & 127), 0xF7}
					case t == 1 && i%8 == 5 && r.P(1, 10):
						// a tempo event that cannot be decoded (fewer than three data bytes): it sets no tempo
						m = ref.Meta(0x51, [][]byte{{}, {0x07}, {0x07, 0xA1}}[r.Intn(3)])
						c.Count("undecodable_tempo_events", 1)
					case t == 1 && multiTempo && r.P(1, 4) && abs > 0 && !tempoTick0[abs]:
						// tempo events in a second track (at ticks of their own): the tempo map is that of the whole file
						f := uint32(r.Pick(400, 800, 1500, 3000))
						if slow {
							f = tempo()
						}
						m = ref.Meta(0x51, []byte{byte(f >> 16), byte(f >> 8), byte(f)})
						tm.Events = append(tm.Events, ref.TempoEv{AbsTick: abs, USPerQuarter: f})
						tempoTick1[abs] = true
						tempoInTrack1++
					case t == 0 && (r.P(1, 25) || (multiTempo && r.P(1, 5))) && abs > 0:
						f := uint32(r.Pick(400, 800, 1500, 3000))
						if slow {
							f = tempo()
						}
						m = ref.Meta(0x51, []byte{byte(f >> 16), byte(f >> 8), byte(f)})
						if len(tm.Events) == 0 || tm.Events[len(tm.Events)-1].AbsTick <= abs {
							tm.Events = append(tm.Events, ref.TempoEv{AbsTick: abs, USPerQuarter: f})
						}
						tempoTick0[abs] = true
						if multiTempo && r.P(1, 2) {
							// a second tempo event on the same tick, later in the file: it is the one in force
							tr = append(tr, ref.EncEv{Ev: ref.Ev{Delta: d, Msg: m}})
							d = 0
							f2 := uint32(r.Pick(500_000, 1_000_000, 250_000))
							if !slow {
								f2 = uint32(r.Pick(5000, 9000, 20_000))
							}
							m = ref.Meta(0x51, []byte{byte(f2 >> 16), byte(f2 >> 8), byte(f2)})
							tm.Events = append(tm.Events, ref.TempoEv{AbsTick: abs, USPerQuarter: f2})
							sameTickTempoPairs++
						}
					default:
						id++
						m = []byte{0xB0 | byte(t), byte(id >> 7 & 127), byte(id & 127)}
						truth = append(truth, c12Ev{t, len(tr), abs, m})
						if n, ok := usedTicks[abs]; ok && n != t+1 {
							cross = true
						}
						usedTicks[abs] = t + 1
					}
					tr = append(tr, ref.EncEv{Ev: ref.Ev{Delta: d, Msg: m}, RS: r.Bool()})
					d = 0
					k++
				}
			}
			tr = append(tr, ref.EncEv{Ev: ref.Ev{Delta: uint32(r.Intn(20)), Msg: ref.EOT}})
			tracks = append(tracks, tr)
		}
		// the tempo map of the file: all tempo events by tick, those of one tick in file order
		sort.SliceStable(tm.Events, func(a, b int) bool { return tm.Events[a].AbsTick < tm.Events[b].AbsTick })
		if tempoInTrack1 > 0 && sameTickTempoPairs > 0 && len(tm.Events) > 12 {
			c.Count("files_with_tempo_events_in_two_tracks_and_same_tick_pairs", 1)
		}
		ef := &ref.EncFile{Format: 1, Division: uint16(res), NTracks: -1, Tracks: tracks}
		b := ef.Bytes(nil)
		if sameRun {
			c.Count("same_tick_runs_ge_13", 1)
		}
		if cross {
			c.Count("cross_track_same_tick", 1)
		}

		// selections
		var sels [][]int
		if nt <= 4 {
			for mask := 0; mask < 1<<nt; mask++ {
				var s []int
				for t := 0; t < nt; t++ {
					if mask>>t&1 == 1 {
						s = append(s, t)
					}
				}
				sels = append(sels, s) // empty = all tracks
			}
		} else {
			sels = [][]int{nil, {0}, {1, 3}, {0, 2, 4}, {4}}
		}
		// a selection is a list, not a set: tracks named several times, in any order, also numbers of
		// tracks the file does not have
		for k := 0; k < 2; k++ {
			base := sels[1+r.Intn(len(sels)-1)]
			var m []int
			for _, t := range base {
				for rep := r.Pick(1, 2, 3, 3, 4, 7); rep > 0; rep-- {
					m = append(m, t)
				}
			}
			if r.P(1, 3) {
				m = append(m, nt+r.Intn(3), nt+5)
			}
			for j := len(m) - 1; j > 0; j-- {
				q := r.Intn(j + 1)
				m[j], m[q] = m[q], m[j]
			}
			if len(m) > 0 {
				sels = append(sels, m)
			}
		}
		nPlain := len(sels) - 2
		nRep := len(sels)
		// only numbers of tracks the file does not have: a selection that selects nothing (not "no selection")
		if r.P(1, 3) {
			sels = append(sels, [][]int{{nt}, {nt + 2, nt + 5}, {nt + 40}}[r.Intn(3)])
			c.Count("selections_of_absent_tracks_only", 1)
		}
		for si, sel := range sels {
			if c.Quick() && si > 3 && si < nPlain && !r.P(1, 3) {
				continue
			}
			if si >= nPlain && si < nRep {
				c.Count("selections_with_repeated_tracks", 1)
			}
			selected := func(t int) bool {
				if len(sel) == 0 {
					return true
				}
				for _, x := range sel {
					if x == t {
						return true
					}
				}
				return false
			}
			if len(sel) > 0 && len(sel) < nt {
				c.Count("selections_proper_subset", 1)
			}
			// port map
			log := &playLog{}
			mode := r.Intn(3)
			outs := map[int]drivers.Out{}
			nports := r.Range(1, 3)
			ports := make([]*fakeOut, nports+1)
			for p := range ports {
				ports[p] = &fakeOut{id: p, log: log, open: true}
				if p > 0 && nports > 1 && r.P(1, 10) {
					ports[p].failFrom = 1 + r.Intn(6)
					c.Count("ports_that_refuse_every_message_from_some_send_on", 1)
				}
				if slow && mon.FakeTime && r.P(1, 2) {
					ports[p].slow = time.Duration(r.Pick(1, 5, 20, 100, 300)) * time.Millisecond
					c.Count("slow_ports", 1)
				}
			}
			portOf := func(t int) int { // -1 = not played
				if o, ok := outs[t]; ok {
					return o.Number()
				}
				if o, ok := outs[-1]; ok {
					return o.Number()
				}
				return -1
			}
			switch mode {
			case 0: // single port through Play
			case 1: // explicit + default
				outs[-1] = ports[0]
				for t := 0; t < nt; t++ {
					if r.P(1, 2) {
						outs[t] = ports[1+r.Intn(nports)]
					}
				}
			default: // no default: unmapped tracks are not played
				for t := 0; t < nt; t++ {
					if r.P(2, 3) {
						outs[t] = ports[1+r.Intn(nports)]
					}
				}
				if len(outs) == 0 {
					outs[0] = ports[1]
				}
				c.Count("maps_without_default", 1)
			}
			in := map[string]any{"file": mon.Hex(b), "tracks": nt, "selection": fmt.Sprint(sel), "mode": []string{"Play(one port)", "MultiPlay with default", "MultiPlay without default"}[mode], "portmap": fmt.Sprint(keysOf(outs))}
			trd := smf.ReadTracksFrom(bytes.NewReader(b), sel...)
			if trd.Error() != nil {
				c.Violation("readtracks-error", trd.Error().Error(), in, nil, nil)
				return
			}
			log.t0 = time.Now()
			var err error
			if c.Guard("panic:Play", in, func() {
				if mode == 0 {
					err = trd.Play(ports[0])
					c.Count("play_single_port", 1)
				} else {
					err = trd.MultiPlay(outs)
				}
			}) {
				continue
			}
			refusing := map[int]bool{}
			for _, po := range ports {
				if po.failFrom > 0 && po.n >= po.failFrom {
					refusing[po.id] = true
				}
			}
			if err != nil && len(refusing) == 0 {
				c.Violation("play-error", err.Error(), in, nil, err.Error())
				continue
			}
			c.Count("plays", 1)
			c.Eval(1)
			c.DistinctBytes(b, []byte(fmt.Sprint(sel, mode, keysOf(outs))))
			// ---- expected sends
			var want []c12Ev
			wantPort := map[string]int{}
			for _, e := range truth {
				if !selected(e.track) {
					continue
				}
				p := 0
				if mode != 0 {
					p = portOf(e.track)
				}
				if p < 0 {
					continue
				}
				want = append(want, e)
				wantPort[string(e.msg)] = p
			}
			wantBy := map[string]c12Ev{}
			for _, e := range want {
				wantBy[string(e.msg)] = e
			}
			c.Count("sends_observed", int64(len(log.recs)))
			seen := map[string]int{}
			lastIdx := map[int]int{}
			for t := range tracks {
				lastIdx[t] = -1
			}
			var lastSched int64 = -1
			bad := false
			for _, s := range log.recs {
				e, ok := wantBy[string(s.data)]
				if !ok {
					what := "a message that is not an expected channel message of a selected, mapped track"
					if len(s.data) > 0 && s.data[0] == 0xFF {
						what = "a meta event"
					}
					c.Violation("unexpected-send", fmt.Sprintf("port %d received %s: % X", s.port, what, s.data), in, nil, mon.Hex(s.data))
					bad = true
					break
				}
				seen[string(s.data)]++
				if seen[string(s.data)] > 1 {
					c.Violation("duplicate-send", fmt.Sprintf("message % X of track %d was sent twice", s.data, e.track), in, 1, 2)
					bad = true
					break
				}
				if s.port != wantPort[string(s.data)] {
					c.Violation("wrong-port", fmt.Sprintf("message % X of track %d went to port %d, mapped port is %d", s.data, e.track, s.port, wantPort[string(s.data)]), in, wantPort[string(s.data)], s.port)
					bad = true
					break
				}
				if e.idx < lastIdx[e.track] {
					c.Violation("track-order", fmt.Sprintf("track %d: event %d (% X at tick %d) was sent after event %d of the same track", e.track, e.idx, s.data, e.abs, lastIdx[e.track]), in, nil, sendList(log.recs))
					bad = true
					break
				}
				lastIdx[e.track] = e.idx
				num, segs := tm.Exact(e.abs)
				sched := tm.Micros(num)
				if sched+int64(segs) < lastSched {
					c.Violation("merge-order", fmt.Sprintf("message % X scheduled at %d us was sent after a message scheduled at %d us", s.data, sched, lastSched), in, nil, sendList(log.recs))
					bad = true
					break
				}
				if sched > lastSched {
					lastSched = sched
				}
				c.Count("never_early_checks", 1)
				if s.at.Microseconds() < sched-int64(segs)-1 {
					c.Violation("early", fmt.Sprintf("message % X scheduled at %d us after start was sent %d us after the start instant taken before the call", s.data, sched, s.at.Microseconds()), in, sched, s.at.Microseconds())
					bad = true
					break
				}
			}
			if !bad && len(seen) != len(want) {
				for _, e := range want {
					if seen[string(e.msg)] == 0 && !refusing[wantPort[string(e.msg)]] {
						c.Violation("missing-send", fmt.Sprintf("message % X of track %d (tick %d) was never sent; %d of %d expected messages arrived", e.msg, e.track, e.abs, len(seen), len(want)), in, len(want), len(seen))
						break
					}
				}
			}
		}
		// state carried across calls: one reader, played twice, the SAME map object re-routed in place
		if nt >= 2 {
			log := &playLog{}
			pa, pb, pc := &fakeOut{id: 1, log: log, open: true}, &fakeOut{id: 2, log: log, open: true}, &fakeOut{id: 3, log: log, open: true}
			outs := map[int]drivers.Out{-1: pa, nt - 1: pb}
			trd := smf.ReadTracksFrom(bytes.NewReader(b))
			in := map[string]any{"file": mon.Hex(b), "tracks": nt, "scenario": "MultiPlay(m); m[last track] = other port; MultiPlay(m) on the same TracksReader"}
			if trd.Error() == nil {
				log.t0 = time.Now()
				if !c.Guard("panic:Play", in, func() { trd.MultiPlay(outs) }) {
					first := len(log.recs)
					outs[nt-1] = pc
					outs[0] = pb
					if !c.Guard("panic:Play", in, func() { trd.MultiPlay(outs) }) {
						c.Count("replays_with_rerouted_map", 1)
						want := map[string]int{}
						for _, e := range truth {
							switch e.track {
							case nt - 1:
								want[string(e.msg)] = 3
							case 0:
								want[string(e.msg)] = 2
							default:
								want[string(e.msg)] = 1
							}
						}
						second := log.recs[first:]
						if len(second) != len(truth) {
							c.Violation("replay-count", fmt.Sprintf("second play of the same reader sent %d messages, the file has %d playable ones", len(second), len(truth)), in, len(truth), len(second))
						}
						for _, sr := range second {
							if p, ok := want[string(sr.data)]; !ok || p != sr.port {
								c.Violation("replay-wrong-port", fmt.Sprintf("second play after re-routing the map in place: message % X went to port %d, mapped port is %d", sr.data, sr.port, p), in, p, sr.port)
								break
							}
						}
					}
				}
			}
		}
		// one reader played several times with DIFFERENT maps: tracks without a port in one play get one in the next
		// (or the default appears / disappears); every play sends exactly what its own map says
		if nt >= 2 {
			log := &playLog{}
			ps := []*fakeOut{{id: 1, log: log, open: true}, {id: 2, log: log, open: true}, {id: 3, log: log, open: true}}
			trd := smf.ReadTracksFrom(bytes.NewReader(b))
			var maps []string
			for play := 0; play < 3 && trd.Error() == nil; play++ {
				outs := map[int]drivers.Out{}
				for t := 0; t < nt; t++ {
					if r.P(1, 2) {
						outs[t] = ps[r.Intn(3)]
					}
				}
				if (play > 0 && r.P(1, 3)) || len(outs) == 0 {
					outs[-1] = ps[r.Intn(3)]
				}
				maps = append(maps, fmt.Sprint(keysOf(outs)))
				in := map[string]any{"file": mon.Hex(b), "tracks": nt, "scenario": "the same TracksReader played with one map after the other", "maps (track:port, -1 = default)": fmt.Sprint(maps)}
				first := len(log.recs)
				log.t0 = time.Now()
				var err error
				if c.Guard("panic:Play", in, func() { err = trd.MultiPlay(outs) }) {
					break
				}
				if err != nil {
					c.Violation("play-error", err.Error(), in, nil, err.Error())
					break
				}
				c.Count("replays_with_another_map", 1)
				c.Eval(1)
				want := map[string]int{}
				for _, e := range truth {
					if o, ok := outs[e.track]; ok {
						want[string(e.msg)] = o.(*fakeOut).id
					} else if o, ok := outs[-1]; ok {
						want[string(e.msg)] = o.(*fakeOut).id
					}
				}
				got := log.recs[first:]
				seen := map[string]bool{}
				bad := false
				for _, sr := range got {
					if pt, ok := want[string(sr.data)]; !ok || pt != sr.port || seen[string(sr.data)] {
						c.Violation("replay-other-map", fmt.Sprintf("play %d of the same reader: message % X went to port %d (sent before in this play: %v), this play's map gives port %d (0 = none)", play+1, sr.data, sr.port, seen[string(sr.data)], pt), in, pt, sr.port)
						bad = true
						break
					}
					seen[string(sr.data)] = true
				}
				if !bad && len(got) != len(want) {
					c.Violation("replay-other-map-count", fmt.Sprintf("play %d of the same reader sent %d messages, its map selects %d", play+1, len(got), len(want)), in, len(want), len(got))
					bad = true
				}
				if bad {
					break
				}
			}
		}
		if i < 1 {
			c.Sample("file", map[string]any{"tracks": nt, "playable_messages": len(truth), "bytes": mon.Hex(head(b, 100))})
		}
		if slow {
			c.Count("long_plays_on_virtual_clock", 1)
		}
	}
	c.Each("files", c.N(300, 30_000), func(i int64, r *mon.Rand) { files(i, r, false) })
	// one track with more than 65536 (and more than 131072) playable messages, several per tick; other tracks next to it
	c.EachFT("long-track", c.N(4, 40), func(i int64, r *mon.Rand) {
		n := r.Pick(70_000, 140_000)
		perTick := r.Pick(7, 300, 3, 64)
		longAt := int(i) % 3
		var tracks [][]ref.EncEv
		var want [3][][]byte
		for t := 0; t < 3; t++ {
			var tr []ref.EncEv
			if t == 0 {
				tr = append(tr, ref.EncEv{Ev: ref.Ev{Delta: 0, Msg: ref.Meta(0x51, []byte{0x00, 0x03, 0xE8})}}) // 1000 us per quarter
			}
			cnt := 50
			if t == longAt {
				cnt = n
			}
			for k := 0; k < cnt; k++ {
				id := k + t*1000
				m := []byte{0xB0 | byte(id>>14&15), byte(id >> 7 & 127), byte(id & 127)}
				d := uint32(0)
				if k%perTick == 0 {
					d = 1
				}
				tr = append(tr, ref.EncEv{Ev: ref.Ev{Delta: d, Msg: m}, RS: k%2 == 1})
				want[t] = append(want[t], m)
			}
			tr = append(tr, ref.EncEv{Ev: ref.Ev{Delta: 0, Msg: ref.EOT}})
			tracks = append(tracks, tr)
		}
		b := (&ref.EncFile{Format: 1, Division: 960, NTracks: -1, Tracks: tracks}).Bytes(nil)
		in := map[string]any{"file": fmt.Sprintf("3 tracks, track %d has %d controller messages, %d per tick; %d bytes", longAt, n, perTick, len(b))}
		log := &playLog{}
		outs := map[int]drivers.Out{0: &fakeOut{id: 1, log: log, open: true}, 1: &fakeOut{id: 2, log: log, open: true}, 2: &fakeOut{id: 3, log: log, open: true}}
		trd := smf.ReadTracksFrom(bytes.NewReader(b))
		if trd.Error() != nil {
			c.Violation("readtracks-error", trd.Error().Error(), in, nil, nil)
			return
		}
		log.t0 = time.Now()
		var err error
		if c.Guard("panic:Play", in, func() { err = trd.MultiPlay(outs) }) {
			return
		}
		if err != nil {
			c.Violation("play-error", err.Error(), in, nil, err.Error())
			return
		}
		c.Count("plays", 1)
		c.Count("plays_of_tracks_with_more_than_65536_messages", 1)
		c.Count("sends_observed", int64(len(log.recs)))
		c.Eval(1)
		var got [3][][]byte
		for _, s := range log.recs {
			got[s.port-1] = append(got[s.port-1], s.data)
		}
		for t := 0; t < 3; t++ {
			if len(got[t]) != len(want[t]) {
				c.Violation("missing-send", fmt.Sprintf("track %d has %d channel messages, %d were sent to its port", t, len(want[t]), len(got[t])), in, len(want[t]), len(got[t]))
				return
			}
			for k := range want[t] {
				if !bytes.Equal(got[t][k], want[t][k]) {
					c.Violation("track-order", fmt.Sprintf("track %d: send %d to its port is % X, event %d of the track is % X (messages of one track leave in file order, also within a tick)", t, k, got[t][k], k, want[t][k]), in, mon.Hex(want[t][k]), mon.Hex(got[t][k]))
					return
				}
			}
		}
		c.DistinctBytes([]byte(fmt.Sprint("longtrack", i, n, perTick, longAt)))
	})

	c.EachFT("long-plays", c.N(300, 20_000), func(i int64, r *mon.Rand) {
		t0 := time.Now()
		if t0.Sub(c12Start).Hours() > 120*365*24 {
			// the virtual clock overflows about 250 years after its start: stay far away from that
			files(i, r, false)
			c.Count("long_plays_shortened_virtual_clock_budget", 1)
			return
		}
		files(i, r, true)
		c.MaxOf("longest_case_on_virtual_clock_hours", time.Since(t0).Hours())
	})
}

// runC12LateSchedule plays a file whose last message is scheduled more than 2^32 microseconds (71.6 min)
// after the start and watches the first 300 ms: the early messages must arrive, the late one must not.
// The playing goroutine is left sleeping; it ends with the worker process.
func runC12LateSchedule(c *mon.Ctx) {
	c.Each("late-schedule", c.N(4, 8), func(i int64, r *mon.Rand) {
		// scheduled just above 2^31, 2^32 and 2*2^32 microseconds (time arithmetic that wraps lands in the first
		// few hundred ms), and at a few other late instants; 96 tpq at 120 BPM = 500000/96 us per tick
		targetsUS := []float64{4294967296 + 60000, 2147483648 + 50000, 2*4294967296 + 80000, 4294967296 + 150000, 4.4e9, 9e9, 4294967296 + 5000, 2.6e10}
		lateTicks := uint32(targetsUS[i%8]/(500000.0/96)) - 5
		t0ev := []ref.EncEv{
			{Ev: ref.Ev{Delta: 0, Msg: []byte{0xB0, 1, 1}}}, {Ev: ref.Ev{Delta: 2, Msg: []byte{0xB0, 1, 2}}}, {Ev: ref.Ev{Delta: 3, Msg: []byte{0xB0, 1, 3}}},
			{Ev: ref.Ev{Delta: lateTicks, Msg: []byte{0xB0, 9, 99}}}, {Ev: ref.Ev{Delta: 1, Msg: []byte{0xB0, 9, 100}}}, {Ev: ref.Ev{Delta: 0, Msg: ref.EOT}}}
		t1ev := []ref.EncEv{{Ev: ref.Ev{Delta: 1, Msg: []byte{0xB1, 2, 1}}}, {Ev: ref.Ev{Delta: 5, Msg: []byte{0xB1, 2, 2}}}, {Ev: ref.Ev{Delta: 0, Msg: ref.EOT}}}
		b := (&ref.EncFile{Format: 1, Division: 96, NTracks: -1, Tracks: [][]ref.EncEv{t0ev, t1ev}}).Bytes(nil)
		log := &playLog{}
		var mu sync.Mutex
		pa := &lockedOut{fakeOut: fakeOut{id: 0, log: log, open: true}, mu: &mu}
		trd := smf.ReadTracksFrom(bytes.NewReader(b))
		if trd.Error() != nil {
			c.Violation("readtracks-error", trd.Error().Error(), nil, nil, nil)
			return
		}
		sched := int64(float64(lateTicks+5) * 500000 / 96)
		in := map[string]any{"file": mon.Hex(b), "late message scheduled at (us)": sched, "2^32 us": int64(1) << 32}
		log.t0 = time.Now()
		go func() {
			defer func() { recover() }()
			trd.Play(pa)
		}()
		// watch until the five early messages are there (at most 10 s: machine load only delays them),
		// then a little longer; the verdict below does not depend on how long that took
		var recs []sendRec
		for waited := 0; waited < 100; waited++ {
			time.Sleep(100 * time.Millisecond)
			mu.Lock()
			recs = append(recs[:0], log.recs...)
			mu.Unlock()
			if len(recs) >= 5 && waited >= 2 {
				break
			}
		}
		c.Count("late_schedule_plays", 1)
		early := 0
		for _, s := range recs {
			if len(s.data) == 3 && s.data[1] == 9 {
				c.Violation("early", fmt.Sprintf("message % X scheduled %d us (more than 2^32 us) after the start was sent %d us after the start", s.data, sched, s.at.Microseconds()), in, sched, s.at.Microseconds())
				return
			}
			early++
		}
		if early != 5 {
			// no verdict from the wall clock: exactly-once is decided by the completed plays of the other groups
			c.Count("late_schedule_early_messages_not_all_seen_in_time", 1)
		}
		c.DistinctBytes(b)
	})
}

// runC12RoundGaps plays files whose gaps between messages are exact, round durations (0.5 s, 1 s, 2 s
// to the microsecond) in full: schedulers that chop long sleeps into intervals fail on exact multiples.
func runC12RoundGaps(c *mon.Ctx) {
	c.Each("round-gaps", c.N(2, 6), func(i int64, r *mon.Rand) {
		// 96 ticks per quarter at 120 BPM: 192 ticks = 1 s
		gaps := [][]uint32{{96, 192, 384}, {384, 96}, {192, 192, 192}, {768}, {96, 96, 384}, {384, 384}}[i%6]
		var t0ev, t1ev []ref.EncEv
		t0ev = append(t0ev, ref.EncEv{Ev: ref.Ev{Delta: 2, Msg: []byte{0xB0, 1, 0}}})
		t1ev = append(t1ev, ref.EncEv{Ev: ref.Ev{Delta: 2, Msg: []byte{0xB1, 2, 0}}})
		abs := int64(2)
		type ex struct {
			msg   string
			sched int64
		}
		want := []ex{{string([]byte{0xB0, 1, 0}), 2 * 500000 / 96}, {string([]byte{0xB1, 2, 0}), 2 * 500000 / 96}}
		for k, g := range gaps {
			abs += int64(g)
			m0, m1 := []byte{0xB0, 1, byte(k + 1)}, []byte{0xB1, 2, byte(k + 1)}
			t0ev = append(t0ev, ref.EncEv{Ev: ref.Ev{Delta: g, Msg: m0}})
			t1ev = append(t1ev, ref.EncEv{Ev: ref.Ev{Delta: g, Msg: m1}})
			want = append(want, ex{string(m0), abs * 500000 / 96}, ex{string(m1), abs * 500000 / 96})
		}
		t0ev = append(t0ev, ref.EncEv{Ev: ref.Ev{Delta: 0, Msg: ref.EOT}})
		t1ev = append(t1ev, ref.EncEv{Ev: ref.Ev{Delta: 0, Msg: ref.EOT}})
		b := (&ref.EncFile{Format: 1, Division: 96, NTracks: -1, Tracks: [][]ref.EncEv{t0ev, t1ev}}).Bytes(nil)
		log := &playLog{}
		pa, pb := &fakeOut{id: 0, log: log, open: true}, &fakeOut{id: 1, log: log, open: true}
		trd := smf.ReadTracksFrom(bytes.NewReader(b))
		if trd.Error() != nil {
			return
		}
		in := map[string]any{"file": mon.Hex(b), "gaps in ticks (192 ticks = 1 s)": fmt.Sprint(gaps)}
		log.t0 = time.Now()
		if c.Guard("panic:Play", in, func() { trd.MultiPlay(map[int]drivers.Out{0: pa, 1: pb}) }) {
			return
		}
		c.Count("round_gap_plays", 1)
		sched := map[string]int64{}
		for _, e := range want {
			sched[e.msg] = e.sched
		}
		if len(log.recs) != len(want) {
			c.Violation("missing-send", fmt.Sprintf("%d messages expected, %d sent", len(want), len(log.recs)), in, len(want), len(log.recs))
			return
		}
		for _, sr := range log.recs {
			sc, ok := sched[string(sr.data)]
			if !ok {
				c.Violation("unexpected-send", fmt.Sprintf("unexpected message % X", sr.data), in, nil, nil)
				return
			}
			c.Count("never_early_checks", 1)
			if sr.at.Microseconds() < sc-2 {
				c.Violation("early", fmt.Sprintf("message % X scheduled %d us after the start (after pauses of exactly 0.5/1/2 s) was sent %d us after the start", sr.data, sc, sr.at.Microseconds()), in, sc, sr.at.Microseconds())
				return
			}
		}
		c.DistinctBytes(b)
	})
}

// lockedOut is a fakeOut whose log may be read while a play is still running.
type lockedOut struct {
	fakeOut
	mu *sync.Mutex
}

func (f *lockedOut) Send(b []byte) error {
	f.mu.Lock()
	defer f.mu.Unlock()
	return f.fakeOut.Send(b)
}

func keysOf(m map[int]drivers.Out) map[int]int {
	out := map[int]int{}
	for k, v := range m {
		out[k] = v.Number()
	}
	return out
}

func sendList(l []sendRec) []string {
	var out []string
	for i, s := range l {
		if i >= 80 {
			out = append(out, "...")
			break
		}
		out = append(out, fmt.Sprintf("#%d +%dus port %d: % X", s.seq, s.at.Microseconds(), s.port, s.data))
	}
	return out
}
