package props

import (
	"bytes"
	"fmt"
	"math"
	"time"

	"gitlab.com/gomidi/midi/v2"
	"gitlab.com/gomidi/midi/v2/smf"

	"verif/harness/mon"
	"verif/harness/ref"
)

func init() {
	mon.Register(&mon.Spec{
		ID:    "C11",
		Level: "exploration",
		Rule: "seeded tempo maps (0..60 tempo events in one track, repeated ticks, first event after tick 0, microseconds-per-quarter over the 24-bit range biased to 1, 2, 499999, 500000, 2^24-1, resolutions 1..32767 biased to common ones) encoded at byte level, read with smf.ReadFrom and queried with TimeAt at every segment border +-1, " +
			"consecutive tick pairs and random ticks up to a 3-day horizon; TracksReader.Do times compared with TimeAt; (resolution, tempo, ticks) triples for the duration/tick inverse inside the stated domain. " +
			"distinct = distinct (tempo map, query) pairs / triples by content hash; non-trivial = map with at least one tempo event or query above tick 0",
		Assumptions: []string{
			"exact reference: big-integer rational integral of the tempo map (harness/ref/tempo.go)",
			"tolerance: one microsecond per tempo segment of non-zero length traversed (statement)",
			"horizon: queries up to 3 days of playing time (whatever the tick count), tempo events in a single track",
			"inverse domain: durations below 2^40 microseconds and tick rates below 10^7 ticks per second (statement)",
		},
		Require: []string{"lookahead_queries_inside_do", "tracks_with_events_2^32_ticks_apart", "track_selection_reads", "other_events_with_delta_between_tempo_events", "maps", "queries", "border_queries", "monotonic_pairs", "repeated_tick_maps", "late_first_event_maps", "do_events_compared", "inverse_triples", "queries_beyond_2^32_ticks", "do_filtered_events_compared", "tempo_track_not_first", "format2_maps", "large_tempo_maps", "tempo_maps_with_more_than_32768_events", "undecodable_tempo_events_between_tempo_changes", "full_iterations_started_from_inside_a_do_callback"},
		Run:     runC11,
	})
}

func runC11(c *mon.Ctx) {
	c.Each("maps", c.N(3000, 1_500_000), func(i int64, r *mon.Rand) {
		res := int64(r.Range(1, 32767))
		if r.P(2, 3) {
			res = int64(r.Pick(1, 24, 48, 96, 120, 192, 240, 384, 480, 960, 1920, 15360, 32767))
		}
		ne := r.Intn(61)
		huge := false // every library lookup is linear in the number of tempo events: a sample of the queries for huge maps
		if r.P(1, 3) {
			ne = r.Intn(4)
		}
		if i%500 == 499 {
			ne = r.Pick(300, 1000, 3000) // large maps: lookups and the cumulative pass must scale
			c.Count("large_tempo_maps", 1)
		}
		if i == 1 || (c.Thorough() && i%50_000 == 1) {
			ne = r.Pick(33_000, 34_000, 40_000) // a rendered tempo automation: tens of thousands of tempo events
			huge = true
			c.Count("tempo_maps_with_more_than_32768_events", 1)
		}
		tm := &ref.TempoMap{Resolution: res}
		var tr []ref.EncEv
		var abs int64
		repeated, late := false, false
		for k := 0; k < ne; k++ {
			var d uint32
			switch r.Intn(6) {
			case 0:
				d = 0
				if k > 0 {
					repeated = true
				}
			case 1:
				d = uint32(r.Intn(3))
			case 2:
				d = uint32(r.Intn(100000))
			default:
				d = uint32(r.Intn(int(res)*8 + 1))
			}
			if k == 0 && d > 0 {
				late = true
			}
			abs += int64(d)
			var f uint32
			switch r.Intn(5) {
			case 0:
				f = r.PickU32(1, 2, 499999, 500000, 500001, 1<<24-1, 1<<24-2, 3, 1000)
			case 1:
				f = 1 + r.U32()%(1<<24-1)
			default:
				f = uint32(150000 + r.Intn(2850000)) // 20..400 BPM
			}
			tm.Events = append(tm.Events, ref.TempoEv{AbsTick: abs, USPerQuarter: f})
			tr = append(tr, ref.EncEv{Ev: ref.Ev{Delta: d, Msg: ref.Meta(0x51, []byte{byte(f >> 16), byte(f >> 8), byte(f)})}})
			// other events in between (channel messages, markers, time signatures, at their own deltas) do
			// not matter for the tempo map, but they advance the tick position of what follows
			if r.P(1, 3) {
				var d2 uint32
				if r.Bool() {
					d2 = uint32(r.Intn(int(res)*4 + 1))
				}
				var om []byte
				switch r.Intn(4) {
				case 0:
					om = []byte{0x90, byte(k & 127), 1}
				case 1:
					om = ref.Meta(0x06, []byte("m"))
				case 2:
					// a tempo event that cannot be decoded (fewer than three data bytes) is no tempo change; it is an event like
					// any other between the tempo changes
					om = ref.Meta(0x51, r.Bytes(r.Intn(3)))
					c.Count("undecodable_tempo_events_between_tempo_changes", 1)
				default:
					om = ref.Meta(0x58, []byte{3, 2, 24, 8})
				}
				abs += int64(d2)
				tr = append(tr, ref.EncEv{Ev: ref.Ev{Delta: d2, Msg: om}})
				if d2 > 0 {
					c.Count("other_events_with_delta_between_tempo_events", 1)
				}
			}
		}
		tr = append(tr, ref.EncEv{Ev: ref.Ev{Delta: uint32(r.Intn(1000)), Msg: ref.EOT}})
		ef := &ref.EncFile{Format: 1, Division: uint16(res), NTracks: -1, Tracks: [][]ref.EncEv{tr}}
		// other tracks without tempo events; the tempo track may sit at any index, in any format
		other := func() []ref.EncEv {
			return []ref.EncEv{{Ev: ref.Ev{Delta: 5, Msg: []byte{0x91, 1, 1}}}, {Ev: ref.Ev{Delta: uint32(r.Intn(5000)), Msg: []byte{0x81, 1, 0}}}, {Ev: ref.Ev{Delta: 0, Msg: ref.EOT}}}
		}
		switch r.Intn(4) {
		case 0: // single track, format 0
			ef.Format = 0
		case 1:
			ef.Tracks = append(ef.Tracks, other())
		default:
			nother := r.Range(1, 3)
			pos := r.Intn(nother + 1)
			var trs [][]ref.EncEv
			for k := 0; k <= nother; k++ {
				if k == pos {
					trs = append(trs, tr)
				} else {
					trs = append(trs, other())
				}
			}
			ef.Tracks = trs
			ef.Format = uint16(r.Range(1, 2))
			if pos > 0 {
				c.Count("tempo_track_not_first", 1)
			}
			if ef.Format == 2 {
				c.Count("format2_maps", 1)
			}
		}
		farNum, _ := tm.Exact(5 + 1<<32)
		if i%4 == 1 && tm.Micros(farNum) < 20*24*3600*1_000_000 {
			// (only where tick 2^32 lies within the multi-day horizon of the statement: high resolutions, fast tempi)
			// a track with two events exactly 2^32 ticks apart (16 maximal deltas and one of 16 in between)
			far := []ref.EncEv{{Ev: ref.Ev{Delta: 5, Msg: []byte{0x92, 1, 1}}}}
			for k := 0; k < 16; k++ {
				far = append(far, ref.EncEv{Ev: ref.Ev{Delta: 0x0FFFFFFF, Msg: []byte{0x92, byte(2 + k), 1}}})
			}
			far = append(far, ref.EncEv{Ev: ref.Ev{Delta: 16, Msg: []byte{0x82, 1, 0}}}, ref.EncEv{Ev: ref.Ev{Delta: 0, Msg: ref.EOT}})
			ef.Tracks = append(ef.Tracks, far)
			if ef.Format == 0 {
				ef.Format = 1
			}
			c.Count("tracks_with_events_2^32_ticks_apart", 1)
		}
		b := ef.Bytes(nil)
		in := map[string]any{"resolution": res, "tempo_events(abs tick, us per quarter)": fmt.Sprint(tm.Events), "file": mon.Hex(b)}
		var s *smf.SMF
		var err error
		if c.Guard("panic:ReadFrom", in, func() { s, err = smf.ReadFrom(bytes.NewReader(b)) }) || err != nil {
			if err != nil {
				c.Violation("read-error", err.Error(), in, nil, nil)
			}
			return
		}
		c.Count("maps", 1)
		if repeated {
			c.Count("repeated_tick_maps", 1)
		}
		if late {
			c.Count("late_first_event_maps", 1)
		}
		query := func(t int64, kind string) (int64, bool) {
			var got int64
			in["query_tick"] = t
			if c.Guard("panic:TimeAt", in, func() { got = s.TimeAt(t) }) {
				return 0, false
			}
			num, segs := tm.Exact(t)
			c.Count("queries", 1)
			c.Eval(1)
			if t > 1<<32 {
				c.Count("queries_beyond_2^32_ticks", 1)
			}
			tol := int64(segs)
			if !tm.Within(got, num, tol) {
				c.Violation("timeat:"+kind, fmt.Sprintf("TimeAt(%d) = %d us, exact integral of the tempo map is %d us (%d segments traversed, tolerance %d us)", t, got, tm.Micros(num), segs, tol), in, tm.Micros(num), got)
				return got, false
			}
			if len(tm.Events) > 0 || t > 0 {
				c.DistinctBytes(b, []byte(fmt.Sprint(t)))
			}
			return got, true
		}
		// borders +-1
		for k, e := range tm.Events {
			if huge && k%97 != 0 && k < len(tm.Events)-40 && (k < 32_700 || k > 32_800) {
				continue
			}
			for _, dt := range []int64{-1, 0, 1} {
				if t := e.AbsTick + dt; t >= 0 {
					query(t, "border")
					c.Count("border_queries", 1)
				}
			}
		}
		// horizon: ticks for 3 days at the final tempo
		lastF := int64(500000)
		if len(tm.Events) > 0 {
			lastF = int64(tm.Events[len(tm.Events)-1].USPerQuarter)
		}
		horizon := abs + int64(float64(3*24*3600)*1e6/float64(lastF)*float64(res))
		if horizon > 1<<50 {
			horizon = 1 << 50
		}
		if horizon < 10 {
			horizon = 10
		}
		var qs []int64
		for k := 0; k < 20; k++ {
			switch r.Intn(4) {
			case 0:
				qs = append(qs, int64(r.U64()%uint64(horizon)))
			case 1:
				qs = append(qs, int64(r.U64()%uint64(abs+2)))
			case 2:
				qs = append(qs, int64(r.Intn(int(res)*4+2)))
			default:
				qs = append(qs, horizon-int64(r.Intn(3)))
			}
		}
		qs = append(qs, 0, 1, horizon)
		for _, t := range qs {
			g0, ok0 := query(t, "random")
			g1, ok1 := query(t+1, "random")
			if ok0 && ok1 {
				c.Count("monotonic_pairs", 1)
				if g1 < g0 {
					c.Violation("non-monotonic", fmt.Sprintf("TimeAt(%d) = %d > TimeAt(%d) = %d", t, g0, t+1, g1), in, nil, nil)
				}
			}
		}
		// per-event times handed out by TracksReader.Do
		trd := smf.ReadTracksFrom(bytes.NewReader(b))
		if trd.Error() != nil {
			c.Violation("readtracks-error", trd.Error().Error(), in, nil, nil)
			return
		}
		doEvents := 0
		nested := false
		c.Guard("panic:Do", in, func() {
			var absT = map[int]int64{}
			trd.Do(func(te smf.TrackEvent) {
				absT[te.TrackNo] += int64(te.Delta)
				c.Count("do_events_compared", 1)
				if te.AbsTicks != absT[te.TrackNo] {
					c.Violation("do-absticks", fmt.Sprintf("track %d: AbsTicks %d, sum of deltas %d", te.TrackNo, te.AbsTicks, absT[te.TrackNo]), in, absT[te.TrackNo], te.AbsTicks)
				}
				num, segs := tm.Exact(te.AbsTicks)
				doEvents++
				if huge && doEvents%97 != 0 {
					if !tm.Within(te.AbsMicroSeconds, num, int64(segs)) {
						c.Violation("do-time", fmt.Sprintf("track %d event at tick %d: AbsMicroSeconds %d, exact %d", te.TrackNo, te.AbsTicks, te.AbsMicroSeconds, tm.Micros(num)), in, tm.Micros(num), te.AbsMicroSeconds)
					}
					return
				}
				doEvents--
				if want := trd.SMF().TimeAt(te.AbsTicks); te.AbsMicroSeconds != want || !tm.Within(te.AbsMicroSeconds, num, int64(segs)) {
					c.Violation("do-time", fmt.Sprintf("track %d event at tick %d: AbsMicroSeconds %d, TimeAt %d, exact %d", te.TrackNo, te.AbsTicks, te.AbsMicroSeconds, want, tm.Micros(num)), in, tm.Micros(num), te.AbsMicroSeconds)
				}
				// the callback looks ahead (the end of a note, the next bar) as the last thing it does: a lookup made
				// from inside the iteration must be exact and must not disturb the times of the events that follow
				doEvents++
				la := te.AbsTicks + []int64{1, res, 4 * res, 100_000, abs + 5, 7}[doEvents%6]
				if nl, sl := tm.Exact(la); !tm.Within(trd.SMF().TimeAt(la), nl, int64(sl)) {
					c.Violation("timeat-in-callback", fmt.Sprintf("TimeAt(%d) called from inside the Do callback of the event at tick %d = %d, exact %d", la, te.AbsTicks, trd.SMF().TimeAt(la), tm.Micros(nl)), in, tm.Micros(nl), trd.SMF().TimeAt(la))
				}
				c.Count("lookahead_queries_inside_do", 1)
				// now and then the callback scans the whole file itself (where does the song end?) with a Do of its own on the
				// same reader, then the outer iteration goes on: its remaining times are checked above as before
				if !huge && !nested && i%4 == 2 && doEvents == 3 {
					nested = true
					n := 0
					trd.Do(func(smf.TrackEvent) { n++ })
					c.Count("full_iterations_started_from_inside_a_do_callback", 1)
				}
			})
		})
		// reading a selection of tracks (also selections that leave out the track with the tempo events): the
		// tempo map, and with it every time handed out, stays that of the whole file
		if nt := len(ef.Tracks); nt > 1 && !huge {
			var sel []int
			for t := 0; t < nt; t++ {
				if r.Bool() {
					sel = append(sel, t)
				}
			}
			if len(sel) == 0 || len(sel) == nt {
				sel = []int{r.Intn(nt)}
			}
			trs := smf.ReadTracksFrom(bytes.NewReader(b), sel...)
			if trs.Error() != nil {
				c.Violation("readtracks-error", fmt.Sprintf("ReadTracksFrom with the track selection %v: %v", sel, trs.Error()), in, nil, nil)
				return
			}
			c.Guard("panic:Do+selection", in, func() {
				seen := 0
				trs.Do(func(te smf.TrackEvent) {
					seen++
					c.Count("do_events_compared", 1)
					num, segs := tm.Exact(te.AbsTicks)
					if !tm.Within(te.AbsMicroSeconds, num, int64(segs)) {
						c.Violation("do-time-selection", fmt.Sprintf("track selection %v: track %d event at tick %d: AbsMicroSeconds %d, exact %d", sel, te.TrackNo, te.AbsTicks, te.AbsMicroSeconds, tm.Micros(num)), in, tm.Micros(num), te.AbsMicroSeconds)
					}
				})
				if sm := trs.SMF(); sm != nil {
					for _, q := range qs {
						num, segs := tm.Exact(q)
						if got := sm.TimeAt(q); !tm.Within(got, num, int64(segs)) {
							c.Violation("timeat-selection", fmt.Sprintf("after ReadTracksFrom with the track selection %v: TimeAt(%d) = %d, exact %d", sel, q, got, tm.Micros(num)), in, tm.Micros(num), got)
							break
						}
					}
				}
				if seen > 0 {
					c.Count("track_selection_reads", 1)
				}
			})
		}
		// filtered iteration: the times handed out must still be the tempo-map values
		for _, flt := range [][]midi.Type{{midi.NoteOnMsg}, {midi.NoteOffMsg}, {smf.MetaTempoMsg}, {midi.NoteOnMsg, midi.NoteOffMsg}} {
			if huge {
				break
			}
			trf := smf.ReadTracksFrom(bytes.NewReader(b)).Only(flt...)
			if trf.Error() != nil {
				break
			}
			c.Guard("panic:Do+Only", in, func() {
				trf.Do(func(te smf.TrackEvent) {
					c.Count("do_events_compared", 1)
					c.Count("do_filtered_events_compared", 1)
					num, segs := tm.Exact(te.AbsTicks)
					if !tm.Within(te.AbsMicroSeconds, num, int64(segs)) {
						c.Violation("do-time-filtered", fmt.Sprintf("Only(%v): track %d event at tick %d: AbsMicroSeconds %d, exact %d", flt, te.TrackNo, te.AbsTicks, te.AbsMicroSeconds, tm.Micros(num)), in, tm.Micros(num), te.AbsMicroSeconds)
					}
				})
			})
		}
		if i < 1 {
			c.Sample("tempo-map", map[string]any{"resolution": res, "events": fmt.Sprint(head8(tm.Events)), "queries": qs[:5]})
		}
	})

	// duration/tick inverse
	c.Each("inverse", c.N(200_000, 200_000_000)/1000, func(i int64, r *mon.Rand) {
		for k := 0; k < 1000; k++ {
			res := uint16(r.Range(1, 32767))
			if r.P(1, 2) {
				res = uint16(r.Pick(1, 24, 96, 480, 960, 15360, 32767))
			}
			var bpm float64
			switch r.Intn(3) {
			case 0:
				bpm = 60000000.0 / float64(1+r.U32()%(1<<24-1))
			case 1:
				bpm = float64(r.Range(20, 400))
			default:
				bpm = 20 + float64(r.Intn(380000))/1000
			}
			rate := float64(res) * bpm / 60 // ticks per second
			if rate >= 1e7 {
				continue
			}
			// ticks with duration below 2^40 us
			maxTicks := math.Floor(float64(uint64(1)<<40) / 1e6 * rate)
			if maxTicks > float64(1<<32-1) {
				maxTicks = float64(1<<32 - 1)
			}
			if maxTicks < 1 {
				continue
			}
			n := uint32(r.U64() % uint64(maxTicks))
			if r.P(1, 5) {
				n = uint32(r.Intn(1000))
			}
			if r.P(1, 20) {
				n = uint32(maxTicks) - uint32(r.Intn(2))
			}
			mt := smf.MetricTicks(res)
			var d time.Duration
			var back uint32
			in := map[string]any{"resolution": res, "bpm": bpm, "ticks": n}
			if c.Guard("panic:Duration", in, func() { d = mt.Duration(bpm, n); back = mt.Ticks(bpm, d) }) {
				continue
			}
			c.Count("inverse_triples", 1)
			if back != n {
				c.Violation("inverse", fmt.Sprintf("MetricTicks(%d).Ticks(%v, Duration(%v, %d)=%v) = %d", res, bpm, bpm, n, d, back), in, n, back)
			}
			// the duration itself against exact arithmetic: ns = 60e9*n/(bpm*res)
			want := 60e9 * float64(n) / (bpm * float64(res))
			if math.Abs(float64(d.Nanoseconds())-want) > 1+want*1e-12 {
				c.Violation("duration", fmt.Sprintf("MetricTicks(%d).Duration(%v, %d) = %d ns, want %.1f", res, bpm, n, d.Nanoseconds(), want), in, want, d.Nanoseconds())
			}
		}
		c.Eval(999)
		c.Enumerated(0)
		c.DistinctBytes([]byte(fmt.Sprint("inv", i)))
	})
}

func head8(l []ref.TempoEv) []ref.TempoEv {
	if len(l) > 8 {
		return l[:8]
	}
	return l
}
