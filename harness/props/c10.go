package props

import (
	"bufio"
	"bytes"
	"context"
	"errors"
	"fmt"
	"io"
	"net"
	"os"
	"os/exec"
	"os/signal"
	"path/filepath"
	"strconv"
	"strings"
	"syscall"

	"gitlab.com/gomidi/midi/v2/smf"

	"verif/harness/mon"
	"verif/harness/ref"
)

var errInjected = errors.New("injected I/O fault")

// tempErr looks like a transient network error (Temporary and Timeout report true).
type tempErr struct{}

func (tempErr) Error() string   { return "injected temporary fault" }
func (tempErr) Temporary() bool { return true }
func (tempErr) Timeout() bool   { return true }

// faultKinds: the dynamic type of the injected error must not matter
var faultKinds = []error{smf.ErrFinished, smf.ErrMissing, errInjected, tempErr{}, syscall.EAGAIN, syscall.EINTR, syscall.ENOSPC, os.ErrDeadlineExceeded, io.ErrShortWrite, io.ErrClosedPipe, context.DeadlineExceeded, io.ErrNoProgress, &os.PathError{Op: "write", Path: "x", Err: syscall.EIO}}

// faultWriter accepts bytes up to a byte offset and fails from there on.
// short=true: the failing call reports the bytes that still fitted (n < len(p), err);
// short=false: the failing call accepts nothing.
type faultWriter struct {
	err      error
	limit    int
	short    bool
	full     bool // the failing call reports the complete count together with the error
	oneShot  bool // transient failure: only one call fails, the destination works again afterwards
	noErr    bool // the failing call takes fewer bytes than offered and reports no error at all (against the io.Writer contract, but seen in the wild)
	accepted int
	failed   int
}

func (w *faultWriter) Write(p []byte) (int, error) {
	if w.oneShot && w.failed > 0 {
		w.accepted += len(p)
		return len(p), nil
	}
	if w.accepted+len(p) <= w.limit && w.failed == 0 {
		w.accepted += len(p)
		return len(p), nil
	}
	w.failed++
	if w.full && w.failed == 1 {
		// the destination took the bytes and then failed (a framing writer whose trailer could not be written)
		w.accepted += len(p)
		return len(p), w.fault()
	}
	if w.short && w.failed == 1 {
		n := w.limit - w.accepted
		if n < 0 {
			n = 0
		}
		w.accepted += n
		if w.noErr {
			return n, nil
		}
		return n, w.fault()
	}
	return 0, w.fault()
}

func (w *faultWriter) fault() error {
	if w.err != nil {
		return w.err
	}
	return errInjected
}

// writeFaultKinds: a destination may report any error value, also ones that mean "end of data" on the
// read side (an io.Pipe closed by its consumer with CloseWithError(io.EOF), a closed network channel)
var writeFaultKinds = append(append([]error(nil), faultKinds...), io.EOF, io.ErrUnexpectedEOF, fmt.Errorf("write to peer: %w", io.EOF), os.ErrClosed, net.ErrClosed)

// faultReader delivers the data up to a byte offset and then fails sticky with a non-EOF error.
// withData=true: the bytes before the offset and the error come in the same call where possible.
type faultReader struct {
	err      error
	b        []byte
	off      int
	limit    int
	withData bool
	returned int // how often the injected error was handed to the caller
}

func (r *faultReader) Read(p []byte) (int, error) {
	if len(p) == 0 {
		return 0, nil
	}
	if r.off >= r.limit {
		r.returned++
		return 0, r.fault()
	}
	n := len(p)
	if r.off+n > r.limit {
		n = r.limit - r.off
	}
	copy(p, r.b[r.off:r.off+n])
	r.off += n
	if r.off >= r.limit && r.withData {
		r.returned++
		return n, r.fault()
	}
	return n, nil
}

// faultByteReader is a faultReader that also offers ReadByte (io.ByteReader), as bufio.Reader, bytes.Reader and many
// user types do: a library that prefers ReadByte where it is offered must report its failures just the same.
type faultByteReader struct{ faultReader }

func (r *faultByteReader) ReadByte() (byte, error) {
	var p [1]byte
	n, err := r.faultReader.Read(p[:])
	if n == 1 {
		// a byte that came together with the error is handed out first; the sticky error follows on the next call
		return p[0], nil
	}
	return 0, err
}

// faultSource wraps the fault reader in one of the source kinds; it returns the reader to hand to the library
func faultSource(rd *faultReader, kind int) (io.Reader, *faultReader, string) {
	switch kind % 3 {
	case 1:
		br := &faultByteReader{*rd}
		return br, &br.faultReader, "source with ReadByte"
	case 2:
		return bufio.NewReaderSize(rd, 16), rd, "*bufio.Reader (16 bytes) on the failing source"
	}
	return rd, rd, "plain io.Reader"
}

func (r *faultReader) fault() error {
	if r.err != nil {
		return r.err
	}
	return errInjected
}

func init() {
	mon.Register(&mon.Spec{
		ID:    "C10",
		Level: "fault_enumeration",
		Rule: "fault enumeration: for seeded files (API histories of C01), a failing destination at EVERY byte offset of the output stream in two modes (call rejected / short write with error) and a failing source (sticky non-EOF error, with and without data in the failing call) at EVERY byte offset of the input stream; " +
			"plus real files: smf.WriteFile under a kernel file-size limit (RLIMIT_FSIZE, EFBIG) at every byte offset of the file. distinct = distinct (file, fault offset, mode) triples; non-trivial = the injected fault was actually returned to the library",
		Assumptions: []string{
			"a write fault is any error from the destination's Write (incl. a short count with error); a read fault is a non-EOF error returned by the source's Read at least once; the dynamic type of the error rotates over a dictionary (plain, Temporary/Timeout, EAGAIN, EINTR, ENOSPC, deadline exceeded, short write, closed pipe, ...)",
			"faults placed after the last byte the reader consumes are not counted (the library never sees them)",
			"WriteFile faults are injected by the kernel through RLIMIT_FSIZE with SIGXFSZ ignored (write returns EFBIG after a short write up to the limit)",
		},
		Require: []string{"write_faults_full_count", "write_faults_transient", "write_faults_transient_short", "write_faults_short_count_without_error", "write_fault_files_above_64KiB", "write_faults_injected", "write_faults_short", "write_faults_after_header", "read_faults_returned", "read_faults_with_data", "writefile_faults", "writefile_close_faults", "unfaulted_writes", "read_faults_big_payload"},
		Run:     runC10,
	})
}

func runC10(c *mon.Ctx) {
	c.Each("files", c.N(200, 20_000), func(i int64, r *mon.Rand) {
		a := buildHistory(r, 1<<32-1, false)
		var refBuf bytes.Buffer
		n0, err := a.s.WriteTo(&refBuf)
		if err != nil {
			return
		}
		b := refBuf.Bytes()
		S := len(b)
		if S > 1500 {
			S = 1500 // bound per-file work; offsets beyond are sampled below
		}
		offsets := make([]int, 0, S+8)
		for k := 0; k < S; k++ {
			offsets = append(offsets, k)
		}
		for k := 0; k < 8 && len(b) > 1500; k++ {
			offsets = append(offsets, 1500+r.Intn(len(b)-1500))
		}
		in := map[string]any{"history": a.desc, "size": len(b)}
		// ---- destination faults
		for _, k := range offsets {
			for mode := 0; mode < 6; mode++ {
				short := mode == 1 || mode == 4 || mode == 5
				if mode >= 3 {
					c.Count("write_faults_transient", 1)
				}
				w := &faultWriter{limit: k, short: short, full: mode == 2, oneShot: mode >= 3, err: writeFaultKinds[(k+int(i))%len(writeFaultKinds)]}
				if mode == 5 {
					// one call takes fewer bytes than offered WITHOUT an error; later calls work: bytes are missing in the
					// destination, so WriteTo must not return nil ("nil only if every byte was accepted")
					w.noErr = true
					c.Count("write_faults_short_count_without_error", 1)
				}
				if mode == 4 {
					// the destination takes part of the data, says so, and works again afterwards
					c.Count("write_faults_transient_short", 1)
					if (k+int(i))%2 == 0 {
						w.err = io.ErrShortWrite
					}
				}
				var n int64
				var err error
				in["fault_offset"], in["short_write"], in["full_count_with_error"], in["error_kind"], in["transient"] = k, short, mode == 2, fmt.Sprintf("%T %v", w.err, w.err), mode >= 3
				if mode == 2 {
					c.Count("write_faults_full_count", 1)
				}
				c.SetAdd("write_error_kinds", fmt.Sprintf("%T", w.err))
				if c.Guard("panic:WriteTo", in, func() { n, err = a.s.WriteTo(w) }) {
					continue
				}
				c.Eval(1)
				if w.failed == 0 {
					c.Inconclusive("harness error: fault writer never failed although the limit is below the file size")
					continue
				}
				c.Count("write_faults_injected", 1)
				if short {
					c.Count("write_faults_short", 1)
				}
				if k >= 14 {
					c.Count("write_faults_after_header", 1)
				}
				if err == nil {
					c.Violation("write-fault-swallowed", fmt.Sprintf("destination failed at byte offset %d of %d (short=%v, complete count with the error=%v, accepted %d bytes) but WriteTo returned nil (size %d)", k, len(b), short, mode == 2, w.accepted, n), in, "error", fmt.Sprintf("nil, size %d", n))
				}
				c.DistinctBytes([]byte(fmt.Sprint(i, k, mode)))
			}
		}
		// no fault: nil and exact size
		w := &faultWriter{limit: len(b) + 10}
		n, err := a.s.WriteTo(w)
		c.Count("unfaulted_writes", 1)
		if err != nil || n != int64(w.accepted) || n != n0 || w.accepted != len(b) {
			c.Violation("unfaulted-size", fmt.Sprintf("WriteTo without fault: err=%v size=%d accepted=%d", err, n, w.accepted), in, len(b), n)
		}
		// ---- source faults
		for _, k := range offsets {
			for _, withData := range []bool{false, true} {
				src, rd, srcKind := faultSource(&faultReader{b: b, limit: k, withData: withData, err: faultKinds[(k+int(i)+3)%len(faultKinds)]}, k+int(i))
				var s *smf.SMF
				var err error
				in["fault_offset"], in["error_with_data"], in["error_kind"], in["source_kind"] = k, withData, fmt.Sprintf("%T", rd.err), srcKind
				c.SetAdd("read_error_kinds", fmt.Sprintf("%T", rd.err))
				c.SetAdd("read_fault_source_kinds", srcKind)
				if c.Guard("panic:ReadFrom", in, func() { s, err = smf.ReadFrom(src) }) {
					continue
				}
				c.Eval(1)
				if rd.returned == 0 {
					c.Count("read_faults_not_reached", 1)
					continue
				}
				c.Count("read_faults_returned", 1)
				if withData {
					c.Count("read_faults_with_data", 1)
				}
				if err == nil {
					nt := -1
					if s != nil {
						nt = len(s.Tracks)
					}
					c.Violation("read-fault-swallowed", fmt.Sprintf("source (%s) failed with a non-EOF error at byte offset %d of %d (returned %d times) but ReadFrom returned nil error (value with %d tracks)", srcKind, k, len(b), rd.returned, nt), in, "error", "nil")
				}
				c.DistinctBytes([]byte(fmt.Sprint("r", i, k, withData)))
			}
		}
		if i < 1 {
			c.Sample("file", map[string]any{"size": len(b), "write fault offsets": fmt.Sprintf("0..%d x {reject, short}", S-1), "read fault offsets": fmt.Sprintf("0..%d x {error alone, error with data}", S-1)})
		}
	})

	// ---- files with a payload above the chunked-read threshold: faults around and inside the payload
	c.Each("big-payload", c.N(16, 200), func(i int64, r *mon.Rand) {
		n := r.Pick(4096, 4097, 5000, 8192, 16384, 16385)
		if i%4 == 3 {
			n = r.Pick(70_000, 300_000, 1<<20+4096, 2<<20) // chunks above 64 KiB / 256 KiB / 1 MiB
			c.Count("write_fault_files_above_64KiB", 1)
		}
		p := r.Bytes7(n)
		var big []byte
		if i%2 == 0 {
			big = ref.Meta(0x01, p)
		} else {
			big = append(append([]byte{0xF0}, p...), 0xF7)
		}
		s := smf.NewSMF1()
		var t1, t2 smf.Track
		t1.Add(0, []byte{0x90, 1, 1})
		t1.Close(0)
		t2.Add(1, []byte{0x91, 2, 2})
		t2.Add(0, big)
		t2.Add(5, []byte{0x81, 2, 0})
		t2.Close(0)
		if i%4 < 2 {
			s.Add(t1)
			s.Add(t2) // big event in the last track
		} else {
			s.Add(t2)
			s.Add(t1)
		}
		var buf bytes.Buffer
		if _, err := s.WriteTo(&buf); err != nil {
			return
		}
		b := buf.Bytes()
		start := bytes.Index(b, p[:16])
		var offs []int
		for k := 0; k < len(b); k++ {
			if n > 20_000 {
				continue // large files: a short list of offsets, below
			}
			if k < 120 || k > len(b)-60 || (k >= start-12 && k < start+12) || (k%4096) < 3 || (k%4096) > 4093 || r.P(1, 200) || c.Thorough() {
				offs = append(offs, k)
			}
		}
		if n > 20_000 {
			// every byte of the file header and of both chunk heads, around the payload start, the last bytes, and
			// a few offsets inside the payload (block boundaries of 4 KiB, 64 KiB, 1 MiB and random ones)
			for k := 0; k < 60 && k < len(b); k++ {
				offs = append(offs, k)
			}
			for at := bytes.Index(b[14:], []byte("MTrk")); at >= 0; {
				at += 14
				for k := at - 2; k < at+12 && k < len(b); k++ {
					if k >= 60 {
						offs = append(offs, k)
					}
				}
				nx := bytes.Index(b[at+4:], []byte("MTrk"))
				if nx < 0 {
					break
				}
				at = at + 4 + nx - 14
			}
			for k := start - 12; k < start+12; k++ {
				if k >= 60 {
					offs = append(offs, k)
				}
			}
			for _, k := range []int{start + 4096, start + 65536, start + 65537, start + 1<<20, start + n/2, len(b) - 20, len(b) - 2, len(b) - 1, start + r.Intn(n), start + r.Intn(n)} {
				if k > 60 && k < len(b) {
					offs = append(offs, k)
				}
			}
		}
		in := map[string]any{"file": fmt.Sprintf("%d bytes with one payload of %d bytes starting at offset %d", len(b), n, start)}
		for _, k := range offs {
			for _, withData := range []bool{false, true} {
				src, rd, srcKind := faultSource(&faultReader{b: b, limit: k, withData: withData}, k+int(i))
				var v *smf.SMF
				var err error
				in["fault_offset"], in["error_with_data"], in["source_kind"] = k, withData, srcKind
				if c.Guard("panic:ReadFrom", in, func() { v, err = smf.ReadFrom(src) }) {
					continue
				}
				c.Eval(1)
				if rd.returned == 0 {
					continue
				}
				c.Count("read_faults_returned", 1)
				c.Count("read_faults_big_payload", 1)
				if err == nil {
					nt := -1
					if v != nil {
						nt = len(v.Tracks)
					}
					c.Violation("read-fault-swallowed", fmt.Sprintf("source failed with a non-EOF error at byte offset %d of %d (payload of %d bytes starts at %d) but ReadFrom returned nil error (value with %d tracks)", k, len(b), n, start, nt), in, "error", "nil")
				}
			}
			for mode := 0; mode < 5; mode++ {
				short := mode == 1 || mode >= 3
				w := &faultWriter{limit: k, short: short, oneShot: mode >= 2}
				if mode == 3 {
					w.err = io.ErrShortWrite
				}
				if mode == 4 {
					w.noErr = true // fewer bytes taken than offered, no error at all
				}
				_, err := s.WriteTo(w)
				c.Count("write_faults_injected", 1)
				c.Eval(1)
				if w.failed > 0 && err == nil {
					c.Violation("write-fault-swallowed", fmt.Sprintf("destination failed at byte offset %d of %d (short=%v, transient=%v) but WriteTo returned nil", k, len(b), short, mode >= 2), in, "error", "nil")
				}
			}
		}
		c.DistinctBytes([]byte(fmt.Sprint("big", i, n)))
	})

	// ---- real files: WriteFile under RLIMIT_FSIZE at every byte offset
	c.Each("writefile", c.N(24, 2000), func(i int64, r *mon.Rand) {
		a := buildHistory(r, 1<<32-1, false)
		var refBuf bytes.Buffer
		if _, err := a.s.WriteTo(&refBuf); err != nil {
			return
		}
		size := refBuf.Len()
		if size > 600 {
			return
		}
		signal.Ignore(syscall.SIGXFSZ)
		var old syscall.Rlimit
		if err := syscall.Getrlimit(syscall.RLIMIT_FSIZE, &old); err != nil {
			c.Inconclusive("getrlimit failed: " + err.Error())
			return
		}
		dir := c.Dir
		if dir == "" {
			dir = os.TempDir()
		}
		path := filepath.Join(dir, fmt.Sprintf("wf-%d-%d.mid", c.Shard, i))
		defer os.Remove(path)
		for k := 0; k < size; k++ {
			lim := old
			lim.Cur = uint64(k)
			if err := syscall.Setrlimit(syscall.RLIMIT_FSIZE, &lim); err != nil {
				c.Inconclusive("setrlimit failed: " + err.Error())
				return
			}
			err := a.s.WriteFile(path)
			syscall.Setrlimit(syscall.RLIMIT_FSIZE, &old)
			c.Count("writefile_faults", 1)
			c.Eval(1)
			_, statErr := os.Stat(path)
			in := map[string]any{"history": a.desc, "size": size, "file_size_limit": k}
			if err == nil {
				c.Violation("writefile-fault-swallowed", fmt.Sprintf("the kernel refused to write beyond byte %d of %d (EFBIG) but WriteFile returned nil", k, size), in, "error", "nil")
			} else if statErr == nil {
				c.Violation("writefile-partial-left", fmt.Sprintf("WriteFile failed (%v) but left the partial file behind", err), in, "file removed", "file exists")
			}
			os.Remove(path)
			c.DistinctBytes([]byte(fmt.Sprint("wf", i, k)))
		}
		// and without limit the file is complete
		if err := a.s.WriteFile(path); err != nil {
			c.Violation("writefile-unfaulted", fmt.Sprintf("WriteFile without fault fails: %v", err), a.desc, nil, err.Error())
		} else if got, _ := os.ReadFile(path); !bytes.Equal(got, refBuf.Bytes()) {
			c.Violation("writefile-content", "WriteFile content differs from WriteTo", a.desc, nil, nil)
		}
	})

	// ---- real files: the destination reports the failure when it is closed (what a network or quota-limited file
	// system does: every write is accepted, close returns ENOSPC / EDQUOT / EIO and the data is not there). WriteFile runs
	// in a child process under strace, which lets the close of exactly that file fail; two controls per case make
	// sure the injection did what it should (a plain os.File.Close on the same path reports the error; WriteFile
	// without injection succeeds).
	c.Each("writefile-close-fails", c.N(6, 200), func(i int64, r *mon.Rand) {
		strace, err := exec.LookPath("strace")
		if err != nil {
			c.Inconclusive("strace not found: " + err.Error())
			return
		}
		exe, err := os.Executable()
		if err != nil {
			c.Inconclusive("os.Executable: " + err.Error())
			return
		}
		dir := c.Dir
		if dir == "" {
			dir = os.TempDir()
		}
		path := filepath.Join(dir, fmt.Sprintf("wfc-%d-%d.mid", c.Shard, i))
		defer os.Remove(path)
		errno := []string{"ENOSPC", "EDQUOT", "EIO"}[i%3]
		run := func(mode string, inject bool) (string, bool) {
			os.Remove(path)
			args := []string{"-f", "-qq", "-o", "/dev/null", "-P", path, "-e", "trace=close"}
			if inject {
				args = append(args, "-e", "inject=close:error="+errno)
			}
			args = append(args, exe, "-probe", "c10-writefile", mode, path, fmt.Sprint(c.Seed), fmt.Sprint(i))
			cmd := exec.Command(strace, args...)
			cmd.Env = append(os.Environ(), "GOMAXPROCS=2")
			out, err := cmd.Output()
			if err != nil {
				c.Inconclusive(fmt.Sprintf("probe %s under strace did not run: %v (%s)", mode, err, head(out, 200)))
				return "", false
			}
			return strings.TrimSpace(string(out)), true
		}
		in := map[string]any{"case": i, "close_fails_with": errno}
		// control 1: the injection reaches the close of that file
		if out, ok := run("plainclose", true); !ok {
			return
		} else if !strings.HasPrefix(out, "close=error") {
			c.Inconclusive("control: os.File.Close under the injection did not fail: " + out)
			return
		}
		// control 2: without injection WriteFile succeeds and the file is complete
		out, ok := run("writefile", false)
		if !ok {
			return
		}
		if !strings.HasPrefix(out, "err=nil exists=true complete=true") {
			if strings.HasPrefix(out, "skip") {
				return
			}
			c.Violation("writefile-unfaulted", "WriteFile in the child process without fault: "+out, in, "err=nil exists=true complete=true", out)
			return
		}
		out, ok = run("writefile", true)
		if !ok {
			return
		}
		c.Count("writefile_close_faults", 1)
		c.Eval(1)
		c.DistinctBytes([]byte(fmt.Sprint("wfc", i, errno)))
		switch {
		case strings.HasPrefix(out, "err=nil"):
			c.Violation("writefile-close-error-swallowed", fmt.Sprintf("closing the destination file failed with %s (every write had been accepted) but WriteFile returned nil", errno), in, "error", out)
		case strings.Contains(out, "exists=true"):
			c.Violation("writefile-partial-left", "WriteFile failed at close but left the file behind: "+out, in, "file removed", out)
		}
	})
}

func init() {
	mon.Probes["c10-writefile"] = func(args []string) {
		mode, path := args[0], args[1]
		seed, _ := strconv.ParseUint(args[2], 10, 64)
		if mode == "plainclose" {
			f, err := os.Create(path)
			if err != nil {
				fmt.Println("create failed:", err)
				return
			}
			f.Write([]byte("MThd"))
			if err := f.Close(); err != nil {
				fmt.Println("close=error", err)
			} else {
				fmt.Println("close=nil")
			}
			return
		}
		a := buildHistory(mon.NewRand(seed, "C10wfc", args[3], 0), 0x0FFFFFFF, false)
		var refBuf bytes.Buffer
		if _, err := a.s.WriteTo(&refBuf); err != nil {
			fmt.Println("skip: value cannot be written:", err)
			return
		}
		err := a.s.WriteFile(path)
		got, rerr := os.ReadFile(path)
		res := "err=nil"
		if err != nil {
			res = "err=error(" + err.Error() + ")"
		}
		fmt.Printf("%s exists=%v complete=%v\n", res, rerr == nil, bytes.Equal(got, refBuf.Bytes()))
	}
}
