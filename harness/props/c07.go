package props

import (
	"bytes"
	"fmt"
	"sync"
	"sync/atomic"

	"gitlab.com/gomidi/midi/v2"
	"gitlab.com/gomidi/midi/v2/drivers/testdrv"

	"verif/harness/mon"
	"verif/harness/ref"
)

// accessor bit positions (type-specific accessors; derived views are not part of the mask)
const (
	aNoteOn = 1 << iota
	aNoteOff
	aPolyAT
	aCC
	aPC
	aAT
	aPB
	aMTC
	aSongSel
	aSPP
	aSysEx
)

var accNames = []string{"GetNoteOn", "GetNoteOff", "GetPolyAfterTouch", "GetControlChange", "GetProgramChange", "GetAfterTouch", "GetPitchBend", "GetMTC", "GetSongSelect", "GetSPP", "GetSysEx"}

func maskNames(m int) []string {
	var l []string
	for i, n := range accNames {
		if m&(1<<i) != 0 {
			l = append(l, n)
		}
	}
	return l
}

// accMask runs every type-specific accessor of midi.Message with non-nil out parameters.
func accMask(m midi.Message) (mask int) {
	var a, b, c uint8
	var rel int16
	var abs, spp uint16
	var sx []byte
	if m.GetNoteOn(&a, &b, &c) {
		mask |= aNoteOn
	}
	if m.GetNoteOff(&a, &b, &c) {
		mask |= aNoteOff
	}
	if m.GetPolyAfterTouch(&a, &b, &c) {
		mask |= aPolyAT
	}
	if m.GetControlChange(&a, &b, &c) {
		mask |= aCC
	}
	if m.GetProgramChange(&a, &b) {
		mask |= aPC
	}
	if m.GetAfterTouch(&a, &b) {
		mask |= aAT
	}
	if m.GetPitchBend(&a, &rel, &abs) {
		mask |= aPB
	}
	if m.GetMTC(&a) {
		mask |= aMTC
	}
	if m.GetSongSelect(&a) {
		mask |= aSongSel
	}
	if m.GetSPP(&spp) {
		mask |= aSPP
	}
	if m.GetSysEx(&sx) {
		mask |= aSysEx
	}
	return
}

type loop struct {
	drv *testdrv.Driver
	got []midi.Message
	ts  []int32
	snd func(midi.Message) error
	// the receiver keeps the messages it was handed (a slave that assembles a time code from eight quarter
	// frames, a recorder): the last 16 delivered slices and what they held when the callback returned
	held     [16]midi.Message
	heldWant [16][]byte
	heldN    int
	changed  string // first observation of a kept message that changed after its delivery
	heldOK   int64
	opts     []midi.Option
	stop     func()
}

func newLoop(opts ...midi.Option) *loop {
	l := &loop{drv: testdrv.New("c07")}
	outs, _ := l.drv.Outs()
	l.opts = opts
	l.listen()
	var err error
	l.snd, err = midi.SendTo(outs[0])
	if err != nil {
		panic(err)
	}
	return l
}

// relisten ends the listener and starts the next one on the same port of the same driver (a program that
// restarts its input handling): what the out-port sent to the previous listener is of no concern to this one.
func (l *loop) relisten() {
	l.stop()
	l.listen()
}

func (l *loop) listen() {
	ins, _ := l.drv.Ins()
	stop, err := midi.ListenTo(ins[0], func(m midi.Message, ts int32) {
		l.got = append(l.got, append(midi.Message(nil), m...))
		l.ts = append(l.ts, ts)
		for k := range m { // the receiver edits what it was handed
			m[k] ^= 0x2A
		}
		for k := 0; k < len(l.held) && k < l.heldN; k++ {
			if !bytes.Equal(l.held[k], l.heldWant[k]) {
				if l.changed == "" {
					l.changed = fmt.Sprintf("a message the receiver kept (delivered as % X, left by the receiver as % X) reads % X after a later delivery (% X)", xor2A(l.heldWant[k]), l.heldWant[k], []byte(l.held[k]), xor2A(m))
				}
			} else {
				l.heldOK++
			}
		}
		slot := l.heldN % len(l.held)
		l.held[slot], l.heldWant[slot] = m, append([]byte(nil), m...)
		l.heldN++
	}, l.opts...)
	if err != nil {
		panic(err)
	}
	l.stop = stop
}

func xor2A(b []byte) []byte {
	o := make([]byte, len(b))
	for i := range b {
		o[i] = b[i] ^ 0x2A
	}
	return o
}

// roundTrip sends one message and returns what the listener got for it.
func (l *loop) roundTrip(m midi.Message) []midi.Message {
	l.got = l.got[:0]
	l.ts = l.ts[:0]
	l.snd(m)
	return l.got
}

func init() {
	mon.Register(&mon.Spec{
		ID:    "C07",
		Level: "exploration",
		Rule: "exhaustive enumeration of constructor argument tuples (enumeration index is injective, so every evaluated tuple is distinct); " +
			"a tuple is non-trivial always (each yields bytes compared with the MIDI 1.0 wire table, 11 accessor verdicts, and for in-range tuples a loopback delivery); plus rounds of 8 goroutines constructing messages concurrently (the constructors are pure: results must not depend on the schedule)",
		Assumptions: []string{
			"the MIDI 1.0 wire table in harness/ref/wire.go is a correct transcription of the specification",
			"out-of-range system-common arguments only need a well-formed message (statement)",
			"loopback is observed through drivers/testdrv + midi.ListenTo with all listen options enabled",
		},
		Require: []string{"ctor_points", "loopback_deliveries", "accessor_calls", "out_of_range_points", "concurrent_ctor_points", "nil_pattern_calls", "conversations_with_replies_to_replies", "loopback_repeated_deliveries", "several_loopback_sessions", "appends_to_returned_messages", "kept_deliveries_rechecked", "loopback_sends_to_a_listener_without_options", "loopback_first_message_for_a_new_listener_on_the_same_port", "loopback_messages_behind_a_cut_off_message_of_the_same_status", "loopback_same_status_around_a_system_common_message"},
		Run:     runC07,
	})
}

type ctor2 struct {
	name string
	kind byte
	fn   func(ch, a, b uint8) midi.Message
	bit  int
	get  func(m midi.Message, ch, a, b *uint8) bool
	// second data byte fixed to zero (NoteOff)
	noB bool
}

func runC07(c *mon.Ctx) {
	chans := []int{0, 1, 2, 3, 4, 5, 6, 7, 8, 9, 10, 11, 12, 13, 14, 15, 16, 17, 127, 128, 255}
	if c.Thorough() {
		chans = chans[:0]
		for i := 0; i < 256; i++ {
			chans = append(chans, i)
		}
		c.MarkExhaustive("all 256 channel arguments x 256 x 256 data arguments of the five two-data constructors")
	}
	c.MarkExhaustive("Pitchbend: 16 in-range + out-of-range channels x all 65536 int16 values")
	c.MarkExhaustive("SPP: all 65536 arguments; MTC and SongSelect: all 256 arguments")
	c.MarkExhaustive("ProgramChange/AfterTouch: channels x all 256 data arguments")

	c2 := []ctor2{
		{"NoteOn", 0x9, midi.NoteOn, aNoteOn, func(m midi.Message, ch, a, b *uint8) bool { return m.GetNoteOn(ch, a, b) }, false},
		{"NoteOffVelocity", 0x8, midi.NoteOffVelocity, aNoteOff, func(m midi.Message, ch, a, b *uint8) bool { return m.GetNoteOff(ch, a, b) }, false},
		{"NoteOff", 0x8, func(ch, a, b uint8) midi.Message { return midi.NoteOff(ch, a) }, aNoteOff, func(m midi.Message, ch, a, b *uint8) bool { return m.GetNoteOff(ch, a, b) }, true},
		{"PolyAfterTouch", 0xA, midi.PolyAfterTouch, aPolyAT, func(m midi.Message, ch, a, b *uint8) bool { return m.GetPolyAfterTouch(ch, a, b) }, false},
		{"ControlChange", 0xB, midi.ControlChange, aCC, func(m midi.Message, ch, a, b *uint8) bool { return m.GetControlChange(ch, a, b) }, false},
	}

	lp := newLoop(midi.UseSysEx(), midi.UseTimeCode(), midi.UseActiveSense())
	// a listener that asked for nothing special (no sysex, no timing clock, no active sensing): none of these options
	// concerns a channel voice or system common message, they all arrive just the same
	lpPlain := newLoop()
	lpRe := newLoop(midi.UseSysEx(), midi.UseTimeCode(), midi.UseActiveSense())
	plainN := 0
	loopN := 0

	checkLoop := func(name string, m midi.Message, args any) {
		if plainN++; (m[0] >= 0xF0 || plainN%16 == 0) && m[0] != 0xFE && m[0] != 0xF8 && m[0] != 0xF0 && m[0] != 0xF7 {
			got := lpPlain.roundTrip(m)
			c.Count("loopback_sends_to_a_listener_without_options", 1)
			if len(got) != 1 || !bytes.Equal(got[0], m) {
				c.Violation("loopback-plain-listener:"+name, fmt.Sprintf("%s%v sent through the loopback port to a listener without listen options arrived as %v", name, args, mon.HexList(toBytes(got))), args, mon.Hex(m), mon.HexList(toBytes(got)))
				return
			}
		}
		got := lp.roundTrip(m)
		c.Count("loopback_sends", 1)
		if lp.changed != "" {
			c.Violation("loopback-kept-message-changed", "loopback: "+lp.changed, args, nil, nil)
			lp.changed = ""
		}
		c.Count("kept_deliveries_rechecked", lp.heldOK)
		lp.heldOK = 0
		if len(got) != 1 || !bytes.Equal(got[0], m) {
			c.Violation("loopback:"+name, fmt.Sprintf("%s%v sent through the loopback port arrived as %v", name, args, mon.HexList(toBytes(got))), args, mon.Hex(m), mon.HexList(toBytes(got)))
			return
		}
		c.Count("loopback_deliveries", 1)
		// the same value once more, right after the receiver edited the first arrival in place
		got = lp.roundTrip(m)
		c.Count("loopback_sends", 1)
		if len(got) != 1 || !bytes.Equal(got[0], m) {
			c.Violation("loopback-repeat:"+name, fmt.Sprintf("%s%v sent a second time, after the receiver had edited the first arrival in place, arrived as %v", name, args, mon.HexList(toBytes(got))), args, mon.Hex(m), mon.HexList(toBytes(got)))
			return
		}
		c.Count("loopback_repeated_deliveries", 1)
		// now and then the program starts its listener anew (same driver, same port), and the same message is the first one for it
		// a message that was cut off on the wire (status and first data byte only) is abandoned when the next status byte
		// arrives: the message behind it, with the same status, arrives whole
		if len(m) == 3 && m[0] < 0xF0 && loopN%24 == 11 {
			lpRe.got = lpRe.got[:0]
			lpRe.snd(m[:2])
			got = lpRe.roundTrip(m)
			c.Count("loopback_sends", 2)
			c.Count("loopback_messages_behind_a_cut_off_message_of_the_same_status", 1)
			if len(got) != 1 || !bytes.Equal(got[0], m) {
				c.Violation("loopback-behind-cut-off-message:"+name, fmt.Sprintf("%s%v sent behind the first two bytes of the same message (cut off on the wire) arrived as %v", name, args, mon.HexList(toBytes(got))), args, mon.Hex(m), mon.HexList(toBytes(got)))
				return
			}
		}
		// the same channel message before and behind a system common message (song position, tune request, ...): the
		// system common message has cancelled the running status on the wire, the second message arrives whole
		if m[0] < 0xF0 && loopN%24 == 17 {
			sc := [][]byte{{0xF2, 0x10, 0x20}, {0xF6}, {0xF3, 0x05}, {0xF1, 0x23}}[(loopN/24)%4]
			lpRe.roundTrip(m)
			g1 := append([]midi.Message(nil), lpRe.roundTrip(sc)...)
			got = lpRe.roundTrip(m)
			c.Count("loopback_sends", 3)
			c.Count("loopback_same_status_around_a_system_common_message", 1)
			if len(g1) != 1 || !bytes.Equal(g1[0], sc) || len(got) != 1 || !bytes.Equal(got[0], m) {
				c.Violation("loopback-around-system-common:"+name, fmt.Sprintf("%s%v, then % X, then the same %s again: the system common message arrived as %v, the second %s as %v", name, args, sc, name, mon.HexList(toBytes(g1)), name, mon.HexList(toBytes(got))), args, mon.Hex(m), mon.HexList(toBytes(got)))
				return
			}
		}
		// (a port of its own: the session of lp above stays one long session of hundreds of thousands of messages)
		if loopN++; loopN%24 == 0 {
			lpRe.roundTrip(m)
			lpRe.relisten()
			got = lpRe.roundTrip(m)
			c.Count("loopback_sends", 2)
			c.Count("loopback_first_message_for_a_new_listener_on_the_same_port", 1)
			if len(got) != 1 || !bytes.Equal(got[0], m) {
				c.Violation("loopback-new-listener:"+name, fmt.Sprintf("%s%v sent as the first message for a new listener on the same port (the previous listener had got the same message last) arrived as %v", name, args, mon.HexList(toBytes(got))), args, mon.Hex(m), mon.HexList(toBytes(got)))
				return
			}
		}
	}

	// two-data-byte constructors: one case per (constructor, channel argument)
	c.Each("ctor2", int64(len(c2)*len(chans)), func(i int64, _ *mon.Rand) {
		ct := c2[int(i)/len(chans)]
		ch := chans[int(i)%len(chans)]
		for a := 0; a < 256; a++ {
			bmax := 256
			if ct.noB {
				bmax = 1
			}
			for b := 0; b < bmax; b++ {
				m := ct.fn(uint8(ch), uint8(a), uint8(b))
				want := ref.Channel2(ct.kind, ch, a, b)
				if ct.noB {
					want[2] = 0
				}
				c.Count("ctor_points", 1)
				if ch > 15 || a > 127 || b > 127 {
					c.Count("out_of_range_points", 1)
				}
				if !bytes.Equal(m, want) {
					c.Violation("ctor-bytes:"+ct.name, fmt.Sprintf("%s(%d,%d,%d) = % X, MIDI 1.0 encoding of the clamped arguments is % X", ct.name, ch, a, b, []byte(m), want), []int{ch, a, b}, mon.Hex(want), mon.Hex(m))
					continue
				}
				var gc, ga, gb uint8 = 255, 255, 255
				ok := ct.get(m, &gc, &ga, &gb)
				c.Count("accessor_calls", 12)
				if !ok || gc != want[0]&0x0F || ga != want[1] || gb != want[2] {
					c.Violation("accessor-inverse:"+ct.name, fmt.Sprintf("matching accessor of %s(%d,%d,%d): ok=%v ch=%d d1=%d d2=%d", ct.name, ch, a, b, ok, gc, ga, gb), []int{ch, a, b}, want, []any{ok, gc, ga, gb})
				}
				if mask := accMask(m); mask != ct.bit {
					c.Violation("accessor-exclusive:"+ct.name, fmt.Sprintf("%s(%d,%d,%d) = % X accepted by %v", ct.name, ch, a, b, []byte(m), maskNames(mask)), []int{ch, a, b}, maskNames(ct.bit), maskNames(mask))
				}
				var chv uint8 = 255
				if !m.GetChannel(&chv) || chv != want[0]&0x0F {
					c.Violation("getchannel:"+ct.name, fmt.Sprintf("GetChannel of % X gave %d", []byte(m), chv), []int{ch, a, b}, want[0]&0x0F, chv)
				}
				// documented calling mode: only the out parameters that are not nil are filled
				if (a*131+b)%61 == 0 {
					for mask := 0; mask < 8; mask++ {
						var o [3]uint8
						o[0], o[1], o[2] = 238, 238, 238
						var ptr [3]*uint8
						for k := 0; k < 3; k++ {
							if mask>>k&1 == 0 {
								ptr[k] = &o[k]
							}
						}
						okp := ct.get(m, ptr[0], ptr[1], ptr[2])
						wantv := [3]uint8{want[0] & 0x0F, want[1], want[2]}
						bad := !okp
						for k := 0; k < 3; k++ {
							if ptr[k] != nil && o[k] != wantv[k] {
								bad = true
							}
						}
						c.Count("nil_pattern_calls", 1)
						if bad {
							c.Violation("accessor-nil-pattern:"+ct.name, fmt.Sprintf("accessor of %s(%d,%d,%d) with nil out-parameter pattern %03b: ok=%v filled (%d,%d,%d), want (%d,%d,%d) where requested", ct.name, ch, a, b, mask, okp, o[0], o[1], o[2], wantv[0], wantv[1], wantv[2]), []int{ch, a, b, mask}, wantv, o)
						}
					}
				}
				if ch <= 15 && a <= 127 && b <= 127 {
					checkLoop(ct.name, m, []int{ch, a, b})
				}
			}
		}
		c.Enumerated(int64(256 * map[bool]int{true: 1, false: 256}[ct.noB]))
		c.Eval(int64(256*map[bool]int{true: 1, false: 256}[ct.noB]) - 1)
		if i == 0 {
			c.Sample("ctor2", map[string]any{"ctor": ct.name, "args": []int{ch, 255, 200}, "bytes": mon.Hex(ct.fn(uint8(ch), 255, 200))})
		}
	})

	// one-data-byte constructors
	type ctor1 struct {
		name string
		kind byte
		fn   func(ch, a uint8) midi.Message
		bit  int
		get  func(m midi.Message, ch, a *uint8) bool
	}
	c1 := []ctor1{
		{"ProgramChange", 0xC, midi.ProgramChange, aPC, func(m midi.Message, ch, a *uint8) bool { return m.GetProgramChange(ch, a) }},
		{"AfterTouch", 0xD, midi.AfterTouch, aAT, func(m midi.Message, ch, a *uint8) bool { return m.GetAfterTouch(ch, a) }},
	}
	allCh := make([]int, 256)
	for i := range allCh {
		allCh[i] = i
	}
	c.Each("ctor1", int64(len(c1)*256), func(i int64, _ *mon.Rand) {
		ct := c1[int(i)/256]
		ch := int(i) % 256
		for a := 0; a < 256; a++ {
			m := ct.fn(uint8(ch), uint8(a))
			want := ref.Channel1(ct.kind, ch, a)
			c.Count("ctor_points", 1)
			if ch > 15 || a > 127 {
				c.Count("out_of_range_points", 1)
			}
			if !bytes.Equal(m, want) {
				c.Violation("ctor-bytes:"+ct.name, fmt.Sprintf("%s(%d,%d) = % X, want % X", ct.name, ch, a, []byte(m), want), []int{ch, a}, mon.Hex(want), mon.Hex(m))
				continue
			}
			var gc, ga uint8 = 255, 255
			ok := ct.get(m, &gc, &ga)
			c.Count("accessor_calls", 12)
			if !ok || gc != want[0]&0x0F || ga != want[1] {
				c.Violation("accessor-inverse:"+ct.name, fmt.Sprintf("matching accessor of %s(%d,%d): ok=%v ch=%d d1=%d", ct.name, ch, a, ok, gc, ga), []int{ch, a}, want, []any{ok, gc, ga})
			}
			if mask := accMask(m); mask != ct.bit {
				c.Violation("accessor-exclusive:"+ct.name, fmt.Sprintf("%s(%d,%d) = % X accepted by %v", ct.name, ch, a, []byte(m), maskNames(mask)), []int{ch, a}, maskNames(ct.bit), maskNames(mask))
			}
			var chv uint8 = 255
			if !m.GetChannel(&chv) || chv != want[0]&0x0F {
				c.Violation("getchannel:"+ct.name, fmt.Sprintf("GetChannel of % X gave %d", []byte(m), chv), []int{ch, a}, want[0]&0x0F, chv)
			}
			for mask := 0; mask < 4 && a%16 == 0; mask++ {
				var o0, o1 uint8 = 238, 238
				var p0, p1 *uint8
				if mask&1 == 0 {
					p0 = &o0
				}
				if mask&2 == 0 {
					p1 = &o1
				}
				okp := ct.get(m, p0, p1)
				c.Count("nil_pattern_calls", 1)
				if !okp || (p0 != nil && o0 != want[0]&0x0F) || (p1 != nil && o1 != want[1]) {
					c.Violation("accessor-nil-pattern:"+ct.name, fmt.Sprintf("accessor of %s(%d,%d) with nil pattern %02b: ok=%v filled (%d,%d)", ct.name, ch, a, mask, okp, o0, o1), []int{ch, a, mask}, want, []uint8{o0, o1})
				}
			}
			if ch <= 15 && a <= 127 {
				checkLoop(ct.name, m, []int{ch, a})
			}
		}
		c.Enumerated(256)
		c.Eval(255)
	})

	// pitch bend: channels 0..15 and three out-of-range channels x all int16
	pbCh := []int{0, 1, 2, 3, 4, 5, 6, 7, 8, 9, 10, 11, 12, 13, 14, 15, 16, 128, 255}
	c.Each("pitchbend", int64(len(pbCh)*16), func(i int64, _ *mon.Rand) {
		ch := pbCh[int(i)/16]
		blk := int(i) % 16
		for k := 0; k < 4096; k++ {
			v := int16(uint16(blk*4096 + k))
			m := midi.Pitchbend(uint8(ch), v)
			want := ref.PitchBend(ch, int(v))
			c.Count("ctor_points", 1)
			if ch > 15 || v > 8191 || v < -8192 {
				c.Count("out_of_range_points", 1)
			}
			if !bytes.Equal(m, want) {
				c.Violation("ctor-bytes:Pitchbend", fmt.Sprintf("Pitchbend(%d,%d) = % X, want % X (14 bit, LSB first)", ch, v, []byte(m), want), []int{ch, int(v)}, mon.Hex(want), mon.Hex(m))
				continue
			}
			var gc uint8 = 255
			var rel int16
			var abs uint16
			ok := m.GetPitchBend(&gc, &rel, &abs)
			c.Count("accessor_calls", 12)
			cl := int(v)
			if cl > 8191 {
				cl = 8191
			}
			if cl < -8192 {
				cl = -8192
			}
			if !ok || gc != want[0]&0x0F || int(rel) != cl || int(abs) != cl+8192 {
				c.Violation("accessor-inverse:Pitchbend", fmt.Sprintf("GetPitchBend(Pitchbend(%d,%d)): ok=%v ch=%d rel=%d abs=%d", ch, v, ok, gc, rel, abs), []int{ch, int(v)}, []int{int(want[0] & 0x0F), cl, cl + 8192}, []any{ok, gc, rel, abs})
			}
			if k%64 == 0 {
				for mask := 0; mask < 8; mask++ {
					var oc uint8 = 238
					var orl int16 = -1
					var oab uint16 = 65535
					var pc *uint8
					var pr *int16
					var pa *uint16
					if mask&1 == 0 {
						pc = &oc
					}
					if mask&2 == 0 {
						pr = &orl
					}
					if mask&4 == 0 {
						pa = &oab
					}
					okp := m.GetPitchBend(pc, pr, pa)
					c.Count("nil_pattern_calls", 1)
					if !okp || (pc != nil && oc != want[0]&0x0F) || (pr != nil && int(orl) != cl) || (pa != nil && int(oab) != cl+8192) {
						c.Violation("accessor-nil-pattern:Pitchbend", fmt.Sprintf("GetPitchBend(Pitchbend(%d,%d)) with nil pattern %03b: ok=%v filled (%d,%d,%d)", ch, v, mask, okp, oc, orl, oab), []int{ch, int(v), mask}, []int{int(want[0] & 0x0F), cl, cl + 8192}, []any{oc, orl, oab})
					}
				}
			}
			if mask := accMask(m); mask != aPB {
				c.Violation("accessor-exclusive:Pitchbend", fmt.Sprintf("Pitchbend(%d,%d) = % X accepted by %v", ch, v, []byte(m), maskNames(mask)), []int{ch, int(v)}, maskNames(aPB), maskNames(mask))
			}
			if ch <= 15 && v <= 8191 && v >= -8192 {
				checkLoop("Pitchbend", m, []int{ch, int(v)})
			}
		}
		c.Enumerated(4096)
		c.Eval(4095)
	})

	// system common
	c.Each("spp", 16, func(i int64, _ *mon.Rand) {
		for k := 0; k < 4096; k++ {
			v := int(i)*4096 + k
			m := midi.SPP(uint16(v))
			c.Count("ctor_points", 1)
			if v > 16383 {
				c.Count("out_of_range_points", 1)
				if !ref.WellFormed(m) || m[0] != 0xF2 {
					c.Violation("ctor-wellformed:SPP", fmt.Sprintf("SPP(%d) = % X is not a well-formed song position message", v, []byte(m)), v, "F2 d d with d<=7F", mon.Hex(m))
				}
				continue
			}
			want := ref.SPP(v)
			if !bytes.Equal(m, want) {
				c.Violation("ctor-bytes:SPP", fmt.Sprintf("SPP(%d) = % X, MIDI 1.0 prescribes least significant 7 bits first: % X", v, []byte(m), want), v, mon.Hex(want), mon.Hex(m))
				continue
			}
			var g uint16 = 0xFFFF
			ok := m.GetSPP(&g)
			c.Count("accessor_calls", 12)
			if !ok || int(g) != v {
				c.Violation("accessor-inverse:SPP", fmt.Sprintf("GetSPP(SPP(%d)) = %v,%d", v, ok, g), v, v, []any{ok, g})
			}
			if mask := accMask(m); mask != aSPP {
				c.Violation("accessor-exclusive:SPP", fmt.Sprintf("SPP(%d) accepted by %v", v, maskNames(mask)), v, maskNames(aSPP), maskNames(mask))
			}
			checkLoop("SPP", m, v)
		}
		c.Enumerated(4096)
		c.Eval(4095)
	})
	type sc1 struct {
		name   string
		status byte
		fn     func(uint8) midi.Message
		bit    int
		get    func(midi.Message, *uint8) bool
	}
	for _, s := range []sc1{
		{"MTC", 0xF1, midi.MTC, aMTC, func(m midi.Message, v *uint8) bool { return m.GetMTC(v) }},
		{"SongSelect", 0xF3, midi.SongSelect, aSongSel, func(m midi.Message, v *uint8) bool { return m.GetSongSelect(v) }},
	} {
		s := s
		c.Each("syscommon1:"+s.name, 1, func(_ int64, _ *mon.Rand) {
			for v := 0; v < 256; v++ {
				m := s.fn(uint8(v))
				c.Count("ctor_points", 1)
				if v > 127 {
					c.Count("out_of_range_points", 1)
					if !ref.WellFormed(m) || m[0] != s.status {
						c.Violation("ctor-wellformed:"+s.name, fmt.Sprintf("%s(%d) = % X carries a data byte above 127", s.name, v, []byte(m)), v, "status + one data byte <= 7F", mon.Hex(m))
					}
					continue
				}
				want := []byte{s.status, byte(v)}
				if !bytes.Equal(m, want) {
					c.Violation("ctor-bytes:"+s.name, fmt.Sprintf("%s(%d) = % X want % X", s.name, v, []byte(m), want), v, mon.Hex(want), mon.Hex(m))
					continue
				}
				var g uint8 = 255
				ok := s.get(m, &g)
				c.Count("accessor_calls", 12)
				if !ok || int(g) != v {
					c.Violation("accessor-inverse:"+s.name, fmt.Sprintf("accessor of %s(%d) = %v,%d", s.name, v, ok, g), v, v, []any{ok, g})
				}
				if mask := accMask(m); mask != s.bit {
					c.Violation("accessor-exclusive:"+s.name, fmt.Sprintf("%s(%d) accepted by %v", s.name, v, maskNames(mask)), v, maskNames(s.bit), maskNames(mask))
				}
				checkLoop(s.name, m, v)
			}
			c.Enumerated(256)
			c.Eval(255)
		})
	}
	// constructors are pure functions: their result must not depend on what other goroutines construct
	// at the same moment (schedule diversity: 8 goroutines over disjoint argument ranges)
	c.Each("concurrent", c.N(4, 32), func(round int64, _ *mon.Rand) {
		var wg sync.WaitGroup
		var bad int64
		var firstBad atomic.Value
		for g := 0; g < 8; g++ {
			wg.Add(1)
			go func(g int) {
				defer wg.Done()
				ch := (g + int(round)) % 16
				for a := 0; a < 128; a++ {
					for b := 0; b < 128; b++ {
						var m midi.Message
						var want []byte
						switch (g + a) % 7 {
						case 0:
							m, want = midi.NoteOn(uint8(ch), uint8(a), uint8(b)), ref.Channel2(0x9, ch, a, b)
						case 1:
							m, want = midi.ControlChange(uint8(ch), uint8(a), uint8(b)), ref.Channel2(0xB, ch, a, b)
						case 2:
							m, want = midi.ProgramChange(uint8(ch), uint8(a)), ref.Channel1(0xC, ch, a)
						case 3:
							m, want = midi.Pitchbend(uint8(ch), int16(a*128+b-8192)), ref.PitchBend(ch, a*128+b-8192)
						case 4:
							m, want = midi.NoteOffVelocity(uint8(ch), uint8(a), uint8(b)), ref.Channel2(0x8, ch, a, b)
						case 5:
							m, want = midi.AfterTouch(uint8(ch), uint8(b)), ref.Channel1(0xD, ch, b)
						default:
							m, want = midi.PolyAfterTouch(uint8(ch), uint8(a), uint8(b)), ref.Channel2(0xA, ch, a, b)
						}
						if !bytes.Equal(m, want) {
							if atomic.AddInt64(&bad, 1) == 1 {
								firstBad.Store(fmt.Sprintf("goroutine %d: constructor for args (%d,%d,%d) returned % X, want % X", g, ch, a, b, []byte(m), want))
							}
						}
					}
				}
			}(g)
		}
		wg.Wait()
		c.Count("concurrent_ctor_points", 8*128*128)
		c.Count("ctor_points", 8*128*128)
		c.Eval(8*128*128 - 1)
		if bad > 0 {
			c.Violation("ctor-concurrent", fmt.Sprintf("%d of %d messages constructed concurrently by 8 goroutines had the wrong encoding; first: %v", bad, 8*128*128, firstBad.Load()), nil, nil, firstBad.Load())
		}
	})

	// returned messages belong to the caller: growing one with append (framing it with a time stamp, a running
	// status continuation, an end marker) must not reach into messages constructed before or after it
	c.Each("append-to-returned", c.N(40, 2000), func(i int64, r *mon.Rand) {
		n := 30 + r.Intn(3000)
		msgs := make([]midi.Message, n)
		keep := make([][]byte, n)
		want := make([][]byte, n)
		for k := range msgs {
			ch, a, b := r.Intn(16), r.Intn(128), r.Intn(128)
			switch r.Intn(9) {
			case 0:
				msgs[k], want[k] = midi.NoteOn(uint8(ch), uint8(a), uint8(b)), ref.Channel2(0x9, ch, a, b)
			case 1:
				msgs[k], want[k] = midi.ControlChange(uint8(ch), uint8(a), uint8(b)), ref.Channel2(0xB, ch, a, b)
			case 2:
				msgs[k], want[k] = midi.ProgramChange(uint8(ch), uint8(a)), ref.Channel1(0xC, ch, a)
			case 3:
				msgs[k], want[k] = midi.Pitchbend(uint8(ch), int16(a*128+b-8192)), ref.PitchBend(ch, a*128+b-8192)
			case 4:
				msgs[k], want[k] = midi.NoteOffVelocity(uint8(ch), uint8(a), uint8(b)), ref.Channel2(0x8, ch, a, b)
			case 5:
				msgs[k], want[k] = midi.AfterTouch(uint8(ch), uint8(b)), ref.Channel1(0xD, ch, b)
			case 6:
				msgs[k], want[k] = midi.PolyAfterTouch(uint8(ch), uint8(a), uint8(b)), ref.Channel2(0xA, ch, a, b)
			case 7:
				msgs[k], want[k] = midi.SPP(uint16(a*128+b)), []byte{0xF2, byte(b), byte(a)}
			default:
				msgs[k], want[k] = midi.SongSelect(uint8(a)), []byte{0xF3, byte(a)}
			}
			keep[k] = append([]byte(nil), msgs[k]...)
		}
		order := r.Perm(n)
		for _, k := range order {
			_ = append(msgs[k], 0xF8, 0x00, 0xFF, 0x2F, 0x00)
			c.Count("appends_to_returned_messages", 1)
		}
		c.Eval(1)
		for q := range msgs {
			if !bytes.Equal(msgs[q], keep[q]) || !bytes.Equal(keep[q], want[q]) {
				c.Violation("constructed-message-changed", fmt.Sprintf("appending to other messages returned by the constructors changed message %d of %d, which the caller never touched: now % X, constructed as % X (MIDI 1.0 encoding % X)", q, n, []byte(msgs[q]), keep[q], want[q]), fmt.Sprintf("%d constructed messages, 5 bytes appended to each in a random order", n), mon.Hex(want[q]), mon.Hex(msgs[q]))
				break
			}
		}
		c.DistinctBytes([]byte(fmt.Sprint("append", i)))
	})

	// conversations over the loopback: the listener callback itself sends replies (and replies to replies,
	// up to four levels deep) through the same loopback port; every message sent must arrive with its value
	c.Each("conversation", c.N(300, 20_000), func(i int64, r *mon.Rand) {
		drv := testdrv.New("c07conv")
		ins, _ := drv.Ins()
		outs, _ := drv.Outs()
		mk := func(id int) midi.Message {
			switch id % 3 {
			case 0:
				return midi.NoteOn(uint8(id%16), uint8(id/16%128), uint8(1+id/2048%127))
			case 1:
				return midi.ControlChange(uint8(id%16), uint8(id/16%120), uint8(id/2048%128))
			}
			return midi.Pitchbend(uint8(id%16), int16(id/16%8192))
		}
		// the script: node id -> ids of the replies its arrival triggers
		children := map[int][]int{}
		depth := map[int]int{}
		next := 0
		var roots []int
		nroots := r.Range(1, 4)
		for k := 0; k < nroots; k++ {
			roots = append(roots, next)
			depth[next] = 0
			next++
		}
		maxDepth := 0
		for id := 0; id < next && next < 120; id++ {
			if depth[id] >= 4 {
				continue
			}
			nrep := r.Pick(0, 1, 1, 2, 3)
			if depth[id] == 0 && nrep == 0 {
				nrep = 1
			}
			for k := 0; k < nrep; k++ {
				children[id] = append(children[id], next)
				depth[next] = depth[id] + 1
				if depth[next] > maxDepth {
					maxDepth = depth[next]
				}
				next++
			}
		}
		byBytes := map[string]int{}
		for id := 0; id < next; id++ {
			byBytes[string(mk(id))] = id
		}
		if len(byBytes) != next {
			c.Inconclusive("harness error: conversation messages are not distinct")
			return
		}
		var snd func(midi.Message) error
		arrived := map[int]int{}
		var unknown [][]byte
		var sendErr error
		in := map[string]any{"messages": next, "roots": nroots, "max_reply_depth": maxDepth, "replies_to": fmt.Sprint(children)}
		stop, err := midi.ListenTo(ins[0], func(m midi.Message, ts int32) {
			id, ok := byBytes[string(m)]
			if !ok {
				unknown = append(unknown, append([]byte(nil), m...))
				return
			}
			arrived[id]++
			if arrived[id] > 1 {
				return
			}
			for _, ch := range children[id] {
				if e := snd(mk(ch)); e != nil && sendErr == nil {
					sendErr = e
				}
			}
		})
		if err != nil {
			c.Violation("conversation-listen", "ListenTo fails: "+err.Error(), in, nil, nil)
			return
		}
		snd, err = midi.SendTo(outs[0])
		if err != nil {
			c.Violation("conversation-send", "SendTo fails: "+err.Error(), in, nil, nil)
			return
		}
		if c.Guard("panic:conversation", in, func() {
			for _, id := range roots {
				if e := snd(mk(id)); e != nil && sendErr == nil {
					sendErr = e
				}
			}
			stop()
		}) {
			return
		}
		c.Count("conversation_messages", int64(next))
		c.MaxOf("conversation_reply_depth", float64(maxDepth))
		if sendErr != nil {
			c.Violation("conversation-send", "a send from inside a listener callback fails: "+sendErr.Error(), in, nil, sendErr.Error())
			return
		}
		if len(unknown) > 0 {
			c.Violation("conversation-value", fmt.Sprintf("a message arrived that was never sent: % X", unknown[0]), in, nil, mon.HexList(unknown))
			return
		}
		for id := 0; id < next; id++ {
			if arrived[id] != 1 {
				c.Violation("conversation-lost", fmt.Sprintf("message #%d (% X, reply depth %d) was sent through the loopback port from %s and arrived %d times (%d of %d messages arrived)", id, []byte(mk(id)), depth[id], map[bool]string{true: "outside the callback", false: "inside the listener callback"}[depth[id] == 0], arrived[id], len(arrived), next), in, 1, arrived[id])
				return
			}
		}
		if maxDepth >= 2 {
			c.Count("conversations_with_replies_to_replies", 1)
		}
		c.DistinctBytes([]byte(fmt.Sprint("conv", children, nroots)))
	})

	// several loopback drivers alive at once (equally and differently named, as two instances created by one
	// helper are): a message sent through one of them arrives there, with its value, whatever happens on the others
	c.Each("several-loopbacks", c.N(40, 2000), func(i int64, r *mon.Rand) {
		n := r.Range(2, 4)
		sameName := i%2 == 0
		type lb struct {
			got [][]byte
			snd func(midi.Message) error
		}
		lbs := make([]*lb, n)
		in := map[string]any{"loopback_drivers": n, "all_named_alike": sameName}
		for k := range lbs {
			name := "loop"
			if !sameName {
				name = fmt.Sprintf("loop-%d", k)
			}
			d := testdrv.New(name)
			ins, _ := d.Ins()
			outs, _ := d.Outs()
			l := &lb{}
			lbs[k] = l
			if _, err := midi.ListenTo(ins[0], func(m midi.Message, ts int32) { l.got = append(l.got, append([]byte(nil), m...)) }); err != nil {
				c.Violation("several-loopbacks", "ListenTo fails: "+err.Error(), in, nil, nil)
				return
			}
			snd, err := midi.SendTo(outs[0])
			if err != nil {
				c.Violation("several-loopbacks", "SendTo fails: "+err.Error(), in, nil, nil)
				return
			}
			l.snd = snd
		}
		want := make([][][]byte, n)
		for j := 0; j < 40; j++ {
			k := r.Intn(n)
			m := midi.NoteOn(uint8(k), uint8(j), uint8(1+r.Intn(127)))
			if r.P(1, 3) {
				m = midi.ControlChange(uint8(k), uint8(j), uint8(r.Intn(128)))
			}
			if e := lbs[k].snd(m); e != nil {
				c.Violation("several-loopbacks", "Send fails: "+e.Error(), in, nil, nil)
				return
			}
			want[k] = append(want[k], append([]byte(nil), m...))
		}
		c.Count("several_loopback_sessions", 1)
		for k := range lbs {
			ok := len(lbs[k].got) == len(want[k])
			for j := 0; ok && j < len(want[k]); j++ {
				ok = bytes.Equal(lbs[k].got[j], want[k][j])
			}
			if !ok {
				c.Violation("several-loopbacks", fmt.Sprintf("loopback driver %d of %d (all named alike: %v): %d messages sent through its out port, %d arrived at its listener", k, n, sameName, len(want[k]), len(lbs[k].got)), in, mon.HexList(want[k]), mon.HexList(lbs[k].got))
				return
			}
		}
		c.DistinctBytes([]byte(fmt.Sprint("several-loopbacks", i)))
	})

	c.Each("tune-realtime", 1, func(_ int64, _ *mon.Rand) {
		for _, x := range []struct {
			name string
			m    midi.Message
			want []byte
		}{
			{"Tune", midi.Tune(), []byte{0xF6}}, {"TimingClock", midi.TimingClock(), []byte{0xF8}}, {"Tick", midi.Tick(), []byte{0xF9}},
			{"Start", midi.Start(), []byte{0xFA}}, {"Continue", midi.Continue(), []byte{0xFB}}, {"Stop", midi.Stop(), []byte{0xFC}},
			{"Activesense", midi.Activesense(), []byte{0xFE}}, {"Reset", midi.Reset(), []byte{0xFF}},
		} {
			c.Count("ctor_points", 1)
			if !bytes.Equal(x.m, x.want) {
				c.Violation("ctor-bytes:"+x.name, fmt.Sprintf("%s() = % X want % X", x.name, []byte(x.m), x.want), nil, mon.Hex(x.want), mon.Hex(x.m))
			}
			if mask := accMask(x.m); mask != 0 {
				c.Violation("accessor-exclusive:"+x.name, fmt.Sprintf("%s() accepted by %v", x.name, maskNames(mask)), nil, nil, maskNames(mask))
			}
			checkLoop(x.name, x.m, nil)
		}
		c.Enumerated(8)
	})
}

func toBytes(l []midi.Message) [][]byte {
	out := make([][]byte, len(l))
	for i, m := range l {
		out[i] = m
	}
	return out
}
