package props

import (
	"bufio"
	"bytes"
	"errors"
	"fmt"
	"io"
	"net"
	"os"
	"path/filepath"
	"strings"
	"syscall"
	"testing/iotest"

	"gitlab.com/gomidi/midi/v2/smf"

	"verif/harness/gen"
	"verif/harness/mon"
	"verif/harness/ref"
)

func init() {
	mon.Register(&mon.Spec{
		ID:    "C09",
		Level: "exploration",
		Rule: "schedule enumeration over io.Reader fragmentations: seeded valid files (incl. payloads above 4 KiB and alien chunks) and random truncations of them, each read from memory and through " +
			"every single split point (exhaustive per file), one byte per Read, 5 random partitions, last bytes returned together with io.EOF, and random partitions + EOF-with-data; truncated files with more than 4 KiB of a large payload present through EOF-with-data, iotest.DataErrReader and bufio readers; real files (smf.ReadFile, os.File, bufio over os.File) with the second track chunk header swept over every offset of a window around 4096 (thorough: every offset up to 8400); results compared as values or failure kinds. " +
			"distinct = distinct (file, fragmentation) pairs; non-trivial = the fragmenting reader returned at least one short count inside a multi-byte field read",
		Assumptions: []string{
			"fragmenting readers obey the io.Reader contract: at least one byte or an error per call for non-empty p; n > 0 may come together with io.EOF",
			"failure kinds: ok / tracks missing / end-of-data family / other",
		},
		Require: []string{"reads_from_sources_with_len_method", "several_big_payload_reads", "files_with_bytes_behind_end_of_track", "fragmented_reads", "short_reads_in_multibyte_field", "split_points", "eof_with_data_reads", "truncated_files", "compared_ok_values", "compared_failures", "big_payload_files", "big_truncated_reads", "file_and_bufio_reads", "pipe_reads", "extended_header_files", "fragmented_reads_with_log_option", "files_inside_a_container_or_behind_a_lead_in"},
		Run:     runC09,
	})
}

func failKind(err error) string {
	switch {
	case err == nil:
		return "ok"
	case errors.Is(err, smf.ErrMissing):
		return "tracks-missing"
	case errors.Is(err, io.EOF), errors.Is(err, io.ErrUnexpectedEOF), strings.Contains(err.Error(), "Unexpected End of File"), strings.Contains(err.Error(), "unexpected EOF"):
		return "end-of-data"
	}
	return "other"
}

type fragReader struct {
	chunkReader
	multiShort int
}

func (r *fragReader) Read(p []byte) (int, error) {
	n, err := r.chunkReader.Read(p)
	if len(p) >= 2 && n < len(p) && n > 0 {
		r.multiShort++
	}
	return n, err
}

// lenReader is a fragmenting reader of a record-oriented stream: like many real sources (a
// bytes.Buffer holding the rest of the current record, a framed network stream) it also has a Len
// method - meaning "bytes buffered right now", not "bytes left in the stream" - and a Size method.
// io.Reader promises nothing about either; what is read must not depend on them.
type lenReader struct {
	fragReader
	lenCalls int
}

func (r *lenReader) Len() int {
	r.lenCalls++
	if len(r.chunks) > 0 && r.chunks[0] < len(r.b) {
		return r.chunks[0]
	}
	return len(r.b)
}

func (r *lenReader) Size() int64 { r.lenCalls++; return int64(r.Len()) }

func runC09(c *mon.Ctx) {
	runC09Sources(c)
	runC09Pipes(c)
	c.Each("files", c.N(1000, 60_000), func(i int64, r *mon.Rand) {
		f := gen.SMFFile(r, gen.FileOpts{MaxTracks: 4, MaxEvents: 12, AllowBig: false, Aliens: i%2 == 0, PaddedVLQ: true, Running: true})
		if i%10 == 0 {
			// a payload above the chunked-read threshold
			p := r.Bytes7(r.Pick(4095, 4096, 4097, 9000))
			f.Tracks[0] = append([]ref.EncEv{{Ev: ref.Ev{Delta: 1, Msg: ref.Meta(0x01, p)}}, {Ev: ref.Ev{Delta: 0, Msg: append(append([]byte{0xF0}, p...), 0xF7)}}}, f.Tracks[0]...)
			c.Count("big_payload_files", 1)
		}
		b := f.Bytes(nil)
		if i%7 == 3 {
			// the header chunk may declare more than 6 bytes (future extension): whatever the library does
			// with such a file, it must not depend on the fragmentation
			extra := r.Pick(2, 4, 10, 1)
			nb := append([]byte(nil), b[:14]...)
			nb[7] = byte(6 + extra)
			nb = append(nb, r.Bytes(extra)...)
			b = append(nb, b[14:]...)
			c.Count("extended_header_files", 1)
		}
		if i%9 == 4 || i%9 == 8 {
			// a track chunk that is longer than its events (bytes behind the end-of-track event inside the
			// chunk, or two tracks joined in one chunk): whatever the library makes of such a file, it must not
			// depend on the fragmentation
			var nb []byte
			nb = append(nb, b[:14]...)
			done := false
			for off := 14; off+8 <= len(b); {
				ln := int(b[off+4])<<24 | int(b[off+5])<<16 | int(b[off+6])<<8 | int(b[off+7])
				end := off + 8 + ln
				if end > len(b) {
					end = len(b)
				}
				if !done && string(b[off:off+4]) == "MTrk" && (end < len(b) || r.P(1, 3)) {
					pad := r.Bytes(r.Pick(1, 2, 3, 8, 40))
					if r.Bool() {
						pad = []byte{0x00, 0x90, 0x3C, 0x40, 0x00, 0xFF, 0x2F, 0x00} // a second event list behind the first end-of-track
					}
					ln2 := ln + len(pad)
					nb = append(nb, b[off:off+4]...)
					nb = append(nb, byte(ln2>>24), byte(ln2>>16), byte(ln2>>8), byte(ln2))
					nb = append(nb, b[off+8:end]...)
					nb = append(nb, pad...)
					done = true
				} else {
					nb = append(nb, b[off:end]...)
				}
				off = end
			}
			if done {
				b = nb
				c.Count("files_with_bytes_behind_end_of_track", 1)
			}
		}
		if i%3 == 1 && len(b) > 15 {
			b = b[:14+r.Intn(len(b)-14)]
			c.Count("truncated_files", 1)
		}
		if i%16 == 7 {
			// the file inside a RIFF / RMID container (.rmi), or behind a few bytes of lead-in: whatever the reader makes of
			// it from memory, it makes of it from every other source
			le := func(n int) []byte { return []byte{byte(n), byte(n >> 8), byte(n >> 16), byte(n >> 24)} }
			if r.P(2, 3) {
				b = append(append(append(append(append([]byte("RIFF"), le(len(b)+12)...), []byte("RMID")...), []byte("data")...), le(len(b))...), b...)
			} else {
				b = append(r.Bytes(r.Pick(1, 2, 4, 128)), b...)
			}
			c.Count("files_inside_a_container_or_behind_a_lead_in", 1)
		}
		want, werr := smf.ReadFrom(bytes.NewReader(b))
		wk := failKind(werr)
		var wf *ref.File
		if werr == nil {
			wf = fromLib(want)
		}
		check := func(label string, chunks []int, eof bool) {
			lr := &lenReader{fragReader: fragReader{chunkReader: chunkReader{b: b, chunks: append([]int(nil), chunks...), eofWithLast: eof}}}
			rd := &lr.fragReader
			var src io.Reader = rd
			if strings.HasSuffix(label, "+Len") {
				src = lr // the same fragmentation through a source that also has Len and Size methods
				c.Count("reads_from_sources_with_len_method", 1)
			}
			in := map[string]any{"file": mon.Hex(b), "fragmentation": label, "chunks": head32(chunks, 40)}
			var got *smf.SMF
			var err error
			if strings.Contains(label, "+Log") {
				// the same read with the Log option: what is logged on the way does not change what is read
				if c.Guard("panic:fragmented", in, func() { got, err = smf.ReadFrom(src, smf.Log(&nullLogger{})) }) {
					return
				}
				c.Count("fragmented_reads_with_log_option", 1)
			} else if c.Guard("panic:fragmented", in, func() { got, err = smf.ReadFrom(src) }) {
				return
			}
			c.Count("fragmented_reads", 1)
			c.Count("short_reads_in_multibyte_field", int64(rd.multiShort))
			c.Eval(1)
			if eof {
				c.Count("eof_with_data_reads", 1)
			}
			gk := failKind(err)
			if gk != wk {
				c.Violation("kind:"+label, fmt.Sprintf("%s: reading from memory gives %s (%v), reading through the fragmenting reader gives %s (%v)", label, wk, werr, gk, err), in, wk, gk)
				return
			}
			if err == nil {
				if d := ref.EqualFiles(wf, fromLib(got)); d != "" {
					c.Violation("value:"+label, fmt.Sprintf("%s: value differs from the in-memory read: %s", label, d), in, describeFile(wf, 20), describeFile(fromLib(got), 20))
					return
				}
				c.Count("compared_ok_values", 1)
			} else {
				c.Count("compared_failures", 1)
			}
			if rd.multiShort > 0 {
				c.DistinctBytes(b, []byte(label), []byte(fmt.Sprint(chunks)))
			}
		}
		limit := len(b)
		step := 1
		if limit > 3000 {
			step = 7 // big-payload files: every 7th split point (+ the ones around the payload start)
		}
		for k := 1; k < limit; k += step {
			check("split", []int{k}, false)
			c.Count("split_points", 1)
			if i%10 == 0 || k%5 == 0 {
				check("split+Len", []int{k}, false)
			}
		}
		ones := make([]int, len(b))
		for j := range ones {
			ones[j] = 1
		}
		check("one-byte", ones, false)
		check("one-byte+eof", ones, true)
		for j := 0; j < 5; j++ {
			check("random-partition", r.Partition(len(b), r.Pick(2, 3, 5, 16, 100)), j%2 == 1)
		}
		for j := 0; j < 3; j++ {
			check("records+Len", r.Partition(len(b), r.Pick(16, 100, 512, 1024)), j == 1)
		}
		check("one-byte+Len", ones, false)
		check("data+eof", nil, true)
		check("data+eof+Log", nil, true)
		check("one-byte+eof+Log", ones, true)
		check("random-partition+Log", r.Partition(len(b), r.Pick(2, 3, 16, 100)), r.Bool())
		if i < 1 {
			c.Sample("file", map[string]any{"bytes": mon.Hex(head(b, 120)), "in-memory result": wk, "fragmentations": fmt.Sprintf("%d split points + one-byte + 5 random + data+EOF", limit-1)})
		}
	})
}

// runC09Sources: source kinds beyond plain fragmenting readers
func runC09Sources(c *mon.Ctx) {
	// (0) several large payloads in one file, in growing, shrinking and mixed order (a buffer kept from one
	// payload to the next has room to spare for a smaller one): a few fragmentations each
	bigPairs := [][]int{{100_000, 70_000}, {70_000, 100_000}, {70_000, 200, 65_600}, {65_536, 65_536}, {300_000, 65_537, 70_000}, {5000, 4097}, {20_000, 4100, 16_384}, {1<<20 + 5000}, {1<<20 + 1, 2<<20 + 300}, {1 << 20, 1<<20 + 511, 1<<20 + 512}}
	c.Each("several-big-payloads", int64(len(bigPairs)), func(i int64, r *mon.Rand) {
		var tr []ref.EncEv
		for k, n := range bigPairs[i] {
			p := r.Bytes7(n)
			var m []byte
			if (k+int(i))%2 == 0 {
				m = append(append([]byte{0xF0}, p...), 0xF7)
			} else {
				m = ref.Meta(0x7F, p)
			}
			tr = append(tr, ref.EncEv{Ev: ref.Ev{Delta: uint32(k), Msg: m}}, ref.EncEv{Ev: ref.Ev{Delta: 1, Msg: []byte{0x90, byte(k), 1}}})
		}
		tr = append(tr, ref.EncEv{Ev: ref.Ev{Delta: 0, Msg: ref.EOT}})
		f := &ref.EncFile{Format: 0, Division: 96, NTracks: -1, Tracks: [][]ref.EncEv{tr}}
		b := f.Bytes(nil)
		truth := f.Truth()
		in := map[string]any{"payload_sizes_in_file_order": bigPairs[i], "file_size": len(b)}
		readers := map[string]func() io.Reader{
			"memory (bytes.Reader)": func() io.Reader { return bytes.NewReader(b) },
			"one byte per Read":     func() io.Reader { return iotest.OneByteReader(bytes.NewReader(b)) },
			"half reads":            func() io.Reader { return iotest.HalfReader(bytes.NewReader(b)) },
			"data with EOF":         func() io.Reader { return iotest.DataErrReader(bytes.NewReader(b)) },
			"bufio 4096":            func() io.Reader { return bufio.NewReaderSize(bytes.NewReader(b), 4096) },
			"records of 300": func() io.Reader {
				return &fragReader{chunkReader: chunkReader{b: b, chunks: r.Partition(len(b), 300)}}
			},
			"records of 1000": func() io.Reader {
				return &fragReader{chunkReader: chunkReader{b: b, chunks: r.Partition(len(b), 1000)}}
			},
			"records of 70000": func() io.Reader {
				return &fragReader{chunkReader: chunkReader{b: b, chunks: r.Partition(len(b), 70_000)}}
			},
		}
		for name, mk := range readers {
			var got *smf.SMF
			var err error
			if c.Guard("panic:several-big", in, func() { got, err = smf.ReadFrom(mk()) }) {
				continue
			}
			c.Count("several_big_payload_reads", 1)
			c.Eval(1)
			if err != nil {
				c.Violation("kind:several-big", fmt.Sprintf("valid file with payloads of %v bytes read through %s: %v", bigPairs[i], name, err), in, "ok", err.Error())
				continue
			}
			if d := ref.EqualFiles(truth, fromLib(got)); d != "" {
				c.Violation("value:several-big", fmt.Sprintf("valid file with payloads of %v bytes read through %s: %s", bigPairs[i], name, d), in, nil, nil)
			}
		}
		// one single split point inside the last 600 bytes of a payload of a MiB and more (growth strategies change there)
		if bigPairs[i][0] >= 1<<20 {
			end := bytes.Index(b, []byte{0x01, 0x90, 0x00, 0x01}) // the note behind the first payload
			for cut := end - 600; end > 700 && cut <= end+2; cut += 1 + int(i)%2 {
				var got *smf.SMF
				var err error
				src := &fragReader{chunkReader: chunkReader{b: b, chunks: []int{cut, len(b) - cut}}}
				if c.Guard("panic:several-big", in, func() { got, err = smf.ReadFrom(src) }) {
					break
				}
				c.Count("single_splits_near_the_end_of_a_payload_over_1MiB", 1)
				c.Eval(1)
				if err != nil {
					c.Violation("kind:several-big", fmt.Sprintf("valid file with payloads of %v bytes, source delivers it in two pieces cut at byte %d (%d bytes before the end of the first payload): %v", bigPairs[i], cut, end-cut, err), in, "ok", err.Error())
					break
				}
				if d := ref.EqualFiles(truth, fromLib(got)); d != "" {
					c.Violation("value:several-big", fmt.Sprintf("valid file with payloads of %v bytes, source delivers it in two pieces cut at byte %d (%d bytes before the end of the first payload): %s", bigPairs[i], cut, end-cut, d), in, nil, nil)
					break
				}
			}
		}
		c.DistinctBytes([]byte(fmt.Sprint("several-big", bigPairs[i])))
	})

	// (a) truncated files with more than 4 KiB of a large payload present, all reader flavours
	c.Each("big-truncated", c.N(40, 600), func(i int64, r *mon.Rand) {
		n := r.Pick(4097, 5000, 6000, 8193, 16385)
		p := r.Bytes7(n)
		big := ref.Meta(0x01, p)
		if i%2 == 1 {
			big = append(append([]byte{0xF0}, p...), 0xF7)
		}
		f := &ref.EncFile{Format: 0, Division: 96, NTracks: -1, Tracks: [][]ref.EncEv{{{Ev: ref.Ev{Delta: 1, Msg: []byte{0x90, 1, 1}}}, {Ev: ref.Ev{Delta: 0, Msg: big}}, {Ev: ref.Ev{Delta: 2, Msg: []byte{0x80, 1, 0}}}, {Ev: ref.Ev{Delta: 0, Msg: ref.EOT}}}}}
		full := f.Bytes(nil)
		start := bytes.Index(full, p[:16])
		for _, present := range []int{0, 1, 100, 4095, 4096, 4097, 4500, n - 1, n, n + 3} {
			cut := start + present
			if cut > len(full) {
				cut = len(full)
			}
			b := full[:cut]
			want, werr := smf.ReadFrom(bytes.NewReader(b))
			wk := failKind(werr)
			for fl := 0; fl < 6; fl++ {
				var rd io.Reader
				label := ""
				switch fl {
				case 0:
					rd, label = &fragReader{chunkReader: chunkReader{b: b, eofWithLast: true}}, "data+eof"
				case 1:
					ones := make([]int, len(b))
					for j := range ones {
						ones[j] = 1
					}
					rd, label = &fragReader{chunkReader: chunkReader{b: b, chunks: ones, eofWithLast: true}}, "one-byte+eof"
				case 2:
					rd, label = &fragReader{chunkReader: chunkReader{b: b, chunks: r.Partition(len(b), 700), eofWithLast: true}}, "partition+eof"
				case 3:
					rd, label = &fragReader{chunkReader: chunkReader{b: b, chunks: r.Partition(len(b), 5000)}}, "partition"
				case 4:
					rd, label = iotest.DataErrReader(bytes.NewReader(b)), "iotest.DataErrReader"
				default:
					rd, label = bufio.NewReaderSize(bytes.NewReader(b), 16+r.Intn(5000)), "bufio.Reader"
				}
				in := map[string]any{"file": fmt.Sprintf("%d of %d bytes; payload of %d bytes starts at %d, %d of it present", cut, len(full), n, start, present), "source": label}
				var got *smf.SMF
				var err error
				if c.Guard("panic:fragmented", in, func() { got, err = smf.ReadFrom(rd) }) {
					continue
				}
				c.Count("fragmented_reads", 1)
				c.Count("big_truncated_reads", 1)
				c.Eval(1)
				if gk := failKind(err); gk != wk {
					c.Violation("kind:big-truncated", fmt.Sprintf("%s: reading from memory gives %s (%v), %s gives %s (%v)", in["file"], wk, werr, label, gk, err), in, wk, gk)
				} else if err == nil && ref.EqualFiles(fromLib(want), fromLib(got)) != "" {
					c.Violation("value:big-truncated", fmt.Sprintf("%s: value read through %s differs from the in-memory read", in["file"], label), in, nil, nil)
				}
			}
		}
		c.DistinctBytes([]byte(fmt.Sprint("bigtrunc", i, n)))
	})

	// (b) real files and buffered readers: the second track chunk header at every offset of a 4 KiB window
	//     (buffer refills of bufio / the OS page size fall on different fields)
	dir := c.Dir
	if dir == "" {
		dir = os.TempDir()
	}
	// first-track body lengths: a dense window around 4096 plus +-9 around every multiple of 4096 up to
	// 64 KiB (thorough: every length up to 8400 and +-64 around the multiples up to 128 KiB)
	var bodyLens []int
	if c.Thorough() {
		for l := 0; l < 8400; l++ {
			bodyLens = append(bodyLens, l)
		}
		for k := 3; k <= 32; k++ {
			for d := -64; d <= 64; d++ {
				bodyLens = append(bodyLens, 4096*k+d-22)
			}
		}
	} else {
		for l := 3990; l < 4200; l++ {
			bodyLens = append(bodyLens, l)
		}
		for k := 2; k <= 16; k++ {
			for d := -9; d <= 9; d++ {
				bodyLens = append(bodyLens, 4096*k+d-22) // -22: header chunk + chunk header in front of the body
			}
		}
	}
	c.Each("offset-sweep", int64(len(bodyLens)), func(i int64, r *mon.Rand) {
		bodyLen := bodyLens[i]
		// track 1: one text meta sized so that the chunk body has bodyLen bytes (+ EOT)
		var t1 []ref.EncEv
		rest := bodyLen - 4
		if rest >= 4 {
			for l := rest - 4; l >= 0; l-- {
				if 3+ref.VLQLen(uint32(l))+l <= rest {
					t1 = append(t1, ref.EncEv{Ev: ref.Ev{Delta: 0, Msg: ref.Meta(0x01, bytes.Repeat([]byte{'t'}, l))}})
					break
				}
			}
		}
		t1 = append(t1, ref.EncEv{Ev: ref.Ev{Delta: 0, Msg: ref.EOT}})
		var t2 []ref.EncEv
		n2 := 1500
		if bodyLen > 8000 || i%8 == 0 {
			n2 = 14000 // more than 32 KiB follow the second chunk header
		}
		for k := 0; k < n2; k++ {
			t2 = append(t2, ref.EncEv{Ev: ref.Ev{Delta: uint32(k % 3), Msg: []byte{0x90, byte(k & 127), byte(1 + k%100)}}, RS: true})
		}
		t2 = append(t2, ref.EncEv{Ev: ref.Ev{Delta: 0, Msg: ref.EOT}})
		f := &ref.EncFile{Format: 1, Division: 480, NTracks: -1, Tracks: [][]ref.EncEv{t1, t2, {{Ev: ref.Ev{Delta: 0, Msg: ref.EOT}}}}}
		b := f.Bytes(nil)
		want, werr := smf.ReadFrom(bytes.NewReader(b))
		if werr != nil {
			c.Violation("offset-sweep-memory", fmt.Sprintf("valid file does not read from memory: %v", werr), bodyLen, nil, nil)
			return
		}
		wf := fromLib(want)
		path := filepath.Join(dir, fmt.Sprintf("sweep-%d-%d.mid", c.Shard, i))
		if err := os.WriteFile(path, b, 0o644); err != nil {
			c.Inconclusive("cannot write scratch file: " + err.Error())
			return
		}
		defer os.Remove(path)
		type src struct {
			label string
			read  func() (*smf.SMF, error)
		}
		srcs := []src{
			{"smf.ReadFile", func() (*smf.SMF, error) { return smf.ReadFile(path) }},
			{"bufio.NewReader(os.File)", func() (*smf.SMF, error) {
				fh, err := os.Open(path)
				if err != nil {
					return nil, err
				}
				defer fh.Close()
				return smf.ReadFrom(bufio.NewReader(fh))
			}},
			{"bufio.NewReaderSize(4096)", func() (*smf.SMF, error) { return smf.ReadFrom(bufio.NewReaderSize(bytes.NewReader(b), 4096)) }},
			{"bufio.NewReaderSize(64)", func() (*smf.SMF, error) { return smf.ReadFrom(bufio.NewReaderSize(bytes.NewReader(b), 64)) }},
			{"os.File", func() (*smf.SMF, error) {
				fh, err := os.Open(path)
				if err != nil {
					return nil, err
				}
				defer fh.Close()
				return smf.ReadFrom(fh)
			}},
		}
		for _, sc := range srcs {
			in := map[string]any{"first track body": bodyLen, "second MTrk header at offset": 14 + 8 + bodyLen, "file size": len(b), "source": sc.label}
			var got *smf.SMF
			var err error
			if c.Guard("panic:source", in, func() { got, err = sc.read() }) {
				continue
			}
			c.Count("file_and_bufio_reads", 1)
			c.Eval(1)
			if err != nil {
				c.Violation("source-error:"+sc.label, fmt.Sprintf("a valid file of %d bytes (second track chunk at offset %d) reads from memory but not through %s: %v", len(b), 22+bodyLen, sc.label, err), in, "value", err.Error())
			} else if d := ref.EqualFiles(wf, fromLib(got)); d != "" {
				c.Violation("source-value:"+sc.label, fmt.Sprintf("%s gives a different value: %s", sc.label, d), in, nil, nil)
			}
		}
		c.Enumerated(1)
	})
}

// runC09Pipes: sources that are *os.File but cannot seek (pipes, FIFOs), with chunks and payloads above 4 KiB
func runC09Pipes(c *mon.Ctx) {
	dir := c.Dir
	if dir == "" {
		dir = os.TempDir()
	}
	c.Each("pipes", c.N(60, 1500), func(i int64, r *mon.Rand) {
		f := gen.SMFFile(r, gen.FileOpts{MaxTracks: 3, MaxEvents: 8, Aliens: false, PaddedVLQ: true, Running: true})
		// large unknown chunks before / between / after the tracks and a large payload
		for k := 0; k < r.Range(1, 3); k++ {
			f.Aliens = append(f.Aliens, ref.Alien{Before: r.Intn(len(f.Tracks) + 1), Type: [4]byte{'X', 'B', 'I', 'G'}, Data: r.Bytes(r.Pick(4095, 4096, 4097, 5000, 70000))})
		}
		if r.P(1, 2) {
			p := r.Bytes7(r.Pick(4097, 6000, 20000))
			f.Tracks[len(f.Tracks)-1] = append([]ref.EncEv{{Ev: ref.Ev{Delta: 0, Msg: ref.Meta(0x01, p)}}}, f.Tracks[len(f.Tracks)-1]...)
		}
		b := f.Bytes(nil)
		want, werr := smf.ReadFrom(bytes.NewReader(b))
		if werr != nil {
			c.Violation("pipes-memory", fmt.Sprintf("valid file does not read from memory: %v", werr), mon.Hex(head(b, 200)), nil, nil)
			return
		}
		wf := fromLib(want)
		for _, kind := range []string{"os.Pipe", "fifo+ReadFile", "net.Pipe"} {
			var got *smf.SMF
			var err error
			in := map[string]any{"file size": len(b), "source": kind, "unknown chunks": len(f.Aliens)}
			if c.Guard("panic:pipe", in, func() {
				switch kind {
				case "os.Pipe":
					pr, pw, e := os.Pipe()
					if e != nil {
						err = e
						return
					}
					go func() { pw.Write(b); pw.Close() }()
					got, err = smf.ReadFrom(pr)
					pr.Close()
				case "fifo+ReadFile":
					path := filepath.Join(dir, fmt.Sprintf("fifo-%d-%d", c.Shard, i))
					if e := syscall.Mkfifo(path, 0o600); e != nil {
						err = nil
						got = want // cannot create a FIFO here: skip
						return
					}
					defer os.Remove(path)
					go func() {
						fw, e := os.OpenFile(path, os.O_WRONLY, 0)
						if e == nil {
							fw.Write(b)
							fw.Close()
						}
					}()
					got, err = smf.ReadFile(path)
				default:
					a, bb := net.Pipe()
					go func() { a.Write(b); a.Close() }()
					got, err = smf.ReadFrom(bb)
					bb.Close()
				}
			}) {
				continue
			}
			c.Count("pipe_reads", 1)
			c.Eval(1)
			if err != nil {
				c.Violation("pipe-error:"+kind, fmt.Sprintf("a valid file of %d bytes reads from memory but not through %s: %v", len(b), kind, err), in, "value", err.Error())
			} else if d := ref.EqualFiles(wf, fromLib(got)); d != "" {
				c.Violation("pipe-value:"+kind, fmt.Sprintf("%s gives a different value: %s", kind, d), in, nil, nil)
			}
		}
		c.DistinctBytes([]byte(fmt.Sprint("pipe", i)))
	})
}

func head32(l []int, n int) []int {
	if len(l) > n {
		return l[:n]
	}
	return l
}
