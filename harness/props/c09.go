package props

import (
	"bytes"
	"errors"
	"fmt"
	"io"
	"strings"

	"gitlab.com/gomidi/midi/v2/smf"

	"verif/harness/gen"
	"verif/harness/mon"
	"verif/harness/ref"
)

func init() {
	mon.Register(&mon.Spec{
		ID:    "C09",
		Level: "exploration",
		Rule: "schedule enumeration over io.Reader fragmentations: seeded valid files (incl. payloads above 4 KiB and alien chunks) and random truncations of them, each read from memory and through " +
			"every single split point (exhaustive per file), one byte per Read, 5 random partitions, last bytes returned together with io.EOF, and random partitions + EOF-with-data; results compared as values or failure kinds. " +
			"distinct = distinct (file, fragmentation) pairs; non-trivial = the fragmenting reader returned at least one short count inside a multi-byte field read",
		Assumptions: []string{
			"fragmenting readers obey the io.Reader contract: at least one byte or an error per call for non-empty p; n > 0 may come together with io.EOF",
			"failure kinds: ok / tracks missing / end-of-data family / other",
		},
		Require: []string{"fragmented_reads", "short_reads_in_multibyte_field", "split_points", "eof_with_data_reads", "truncated_files", "compared_ok_values", "compared_failures", "big_payload_files"},
		Run:     runC09,
	})
}

func failKind(err error) string {
	switch {
	case err == nil:
		return "ok"
	case errors.Is(err, smf.ErrMissing):
		return "tracks-missing"
	case errors.Is(err, io.EOF), errors.Is(err, io.ErrUnexpectedEOF), strings.Contains(err.Error(), "Unexpected End of File"), strings.Contains(err.Error(), "unexpected EOF"):
		return "end-of-data"
	}
	return "other"
}

type fragReader struct {
	chunkReader
	multiShort int
}

func (r *fragReader) Read(p []byte) (int, error) {
	n, err := r.chunkReader.Read(p)
	if len(p) >= 2 && n < len(p) && n > 0 {
		r.multiShort++
	}
	return n, err
}

func runC09(c *mon.Ctx) {
	c.Each("files", c.N(1000, 60_000), func(i int64, r *mon.Rand) {
		f := gen.SMFFile(r, gen.FileOpts{MaxTracks: 4, MaxEvents: 12, AllowBig: false, Aliens: i%2 == 0, PaddedVLQ: true, Running: true})
		if i%10 == 0 {
			// a payload above the chunked-read threshold
			p := r.Bytes7(r.Pick(4095, 4096, 4097, 9000))
			f.Tracks[0] = append([]ref.EncEv{{Ev: ref.Ev{Delta: 1, Msg: ref.Meta(0x01, p)}}, {Ev: ref.Ev{Delta: 0, Msg: append(append([]byte{0xF0}, p...), 0xF7)}}}, f.Tracks[0]...)
			c.Count("big_payload_files", 1)
		}
		b := f.Bytes(nil)
		if i%3 == 1 && len(b) > 15 {
			b = b[:14+r.Intn(len(b)-14)]
			c.Count("truncated_files", 1)
		}
		want, werr := smf.ReadFrom(bytes.NewReader(b))
		wk := failKind(werr)
		var wf *ref.File
		if werr == nil {
			wf = fromLib(want)
		}
		check := func(label string, chunks []int, eof bool) {
			rd := &fragReader{chunkReader: chunkReader{b: b, chunks: append([]int(nil), chunks...), eofWithLast: eof}}
			in := map[string]any{"file": mon.Hex(b), "fragmentation": label, "chunks": head32(chunks, 40)}
			var got *smf.SMF
			var err error
			if c.Guard("panic:fragmented", in, func() { got, err = smf.ReadFrom(rd) }) {
				return
			}
			c.Count("fragmented_reads", 1)
			c.Count("short_reads_in_multibyte_field", int64(rd.multiShort))
			c.Eval(1)
			if eof {
				c.Count("eof_with_data_reads", 1)
			}
			gk := failKind(err)
			if gk != wk {
				c.Violation("kind:"+label, fmt.Sprintf("%s: reading from memory gives %s (%v), reading through the fragmenting reader gives %s (%v)", label, wk, werr, gk, err), in, wk, gk)
				return
			}
			if err == nil {
				if d := ref.EqualFiles(wf, fromLib(got)); d != "" {
					c.Violation("value:"+label, fmt.Sprintf("%s: value differs from the in-memory read: %s", label, d), in, describeFile(wf, 20), describeFile(fromLib(got), 20))
					return
				}
				c.Count("compared_ok_values", 1)
			} else {
				c.Count("compared_failures", 1)
			}
			if rd.multiShort > 0 {
				c.DistinctBytes(b, []byte(label), []byte(fmt.Sprint(chunks)))
			}
		}
		limit := len(b)
		step := 1
		if limit > 3000 {
			step = 7 // big-payload files: every 7th split point (+ the ones around the payload start)
		}
		for k := 1; k < limit; k += step {
			check("split", []int{k}, false)
			c.Count("split_points", 1)
		}
		ones := make([]int, len(b))
		for j := range ones {
			ones[j] = 1
		}
		check("one-byte", ones, false)
		check("one-byte+eof", ones, true)
		for j := 0; j < 5; j++ {
			check("random-partition", r.Partition(len(b), r.Pick(2, 3, 5, 16, 100)), j%2 == 1)
		}
		check("data+eof", nil, true)
		if i < 1 {
			c.Sample("file", map[string]any{"bytes": mon.Hex(head(b, 120)), "in-memory result": wk, "fragmentations": fmt.Sprintf("%d split points + one-byte + 5 random + data+EOF", limit-1)})
		}
	})
}

func head32(l []int, n int) []int {
	if len(l) > n {
		return l[:n]
	}
	return l
}
