package props

import (
	"bytes"
	"fmt"
	"runtime"

	"gitlab.com/gomidi/midi/v2/mmc"
	"gitlab.com/gomidi/midi/v2/sysex"

	"verif/harness/mon"
)

func init() {
	mon.Register(&mon.Spec{
		ID:    "C18",
		Level: "exploration",
		Rule: "seeded random Roland-style values (ids, 7-bit addresses, payload length 1..512 with boundary bias, request sizes) each followed by every single-byte corruption of address, payload and checksum " +
			"(quick: 3 alternative values per position incl. the +-1 and +64 neighbours; thorough: all 127); locate messages with random + boundary fields; plain commands exhaustively (device 1..127 x command 1..0x3F). " +
			"distinct = distinct built byte strings (content hash); a case is non-trivial if its checksum is non-zero or it is a request/locate/command (zero-checksum data-sets are counted separately)",
		Assumptions: []string{
			"Roland checksum rule: (sum of address + payload/size bytes + checksum) mod 128 == 0",
			"ids and addresses are 7-bit values (sysex data bytes)",
		},
		Require: []string{"dataset_values", "request_values", "corruptions_rejected", "checksum_nonzero", "locate_values", "command_values", "held_across_later_build", "reparse_after_modification", "reused_receivers", "dump_packets_built", "appends_to_parsed_payloads", "kept_values_checked_after_gc", "mmc_messages_held_across_later_builds", "built_messages_alive_at_once", "three_byte_fields_at_a_corner_value"},
		Run:     runC18,
	})
}

func runC18(c *mon.Ctx) {
	nvals := c.N(20_000, 200_000)
	// built messages are kept across later builds: a value returned by SysEx() must stay what it was
	var prevBt, prevCopy []byte
	var prevDesc any
	c.Each("roland", nvals, func(i int64, r *mon.Rand) {
		var m sysex.Manufacturer
		m.ManufacturerID = sysex.ManufacturerID(r.Byte() & 0x7F)
		m.DeviceID = r.Byte() & 0x7F
		m.ModelID = r.Byte() & 0x7F
		copy(m.Address[:], r.Bytes7(3))
		// the corners of the three-byte fields: all zero, all 7F, a single bit
		corner := func(f *[3]byte) {
			if r.P(1, 6) {
				*f = [][3]byte{{0, 0, 0}, {0x7F, 0x7F, 0x7F}, {0, 0, 1}, {1, 0, 0}, {0, 0x7F, 0}}[r.Intn(5)]
				c.Count("three_byte_fields_at_a_corner_value", 1)
			}
		}
		corner(&m.Address)
		m.InfoRequest = r.P(1, 4)
		var body []byte // bytes covered by the checksum after the address
		if m.InfoRequest {
			copy(m.NumReqBytes[:], r.Bytes7(3))
			corner(&m.NumReqBytes)
			body = m.NumReqBytes[:]
			c.Count("request_values", 1)
		} else {
			n := r.Range(1, 512)
			if r.P(1, 3) {
				n = r.Pick(1, 2, 3, 127, 128, 129, 255, 256, 511, 512)
			}
			m.SendingData = r.Bytes7(n)
			if i%7 == 0 { // force checksum-zero and checksum-boundary cases too
				s := 0
				for _, b := range m.Address {
					s += int(b)
				}
				for _, b := range m.SendingData[:n-1] {
					s += int(b)
				}
				target := []int{0, 1, 127}[r.Intn(3)] // desired checksum
				m.SendingData[n-1] = byte(((-s-target)%128 + 128) % 128)
			}
			body = m.SendingData
			c.Count("dataset_values", 1)
		}
		bt := m.SysEx()
		if prevBt != nil {
			c.Count("held_across_later_build", 1)
			if !bytes.Equal(prevBt, prevCopy) {
				c.Violation("built-bytes-changed", fmt.Sprintf("the bytes returned by an earlier SysEx() call changed when the next message was built: were %s, now %s", mon.Hex(head(prevCopy, 40)), mon.Hex(head(prevBt, 40))), prevDesc, mon.Hex(head(prevCopy, 40)), mon.Hex(head(prevBt, 40)))
			} else if p, err := sysex.Parse(prevBt); err != nil || p.Address != [3]byte{prevCopy[5], prevCopy[6], prevCopy[7]} {
				c.Violation("built-bytes-changed", fmt.Sprintf("an earlier built message no longer parses after a later build: %v", err), prevDesc, nil, nil)
			}
		}
		// layout and checksum rule
		wantHead := []byte{0xF0, byte(m.ManufacturerID), m.DeviceID, m.ModelID, 0x12, m.Address[0], m.Address[1], m.Address[2]}
		if m.InfoRequest {
			wantHead[4] = 0x11
		}
		okLayout := len(bt) == 8+len(body)+2 && bytes.Equal(bt[:8], wantHead) && bytes.Equal(bt[8:8+len(body)], body) && bt[len(bt)-1] == 0xF7
		if !okLayout {
			c.Violation("build-layout", fmt.Sprintf("SysEx() of %+v = %s", short(m), mon.Hex(bt)), short(m), "F0 id dev model 11|12 addr body checksum F7", mon.Hex(bt))
			return
		}
		sum := 0
		for _, b := range bt[5 : len(bt)-1] {
			sum += int(b)
		}
		cs := bt[len(bt)-2]
		if sum%128 != 0 || cs > 127 {
			c.Violation("checksum-rule", fmt.Sprintf("address+body+checksum of %s sums to %d (mod 128 = %d)", mon.Hex(bt), sum, sum%128), short(m), 0, sum%128)
			return
		}
		if cs != 0 {
			c.Count("checksum_nonzero", 1)
			c.DistinctBytes(bt)
		} else {
			c.Count("checksum_zero", 1)
			if m.InfoRequest {
				c.DistinctBytes(bt)
			}
		}
		// parse back
		p, err := sysex.Parse(bt)
		if err != nil {
			c.Violation("parse-rejects-built", fmt.Sprintf("Parse(SysEx()) of a valid message fails: %v; bytes %s", err, mon.Hex(bt)), short(m), "value", err.Error())
		} else if p.ManufacturerID != m.ManufacturerID || p.DeviceID != m.DeviceID || p.ModelID != m.ModelID || p.InfoRequest != m.InfoRequest ||
			p.Address != m.Address || p.NumReqBytes != m.NumReqBytes || !bytes.Equal(p.SendingData, m.SendingData) {
			c.Violation("parse-differs", fmt.Sprintf("Parse(SysEx()) = %+v, built from %+v", short(*p), short(m)), short(m), short(m), short(*p))
		} else {
			c.Count("parsed_back", 1)
			// a caller may modify the value it got back; an independent later round trip of the same
			// value must not be affected (no state shared between parse results)
			for j := range p.SendingData {
				p.SendingData[j] ^= 0x55
			}
			p.Address[0] ^= 0x7F
			bt = m.SysEx() // fresh bytes (the parse result may alias the input slice)
			if p2, err := sysex.Parse(bt); err != nil || p2.Address != m.Address || !bytes.Equal(p2.SendingData, m.SendingData) || p2.NumReqBytes != m.NumReqBytes {
				c.Violation("parse-after-modification", fmt.Sprintf("after modifying an earlier parse result in place, a fresh round trip of the same value gives %+v, %v", p2, err), short(m), short(m), fmt.Sprint(p2, err))
			}
			c.Count("reparse_after_modification", 1)
		}
		// every single-byte corruption of address, body, checksum
		for pos := 5; pos <= len(bt)-2; pos++ {
			orig := bt[pos]
			var alts []byte
			if c.Thorough() && i%8 == 0 {
				for v := 0; v < 128; v++ {
					if byte(v) != orig {
						alts = append(alts, byte(v))
					}
				}
			} else {
				alts = []byte{(orig + 1) & 0x7F, (orig + 127) & 0x7F, (orig + 64) & 0x7F}
				if x := r.Byte() & 0x7F; x != orig {
					alts = append(alts, x)
				}
			}
			for _, a := range alts {
				if a == orig {
					continue
				}
				bt[pos] = a
				q, err := sysex.Parse(bt)
				c.Count("corruptions_tried", 1)
				if err == nil {
					c.Violation("corruption-accepted", fmt.Sprintf("byte %d of %s changed from %02X to %02X still parses (as %+v)", pos, mon.Hex(bt), orig, a, short(*q)), map[string]any{"bytes": mon.Hex(bt), "pos": pos, "orig": orig, "alt": a}, "error", "nil")
				} else {
					c.Count("corruptions_rejected", 1)
				}
			}
			bt[pos] = orig
		}
		if i < 2 {
			c.Sample("roland", map[string]any{"value": short(m), "bytes": mon.Hex(bt)})
		}
		prevBt, prevCopy, prevDesc = bt, append([]byte(nil), bt...), short(m)
	})

	// a bulk dump sent in packets: the payloads of the values are adjacent windows of one caller-owned buffer
	// (so every payload slice has spare capacity that belongs to the next value). All values are defined
	// first (expectations copied), then built one after the other; each must still parse back to what it
	// was defined as.
	c.Each("dump-packets", c.N(600, 20_000), func(i int64, r *mon.Rand) {
		psize := r.Pick(1, 2, 3, 4, 16, 64, 128, 128, 256)
		npk := r.Range(2, 6)
		dump := r.Bytes7(psize*npk + r.Intn(8))
		want := append([]byte(nil), dump...)
		vals := make([]sysex.Manufacturer, npk)
		for k := range vals {
			vals[k].ManufacturerID = sysex.ManufacturerID(r.Byte() & 0x7F)
			vals[k].DeviceID = r.Byte() & 0x7F
			vals[k].ModelID = r.Byte() & 0x7F
			copy(vals[k].Address[:], r.Bytes7(3))
			vals[k].SendingData = dump[k*psize : (k+1)*psize]
		}
		order := r.Perm(npk)
		if i%2 == 0 {
			for k := range order {
				order[k] = k
			}
		}
		in := map[string]any{"dump": mon.Hex(head(want, 80)), "packet_size": psize, "packets": npk, "build_order": order}
		for _, k := range order {
			var bt []byte
			if c.Guard("panic:SysEx", in, func() { bt = vals[k].SysEx() }) {
				return
			}
			c.Count("dump_packets_built", 1)
			wantData := want[k*psize : (k+1)*psize]
			p, err := sysex.Parse(bt)
			if err != nil {
				c.Violation("parse-rejects-built", fmt.Sprintf("packet %d of a dump built from windows of one buffer does not parse: %v; bytes %s", k, err, mon.Hex(head(bt, 60))), in, "value", err.Error())
				return
			}
			if p.Address != vals[k].Address || !bytes.Equal(p.SendingData, wantData) {
				c.Violation("parse-differs", fmt.Sprintf("packet %d (payload = bytes %d..%d of the caller's dump buffer, defined before any packet was built) parses back to payload %s, defined as %s", k, k*psize, (k+1)*psize, mon.Hex(head(p.SendingData, 24)), mon.Hex(head(wantData, 24))), in, mon.Hex(head(wantData, 40)), mon.Hex(head(p.SendingData, 40)))
				return
			}
			sum := 0
			for _, b := range bt[5 : len(bt)-1] {
				sum += int(b)
			}
			if sum%128 != 0 {
				c.Violation("checksum-rule", fmt.Sprintf("address+body+checksum of packet %d sums to %d mod 128", k, sum%128), in, 0, sum%128)
				return
			}
		}
		c.DistinctBytes(want, []byte(fmt.Sprint(psize, order)))
	})

	// only parts of parse results are kept (the payload slice, a copy of the struct by value) while the result
	// pointers are dropped, garbage collections run, and more messages are parsed: what was kept stays what it was
	c.Each("kept-across-gc", c.N(60, 3000), func(i int64, r *mon.Rand) {
		n := r.Range(4, 24)
		var keptPayload [][]byte
		var keptStruct []sysex.Manufacturer
		var want [][]byte
		mkMsg := func() ([]byte, []byte) {
			var m sysex.Manufacturer
			m.ManufacturerID = sysex.ManufacturerID(r.Byte() & 0x7F)
			m.DeviceID, m.ModelID = r.Byte()&0x7F, r.Byte()&0x7F
			copy(m.Address[:], r.Bytes7(3))
			m.SendingData = r.Bytes7(r.Pick(1, 4, 16, 64, 128, 256, 512))
			return append([]byte(nil), m.SysEx()...), append([]byte(nil), m.SendingData...)
		}
		in := map[string]any{"values_kept": n}
		for k := 0; k < n; k++ {
			bt, w := mkMsg()
			p, err := sysex.Parse(bt)
			if err != nil {
				c.Violation("parse-rejects-built", fmt.Sprintf("Parse(SysEx()) fails: %v", err), in, nil, err.Error())
				return
			}
			if k%2 == 0 {
				keptPayload = append(keptPayload, p.SendingData)
				keptStruct = append(keptStruct, sysex.Manufacturer{})
			} else {
				keptPayload = append(keptPayload, nil)
				keptStruct = append(keptStruct, *p)
			}
			want = append(want, w)
		}
		for round := 0; round < 3; round++ {
			runtime.GC()
			runtime.GC()
			for k := 0; k < n; k++ { // more parsing after the collections
				bt, _ := mkMsg()
				if _, err := sysex.Parse(bt); err != nil {
					c.Violation("parse-rejects-built", fmt.Sprintf("Parse(SysEx()) fails: %v", err), in, nil, err.Error())
					return
				}
			}
			for k := 0; k < n; k++ {
				got := keptPayload[k]
				how := "the payload slice of the result was kept"
				if got == nil {
					got = keptStruct[k].SendingData
					how = "a copy of the result struct was kept"
				}
				c.Count("kept_values_checked_after_gc", 1)
				if !bytes.Equal(got, want[k]) {
					c.Violation("parsed-value-changed", fmt.Sprintf("value %d of %d (%s, the result pointer dropped): after garbage collections and %d more Parse calls its payload is %s, it was built from %s", k, n, how, (round+1)*n, mon.Hex(head(got, 12)), mon.Hex(head(want[k], 12))), in, mon.Hex(head(want[k], 16)), mon.Hex(head(got, 16)))
					return
				}
			}
		}
		c.DistinctBytes([]byte(fmt.Sprint("kept", i, n)), want[0])
	})

	// parse results belong to the caller: after several messages were parsed, the payload of each result is
	// grown with append (padding it for re-sending, say); no other result may change
	c.Each("append-to-parsed", c.N(300, 20_000), func(i int64, r *mon.Rand) {
		n := r.Range(2, 8)
		type res struct {
			p    *sysex.Manufacturer
			want []byte
		}
		var rs []res
		var sizes []int
		for k := 0; k < n; k++ {
			var m sysex.Manufacturer
			m.ManufacturerID = sysex.ManufacturerID(r.Byte() & 0x7F)
			m.DeviceID, m.ModelID = r.Byte()&0x7F, r.Byte()&0x7F
			copy(m.Address[:], r.Bytes7(3))
			m.SendingData = r.Bytes7(r.Pick(1, 3, 5, 16, 64, 128, 300))
			bt := append([]byte(nil), m.SysEx()...)
			p, err := sysex.Parse(bt)
			if err != nil {
				c.Violation("parse-rejects-built", fmt.Sprintf("Parse(SysEx()) fails: %v", err), short(m), nil, err.Error())
				return
			}
			rs = append(rs, res{p, append([]byte(nil), m.SendingData...)})
			sizes = append(sizes, len(m.SendingData))
		}
		in := map[string]any{"payload_sizes_in_parsing_order": sizes}
		order := r.Perm(n)
		for _, k := range order {
			rs[k].p.SendingData = append(rs[k].p.SendingData, 0x7F, 0x55, 0x66)
			c.Count("appends_to_parsed_payloads", 1)
			for q := range rs {
				got := rs[q].p.SendingData
				if len(got) > len(rs[q].want) {
					got = got[:len(rs[q].want)]
				}
				if !bytes.Equal(got, rs[q].want) {
					c.Violation("parsed-value-changed", fmt.Sprintf("appending 3 bytes to the payload of parse result %d changed the payload of parse result %d (not touched by the caller): now %s, built from %s", k, q, mon.Hex(head(got, 12)), mon.Hex(head(rs[q].want, 12))), in, mon.Hex(head(rs[q].want, 16)), mon.Hex(head(got, 16)))
					return
				}
			}
		}
		c.DistinctBytes([]byte(fmt.Sprint("app", sizes, order)), rs[0].want)
	})

	// the library's own documented example must parse
	c.Each("gmreset", 1, func(_ int64, _ *mon.Rand) {
		// twice, with the first result modified in place in between
		if p0, err := sysex.Parse(sysex.GMReset.SysEx()); err == nil {
			for j := range p0.SendingData {
				p0.SendingData[j] = 0x7F
			}
			p0.Address = [3]byte{1, 2, 3}
		}
		bt := sysex.GMReset.SysEx()
		if mon.Hex(bt) != "F0 41 10 42 12 40 00 7F 00 41 F7" {
			c.Violation("gmreset-changed", "the exported GMReset value no longer builds its documented bytes: "+mon.Hex(bt), nil, "F0 41 10 42 12 40 00 7F 00 41 F7", mon.Hex(bt))
		}
		p, err := sysex.Parse(bt)
		c.Count("dataset_values", 1)
		if err != nil || p.Address != sysex.GMReset.Address || !bytes.Equal(p.SendingData, sysex.GMReset.SendingData) {
			c.Violation("parse-gmreset", fmt.Sprintf("Parse(GMReset.SysEx()) = %+v, %v", p, err), mon.Hex(bt), "GMReset", fmt.Sprint(p, err))
		}
		c.DistinctBytes(bt)
	})

	// a bulk dump in thousands of packets that are all built first and sent later: 70 KiB to 300 KiB of built messages of
	// one size (16, 15, 17, 19, 24 bytes ...) are alive at the same time; every one still parses back to its value
	c.Each("many-built-messages", c.N(8, 80), func(i int64, r *mon.Rand) {
		plen := []int{6, 5, 7, 9, 14, 1, 22, 54}[i%8]
		n := 9000 + r.Intn(9000)
		vals := make([]sysex.Manufacturer, n)
		built := make([][]byte, n)
		for k := range vals {
			m := sysex.Manufacturer{ManufacturerID: sysex.ManufacturerID(0x41), DeviceID: byte(k & 15), ModelID: byte(0x42)}
			m.Address = [3]byte{byte(k >> 14 & 127), byte(k >> 7 & 127), byte(k & 127)}
			m.SendingData = r.Bytes7(plen)
			vals[k] = m
			built[k] = m.SysEx()
		}
		c.Eval(1)
		c.Count("built_messages_alive_at_once", int64(n))
		for k := range vals {
			p, err := sysex.Parse(built[k])
			if err != nil || p == nil || p.Address != vals[k].Address || !bytes.Equal(p.SendingData, vals[k].SendingData) || p.DeviceID != vals[k].DeviceID {
				c.Violation("many-built-parse", fmt.Sprintf("message %d of %d built in a row (payload %d bytes, %d bytes each) no longer parses back to its value after the later ones were built: %v", k, n, plen, len(built[k]), err), short(vals[k]), nil, mon.Hex(built[k]))
				return
			}
		}
		c.DistinctBytes([]byte(fmt.Sprint("manybuilt", i, n)))
	})

	// locate
	c.Each("goto", c.N(50_000, 1_000_000)/500, func(i int64, r *mon.Rand) {
		for k := 0; k < 500; k++ {
			g := mmc.GoTo{DeviceID: r.Byte() & 0x7F, Hour: r.Byte() & 0x7F, Minute: r.Byte() & 0x7F, Second: r.Byte() & 0x7F, Frame: r.Byte() & 0x7F, SubFrame: r.Byte() & 0x7F}
			if k < 40 {
				bs := []byte{0, 1, 23, 24, 29, 30, 59, 60, 99, 127}
				g = mmc.GoTo{DeviceID: bs[r.Intn(10)], Hour: bs[r.Intn(10)], Minute: bs[r.Intn(10)], Second: bs[r.Intn(10)], Frame: bs[r.Intn(10)], SubFrame: bs[r.Intn(10)]}
			}
			bt := g.SysEx()
			want := []byte{0xF0, 0x7F, g.DeviceID, 0x06, 0x44, 0x06, 0x01, g.Hour, g.Minute, g.Second, g.Frame, g.SubFrame, 0xF7}
			c.Count("locate_values", 1)
			if !bytes.Equal(bt, want) {
				c.Violation("goto-layout", fmt.Sprintf("GoTo%+v.SysEx() = %s", g, mon.Hex(bt)), fmt.Sprintf("%+v", g), mon.Hex(want), mon.Hex(bt))
				continue
			}
			var p mmc.GoTo
			if k%2 == 0 {
				p.Parse(mmc.GoTo{DeviceID: 99, Hour: 99, Minute: 99, Second: 99, Frame: 99, SubFrame: 99}.SysEx())
				p.Parse([]byte{0xF0, 0x7F})
			}
			if err := p.Parse(bt); err != nil || p != g {
				c.Violation("goto-parse", fmt.Sprintf("GoTo.Parse(SysEx()) = %+v, %v; built from %+v", p, err, g), fmt.Sprintf("%+v", g), fmt.Sprintf("%+v", g), fmt.Sprintf("%+v %v", p, err))
			}
			c.DistinctBytes(bt)
		}
		c.Eval(499)
	})

	// a cue list: many machine-control messages built first, then sent (parsed) later, some of them extended by the
	// caller with append in between: every built message still parses back to the value it was built from
	c.Each("mmc-batch", c.N(40, 2000), func(i int64, r *mon.Rand) {
		n := 20 + r.Intn(400)
		type item struct {
			cmd  *mmc.Message
			loc  *mmc.GoTo
			bt   []byte
			keep []byte
		}
		items := make([]item, n)
		for k := range items {
			if r.P(2, 3) {
				m := mmc.Message{DeviceID: byte(1 + r.Intn(127)), Command: mmc.Command(1 + r.Intn(0x3F))}
				items[k] = item{cmd: &m, bt: m.SysEx()}
			} else {
				g := mmc.GoTo{DeviceID: r.Byte() & 0x7F, Hour: r.Byte() & 0x7F, Minute: r.Byte() & 0x7F, Second: r.Byte() & 0x7F, Frame: r.Byte() & 0x7F, SubFrame: r.Byte() & 0x7F}
				items[k] = item{loc: &g, bt: g.SysEx()}
			}
			items[k].keep = append([]byte(nil), items[k].bt...)
		}
		for _, k := range r.Perm(n)[:n/3] {
			_ = append(items[k].bt, 0xF0, 0x7F, 0x7F, 0x06, 0x01, 0xF7) // the next message of the cue appended by the caller
		}
		c.Eval(1)
		for k, it := range items {
			c.Count("mmc_messages_held_across_later_builds", 1)
			if !bytes.Equal(it.bt, it.keep) {
				c.Violation("mmc-built-bytes-changed", fmt.Sprintf("message %d of %d built in a row changed after later messages were built / other built messages were appended to: built as % X, now % X", k, n, it.keep, it.bt), nil, mon.Hex(it.keep), mon.Hex(it.bt))
				break
			}
			if it.cmd != nil {
				var p mmc.Message
				if err := p.Parse(it.bt); err != nil || p.DeviceID != it.cmd.DeviceID || p.Command != it.cmd.Command || p.IsResponse || len(p.Data) != 0 {
					c.Violation("mmc-batch-parse", fmt.Sprintf("message %d of %d built in a row: Parse(% X) = %+v, %v; built from %+v", k, n, it.bt, p, err, *it.cmd), nil, fmt.Sprintf("%+v", *it.cmd), fmt.Sprintf("%+v %v", p, err))
					break
				}
			} else {
				var p mmc.GoTo
				if err := p.Parse(it.bt); err != nil || p != *it.loc {
					c.Violation("mmc-batch-parse", fmt.Sprintf("locate message %d of %d built in a row: Parse(% X) = %+v, %v; built from %+v", k, n, it.bt, p, err, *it.loc), nil, fmt.Sprintf("%+v", *it.loc), fmt.Sprintf("%+v %v", p, err))
					break
				}
			}
		}
		c.DistinctBytes([]byte(fmt.Sprint("mmcbatch", i, n)))
	})

	// plain commands: exhaustive
	c.Each("command", 127, func(i int64, _ *mon.Rand) {
		dev := byte(i + 1)
		for cmd := 1; cmd < 0x40; cmd++ {
			m := mmc.Message{DeviceID: dev, Command: mmc.Command(cmd)}
			bt := m.SysEx()
			want := []byte{0xF0, 0x7F, dev, 0x06, byte(cmd), 0xF7}
			c.Count("command_values", 1)
			if !bytes.Equal(bt, want) {
				c.Violation("command-layout", fmt.Sprintf("mmc.Message{%d,%#x}.SysEx() = %s", dev, cmd, mon.Hex(bt)), []int{int(dev), cmd}, mon.Hex(want), mon.Hex(bt))
				continue
			}
			var p mmc.Message
			if cmd%3 == 0 {
				// a long-lived receiver that parsed other (hand-written) messages before: responses and a data command,
				// in every order (what was parsed LAST differs: a response with data, a locate command, an empty response)
				pre := [][]byte{
					{0xF0, 0x7F, dev, 0x07, 0x01, 0x02, 0x03, 0xF7},
					{0xF0, 0x7F, dev, 0x06, 0x44, 0x06, 0x01, 1, 2, 3, 4, 5, 0xF7},
					{0xF0, 0x7F, dev, 0x07, 0xF7},
				}
				rot := (cmd/3 + int(dev)) % 3
				for k := 0; k < 3; k++ {
					p.Parse(pre[(k+rot)%3])
				}
				if (cmd/3+int(dev))%2 == 0 {
					p.Parse(mmc.GoTo{DeviceID: dev, Hour: 1, Minute: 2, Second: 3, Frame: 4, SubFrame: 5}.SysEx())
				}
				c.Count("reused_receivers", 1)
			}
			err := p.Parse(bt)
			if err != nil || p.DeviceID != dev || p.Command != mmc.Command(cmd) || p.IsResponse || len(p.Data) != 0 {
				c.Violation("command-parse", fmt.Sprintf("mmc.Message.Parse(% X) = %+v, %v", bt, p, err), []int{int(dev), cmd}, fmt.Sprintf("device %d command %#x", dev, cmd), fmt.Sprintf("%+v %v", p, err))
			}
			_ = p.String()
		}
		c.Enumerated(0x3F)
		c.Eval(0x3E)
		c.MarkExhaustive("mmc.Message: device ids 1..127 x single-byte commands 0x01..0x3F")
		if i == 0 {
			c.Sample("command", map[string]any{"device": dev, "command": "0x02", "bytes": mon.Hex(mmc.Message{DeviceID: dev, Command: 2}.SysEx())})
		}
	})
}

func short(m sysex.Manufacturer) map[string]any {
	return map[string]any{"man": byte(m.ManufacturerID), "dev": m.DeviceID, "model": m.ModelID, "req": m.InfoRequest, "addr": fmt.Sprintf("% X", m.Address[:]),
		"data": mon.Hex(head(m.SendingData, 24)), "datalen": len(m.SendingData), "size": fmt.Sprintf("% X", m.NumReqBytes[:])}
}
