package props

import (
	"bytes"
	"fmt"

	"gitlab.com/gomidi/midi/v2/smf"

	"verif/harness/mon"
	"verif/harness/ref"
)

// divisionWord is the raw 16-bit division word of a time format.
func divisionWord(tf smf.TimeFormat) (uint16, bool) {
	switch t := tf.(type) {
	case smf.MetricTicks:
		return uint16(t), true
	case smf.TimeCode:
		return uint16(byte(-int8(t.FramesPerSecond)))<<8 | uint16(t.SubFrames), true
	}
	return 0, false
}

func timeFormatOf(div uint16) smf.TimeFormat {
	if div&0x8000 == 0 {
		return smf.MetricTicks(div)
	}
	return smf.TimeCode{FramesPerSecond: uint8(-int8(byte(div >> 8))), SubFrames: uint8(div)}
}

// fromLib converts a library value to the reference content form.
func fromLib(s *smf.SMF) *ref.File {
	f := &ref.File{Format: s.Format()}
	f.Division, _ = divisionWord(s.TimeFormat)
	for _, tr := range s.Tracks {
		evs := make([]ref.Ev, 0, len(tr))
		for _, e := range tr {
			evs = append(evs, ref.Ev{Delta: e.Delta, Msg: e.Message})
		}
		f.Tracks = append(f.Tracks, evs)
	}
	return f
}

func readLib(c *mon.Ctx, class string, in any, b []byte) (s *smf.SMF, err error, panicked bool) {
	panicked = c.Guard(class, in, func() { s, err = smf.ReadFrom(bytes.NewReader(b)) })
	return
}

func describeFile(f *ref.File, maxEv int) map[string]any {
	var tr []any
	for _, t := range f.Tracks {
		var evs []string
		for i, e := range t {
			if i >= maxEv {
				evs = append(evs, fmt.Sprintf("... (%d events)", len(t)))
				break
			}
			evs = append(evs, fmt.Sprintf("+%d % X", e.Delta, head(e.Msg, 20)))
		}
		tr = append(tr, evs)
		if len(tr) >= 6 {
			break
		}
	}
	return map[string]any{"format": f.Format, "division": fmt.Sprintf("%04X", f.Division), "ntracks": len(f.Tracks), "tracks": tr}
}
