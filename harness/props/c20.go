package props

import (
	"bytes"
	"fmt"
	"sort"

	"gitlab.com/gomidi/midi/v2"
	"gitlab.com/gomidi/midi/v2/sequencer"
	"gitlab.com/gomidi/midi/v2/smf"

	"verif/harness/mon"
	"verif/harness/ref"
)

func init() {
	mon.Register(&mon.Spec{
		ID:    "C20",
		Level: "exploration",
		Rule: "seeded random songs (1..40 bars, numerators 1..24 over denominators 1,2,4,8,16,32 with bar length <= 255 thirty-seconds, inherited signatures, up to 8 tracks, resolutions divisible by 8, notes ending inside the song) " +
			"plus a fixed core list with every (numerator, denominator) pair as second bar after every other pair class; each song is exported with ToSMF0 and ToSMF1 and compared with int64 bar arithmetic. " +
			"distinct = distinct (resolution, bar signature list, event list) by content hash; non-trivial = at least 2 bars or at least one event",
		Assumptions: []string{
			"events follow the documented contract of sequencer.Event: channel messages only, note-on velocity > 0, duration only for notes",
			"a bar with zero TimeSig inherits the previous bar's signature at AddBar time (documented behaviour of AddBar)",
			"per-track assignment in ToSMF1 (events of track number n on the n-th used track) is read as part of 'multi-track export'",
		},
		Require: []string{"note_offs_edited_in_exported_files", "songs_beyond_2^20_events", "songs_beyond_2^32_ticks", "non_channel_events_in_bars", "songs", "bars_num_ge_8", "sig_changes", "notes_with_duration", "smf1_tracks", "compound_meters", "in_place_edits_between_exports", "shared_pattern_songs"},
		Run:     runC20,
	})
}

type c20Event struct {
	bar, track int
	pos, dur   uint8
	msg        []byte
}

type c20Song struct {
	res  uint16
	sigs [][2]uint8 // as passed to AddBar ({0,0} = inherit)
	evs  []c20Event
}

type tickMsg struct {
	tick int64
	msg  string
}

func sortTM(l []tickMsg) {
	sort.Slice(l, func(i, j int) bool {
		if l[i].tick != l[j].tick {
			return l[i].tick < l[j].tick
		}
		return l[i].msg < l[j].msg
	})
}

func eqTM(a, b []tickMsg) bool {
	if len(a) != len(b) {
		return false
	}
	for i := range a {
		if a[i] != b[i] {
			return false
		}
	}
	return true
}

func showTM(l []tickMsg) []string {
	var out []string
	for i, x := range l {
		if i >= 40 {
			out = append(out, "...")
			break
		}
		out = append(out, fmt.Sprintf("%d: % X", x.tick, []byte(x.msg)))
	}
	return out
}

func firstTMDiff(want, got []tickMsg) string {
	for i := 0; i < len(want) || i < len(got); i++ {
		switch {
		case i >= len(got):
			return fmt.Sprintf("missing (tick %d, % X)", want[i].tick, []byte(want[i].msg))
		case i >= len(want):
			return fmt.Sprintf("extra (tick %d, % X)", got[i].tick, []byte(got[i].msg))
		case want[i] != got[i]:
			return fmt.Sprintf("entry %d: want (tick %d, % X) got (tick %d, % X)", i, want[i].tick, []byte(want[i].msg), got[i].tick, []byte(got[i].msg))
		}
	}
	return ""
}

func (s *c20Song) describe() map[string]any {
	var ev []string
	for i, e := range s.evs {
		if i >= 30 {
			ev = append(ev, "...")
			break
		}
		ev = append(ev, fmt.Sprintf("bar %d track %d pos %d dur %d msg % X", e.bar, e.track, e.pos, e.dur, e.msg))
	}
	return map[string]any{"resolution": s.res, "bar_signatures": fmt.Sprint(s.sigs), "events": ev}
}

func checkSong(c *mon.Ctx, s *c20Song) { checkSongEdited(c, s, -1, [2]uint8{}) }

// checkSongEdited builds the song; if editBar >= 0 it first builds and exports the song with the
// original signatures, then changes the signature of that bar IN PLACE through Song.Bars() and
// exports again: the second export must follow the edited song (no stale layout).
func checkSongEdited(c *mon.Ctx, s *c20Song, editBar int, newSig [2]uint8) {
	song := sequencer.New()
	song.Ticks = smf.MetricTicks(s.res)
	song.Title = "t"
	song.Composer = "c"
	perBar := make([][]c20Event, len(s.sigs))
	for _, e := range s.evs {
		perBar[e.bar] = append(perBar[e.bar], e)
	}
	for i, sig := range s.sigs {
		var b sequencer.Bar
		b.TimeSig = sig
		for _, e := range perBar[i] {
			b.Events = append(b.Events, &sequencer.Event{TrackNo: e.track, Pos: e.pos, Duration: e.dur, Message: smf.Message(e.msg)})
		}
		song.AddBar(b)
	}

	if editBar >= 0 {
		c.Guard("panic:first-export", s.describe(), func() {
			if editBar%2 == 0 {
				song.ToSMF0()
			} else {
				song.ToSMF1()
				song.ToSMF0()
			}
		})
		// the reference below is computed for the edited song
		orig := append([][2]uint8(nil), s.sigs...)
		// inherited signatures were resolved by AddBar: make them explicit in the model first
		cur := [2]uint8{4, 4}
		for i := range orig {
			if orig[i] != [2]uint8{0, 0} {
				cur = orig[i]
			}
			orig[i] = cur
		}
		orig[editBar] = newSig
		s = &c20Song{res: s.res, sigs: orig, evs: s.evs}
		song.Bars()[editBar].TimeSig = newSig
		c.Count("in_place_edits_between_exports", 1)
	}

	// ---- reference: int64 bar arithmetic
	t32 := int64(s.res) / 8
	cur := [2]uint8{4, 4}
	eff := make([][2]uint8, len(s.sigs))
	for i, sig := range s.sigs {
		if sig != [2]uint8{0, 0} {
			cur = sig
		}
		eff[i] = cur
	}
	starts := make([]int64, len(eff)+1)
	for i, sig := range eff {
		starts[i+1] = starts[i] + ref.BarLen32(int(sig[0]), int(sig[1]))*t32
	}
	last := starts[len(eff)]
	var wantSig []tickMsg
	prev := [2]uint8{4, 4}
	for i, sig := range eff {
		if sig != prev {
			prev = sig
			wantSig = append(wantSig, tickMsg{starts[i], string(ref.Meta(0x58, []byte{sig[0], ref.Log2(int(sig[1])), 8, 8}))})
			c.Count("sig_changes", 1)
		}
		if sig[0] >= 8 {
			c.Count("bars_num_ge_8", 1)
		}
		if sig[1] == 8 && sig[0]%3 == 0 && sig[0] >= 6 {
			c.Count("compound_meters", 1)
		}
	}
	wantCh := map[int][]tickMsg{}
	var wantAll []tickMsg
	for _, e := range s.evs {
		if e.msg[0] < 0x80 || e.msg[0] >= 0xF0 {
			// tempo changes, texts, sysex inside a bar: exported somewhere, not compared; they must not
			// disturb anything that is compared
			c.Count("non_channel_events_in_bars", 1)
			continue
		}
		st := starts[e.bar] + int64(e.pos)*t32
		wantCh[e.track] = append(wantCh[e.track], tickMsg{st, string(e.msg)})
		wantAll = append(wantAll, tickMsg{st, string(e.msg)})
		if e.dur > 0 && e.msg[0]&0xF0 == 0x90 {
			off := tickMsg{st + int64(e.dur)*t32, string([]byte{0x80 | e.msg[0]&0x0F, e.msg[1], 0})}
			wantCh[e.track] = append(wantCh[e.track], off)
			wantAll = append(wantAll, off)
			c.Count("notes_with_duration", 1)
		}
	}
	wantAll = append(wantAll, wantSig...)
	sortTM(wantAll)
	sortTM(wantSig)

	// ---- observe ToSMF0
	flatten := func(tr smf.Track) (ev []tickMsg, eot []int64) {
		var abs int64
		for _, e := range tr {
			abs += int64(e.Delta)
			switch {
			case bytes.Equal(e.Message, smf.EOT):
				eot = append(eot, abs)
			case e.Message.Is(midi.ChannelMsg) || e.Message.Is(smf.MetaTimeSigMsg):
				ev = append(ev, tickMsg{abs, string(e.Message)})
			}
		}
		sortTM(ev)
		return
	}
	in := s.describe()
	var sm0, sm1 smf.SMF
	if c.Guard("panic:ToSMF0", in, func() { sm0 = song.ToSMF0() }) {
		return
	}
	if len(sm0.Tracks) != 1 {
		c.Violation("smf0-tracks", fmt.Sprintf("ToSMF0 produced %d tracks", len(sm0.Tracks)), in, 1, len(sm0.Tracks))
		return
	}
	if mt, ok := sm0.TimeFormat.(smf.MetricTicks); !ok || uint16(mt) != s.res {
		c.Violation("smf0-resolution", fmt.Sprintf("ToSMF0 time format %v", sm0.TimeFormat), in, s.res, fmt.Sprint(sm0.TimeFormat))
	}
	got0, eot0 := flatten(sm0.Tracks[0])
	if !eqTM(got0, wantAll) {
		c.Violation("smf0-events", "ToSMF0: (tick, message) multiset differs from bar arithmetic: "+firstTMDiff(wantAll, got0), in, showTM(wantAll), showTM(got0))
	}
	if len(eot0) != 1 || eot0[0] != last {
		c.Violation("smf0-end", fmt.Sprintf("ToSMF0: end of track at %v, the last bar ends at tick %d", eot0, last), in, last, eot0)
	}

	// ---- observe ToSMF1
	if c.Guard("panic:ToSMF1", in, func() { sm1 = song.ToSMF1() }) {
		return
	}
	var used []int
	for t := range wantCh {
		used = append(used, t)
	}
	sort.Ints(used)
	if len(sm1.Tracks) != 1+len(used) {
		c.Violation("smf1-tracks", fmt.Sprintf("ToSMF1 produced %d tracks for %d used track numbers", len(sm1.Tracks), len(used)), in, 1+len(used), len(sm1.Tracks))
		return
	}
	var got1All []tickMsg
	for k, tr := range sm1.Tracks {
		ev, eot := flatten(tr)
		got1All = append(got1All, ev...)
		c.Count("smf1_tracks", 1)
		if len(eot) != 1 || eot[0] != last {
			c.Violation("smf1-end", fmt.Sprintf("ToSMF1 track %d: end of track at %v, the last bar ends at tick %d", k, eot, last), in, last, eot)
		}
		if k == 0 {
			if !eqTM(ev, wantSig) {
				c.Violation("smf1-bartrack", "ToSMF1 track 0: time-signature events differ: "+firstTMDiff(wantSig, ev), in, showTM(wantSig), showTM(ev))
			}
			continue
		}
		w := append([]tickMsg(nil), wantCh[used[k-1]]...)
		sortTM(w)
		if !eqTM(ev, w) {
			c.Violation("smf1-track-assignment", fmt.Sprintf("ToSMF1 track %d (track number %d): %s", k, used[k-1], firstTMDiff(w, ev)), in, showTM(w), showTM(ev))
		}
	}
	sortTM(got1All)
	if !eqTM(got1All, got0) {
		c.Violation("smf0-vs-smf1", "ToSMF0 and ToSMF1 differ as multisets of (tick, channel message | time signature): "+firstTMDiff(got0, got1All), in, showTM(got0), showTM(got1All))
	}
	if !eqTM(got1All, wantAll) {
		c.Violation("smf1-events", "ToSMF1: (tick, message) multiset differs from bar arithmetic: "+firstTMDiff(wantAll, got1All), in, showTM(wantAll), showTM(got1All))
	}
	c.Count("songs", 1)
	// The exported files belong to the caller. Editing the note-off messages the export created (remapping
	// the channel, transposing) must not leak into any later export: the following songs of this worker are
	// independent of this one and are checked against their own model as before.
	for _, f := range []smf.SMF{sm0, sm1} {
		for _, tr := range f.Tracks {
			for _, e := range tr {
				if len(e.Message) == 3 && e.Message[0]&0xF0 == 0x80 {
					e.Message[0] = 0x80 | (e.Message[0]+9)&0x0F
					e.Message[1] = (e.Message[1] + 5) & 0x7F
					e.Message[2] = 0x55
					c.Count("note_offs_edited_in_exported_files", 1)
				}
			}
		}
	}
}

var c20Dens = []int{1, 2, 4, 8, 16, 32}

// all legal (numerator, denominator) pairs: bar length <= 255 thirty-seconds
func c20Sigs() (out [][2]uint8) {
	for _, d := range c20Dens {
		for n := 1; n <= 24; n++ {
			if ref.BarLen32(n, d) <= 255 {
				out = append(out, [2]uint8{uint8(n), uint8(d)})
			}
		}
	}
	return
}

func genC20Event(r *mon.Rand, bar int, barLen int64, remaining32 int64) c20Event {
	e := c20Event{bar: bar, track: r.Intn(8), pos: uint8(r.Intn(int(barLen)))}
	if r.P(1, 6) {
		e.pos = uint8([]int64{0, barLen - 1, barLen / 2}[r.Intn(3)])
	}
	ch := byte(r.Intn(16))
	switch r.Intn(6) {
	case 0, 1, 2, 3:
		e.msg = []byte{0x90 | ch, byte(r.Intn(128)), byte(1 + r.Intn(127))}
		// remaining32: thirty-seconds from the bar start to the end of the song
		maxDur := remaining32 - int64(e.pos)
		if maxDur > 255 {
			maxDur = 255
		}
		if maxDur >= 1 && !r.P(1, 10) {
			e.dur = uint8(1 + r.Intn(int(maxDur)))
			if r.P(1, 8) {
				e.dur = uint8(maxDur)
			}
		}
	case 4:
		e.msg = []byte{0xB0 | ch, byte(r.Intn(128)), byte(r.Intn(128))}
	default:
		e.msg = []byte{0xC0 | ch, byte(r.Intn(128))}
	}
	return e
}

func hashSong(c *mon.Ctx, s *c20Song) {
	var b bytes.Buffer
	fmt.Fprint(&b, s.res, s.sigs)
	for _, e := range s.evs {
		fmt.Fprint(&b, e.bar, e.track, e.pos, e.dur, e.msg)
	}
	if len(s.sigs) >= 2 || len(s.evs) > 0 {
		c.DistinctBytes(b.Bytes())
	}
}

func runC20(c *mon.Ctx) {
	sigs := c20Sigs()
	// core list: every ordered pair of signatures as bars 2 and 3 after a 4/4 bar, one note spanning them
	c.Each("sig-pairs", int64(len(sigs)*len(sigs)), func(i int64, r *mon.Rand) {
		a, b := sigs[int(i)/len(sigs)], sigs[int(i)%len(sigs)]
		s := &c20Song{res: uint16([]int{8, 96, 480, 960, 32760}[r.Intn(5)]), sigs: [][2]uint8{{0, 0}, a, b, {0, 0}}}
		la := ref.BarLen32(int(a[0]), int(a[1]))
		lb := ref.BarLen32(int(b[0]), int(b[1]))
		s.evs = append(s.evs, c20Event{bar: 1, track: 0, pos: uint8(la - 1), dur: uint8(min64(255, 1+lb)), msg: []byte{0x90, 60, 100}})
		s.evs = append(s.evs, c20Event{bar: 2, track: 1, pos: uint8(lb - 1), dur: 1, msg: []byte{0x91, 62, 90}})
		s.evs = append(s.evs, c20Event{bar: 3, track: 1, pos: 0, dur: 0, msg: []byte{0xB1, 7, 100}})
		hashSong(c, s)
		checkSong(c, s)
		if i == 0 {
			c.Sample("song", s.describe())
		}
	})
	c.MarkExhaustive("all ordered pairs of the legal (numerator 1..24, denominator 1..32) signatures as consecutive bars")

	// aliasing in the input: a pattern bar added several times (AddBar copies the Bar, the copies share
	// the *Event elements) and one event appended to several bars
	c.Each("shared-pattern", c.N(500, 50_000), func(i int64, r *mon.Rand) {
		song := sequencer.New()
		res := uint16(8 * r.Range(1, 400))
		song.Ticks = smf.MetricTicks(res)
		sig := sigs[r.Intn(len(sigs))]
		L := ref.BarLen32(int(sig[0]), int(sig[1]))
		var pattern sequencer.Bar
		pattern.TimeSig = sig
		ne := r.Range(1, 6)
		type pe struct {
			pos, dur uint8
			msg      []byte
			track    int
		}
		var pes []pe
		for k := 0; k < ne; k++ {
			e := pe{pos: uint8(r.Intn(int(L))), track: r.Intn(3), msg: []byte{0x90 | byte(k), byte(60 + k), 100}}
			if L-int64(e.pos) >= 1 {
				e.dur = uint8(1 + r.Intn(int(L-int64(e.pos))))
			}
			pes = append(pes, e)
			pattern.Events = append(pattern.Events, &sequencer.Event{TrackNo: e.track, Pos: e.pos, Duration: e.dur, Message: smf.Message(e.msg)})
		}
		reps := r.Range(2, 6)
		for k := 0; k < reps; k++ {
			song.AddBar(pattern)
		}
		t32 := int64(res) / 8
		var want []tickMsg
		if sig != [2]uint8{4, 4} {
			want = append(want, tickMsg{0, string(ref.Meta(0x58, []byte{sig[0], ref.Log2(int(sig[1])), 8, 8}))})
		}
		for k := 0; k < reps; k++ {
			start := int64(k) * L * t32
			for _, e := range pes {
				st := start + int64(e.pos)*t32
				want = append(want, tickMsg{st, string(e.msg)})
				if e.dur > 0 {
					want = append(want, tickMsg{st + int64(e.dur)*t32, string([]byte{0x80 | e.msg[0]&0x0F, e.msg[1], 0})})
				}
			}
		}
		sortTM(want)
		in := map[string]any{"resolution": res, "signature": fmt.Sprint(sig), "pattern events": fmt.Sprint(pes), "bar added n times": reps}
		for ex := 0; ex < 2; ex++ {
			var sm smf.SMF
			if c.Guard("panic:export", in, func() {
				if ex == 0 {
					sm = song.ToSMF0()
				} else {
					sm = song.ToSMF1()
				}
			}) {
				return
			}
			var got []tickMsg
			for _, tr := range sm.Tracks {
				var abs int64
				for _, e := range tr {
					abs += int64(e.Delta)
					if e.Message.Is(midi.ChannelMsg) || e.Message.Is(smf.MetaTimeSigMsg) {
						got = append(got, tickMsg{abs, string(e.Message)})
					}
				}
			}
			sortTM(got)
			if !eqTM(got, want) {
				c.Violation("shared-pattern", fmt.Sprintf("a pattern bar added %d times (export %d): %s", reps, ex, firstTMDiff(want, got)), in, showTM(want), showTM(got))
			}
		}
		c.Count("shared_pattern_songs", 1)
		c.Count("songs", 1)
		c.DistinctBytes([]byte(fmt.Sprint("sp", res, sig, pes, reps)))
	})

	// state carried across exports: export, edit one bar's signature in place, export again
	c.Each("edit-between-exports", c.N(2000, 200_000), func(i int64, r *mon.Rand) {
		nb := r.Range(2, 12)
		s := &c20Song{res: uint16(8 * r.Range(1, 400))}
		for k := 0; k < nb; k++ {
			if r.P(1, 2) {
				s.sigs = append(s.sigs, [2]uint8{0, 0})
			} else {
				s.sigs = append(s.sigs, sigs[r.Intn(len(sigs))])
			}
		}
		// events only at position 0 without duration, so that they stay inside any edited bar
		for k := 0; k < nb; k++ {
			if r.P(1, 2) {
				s.evs = append(s.evs, c20Event{bar: k, track: r.Intn(3), pos: 0, dur: 0, msg: []byte{0xB0 | byte(k&15), byte(k), 1}})
			}
		}
		hashSong(c, s)
		checkSongEdited(c, s, r.Intn(nb), sigs[r.Intn(len(sigs))])
	})

	// one song whose export holds more than 2^20 events (each note counts twice: on and off)
	c.Each("beyond-2^20-events", 1, func(_ int64, r *mon.Rand) {
		s := &c20Song{res: 96}
		nb := 700
		for k := 0; k < nb; k++ {
			s.sigs = append(s.sigs, [2]uint8{0, 0}) // 4/4: 32 thirty-second notes per bar
		}
		target := 1<<20 + 2000
		for n := 0; n < target; {
			bar := r.Intn(nb - 1)
			pos := uint8(r.Intn(32))
			dur := uint8(1 + r.Intn(30))
			s.evs = append(s.evs, c20Event{bar: bar, track: r.Intn(4), pos: pos, dur: dur, msg: []byte{0x90 | byte(r.Intn(16)), byte(r.Intn(128)), byte(1 + r.Intn(127))}})
			n += 2
		}
		c.CurPayload([]byte(fmt.Sprintf("song with %d notes (%d events) in %d bars", len(s.evs), 2*len(s.evs), nb)))
		checkSong(c, s)
		c.Count("songs_beyond_2^20_events", 1)
		c.DistinctBytes([]byte("beyond-2^20"))
	})

	// a song of more than 2^32 ticks (4800 bars of 15/2 and 14/2 at the finest resolution divisible by 8) with events on every
	// track in every bar and a change of signature now and then: all deltas stay small, only the positions are large
	c.Each("beyond-2^32-ticks", 1, func(_ int64, r *mon.Rand) {
		s := &c20Song{res: 32760}
		nb := 4800 // about 232 thirty-second notes per bar x 4095 ticks: 4.5e9 ticks
		for k := 0; k < nb; k++ {
			sig := [2]uint8{0, 0}
			switch {
			case k == 0 || k%100 == 50:
				sig = [2]uint8{15, 2} // 240 thirty-second notes
			case k%100 == 0:
				sig = [2]uint8{14, 2}
			}
			s.sigs = append(s.sigs, sig)
		}
		for bar := 0; bar < nb-1; bar++ {
			for tr := 0; tr < 3; tr++ {
				s.evs = append(s.evs, c20Event{bar: bar, track: tr, pos: uint8(r.Intn(200)), dur: uint8(1 + r.Intn(20)), msg: []byte{0x90 | byte(tr), byte(bar & 127), byte(1 + r.Intn(127))}})
			}
		}
		c.CurPayload([]byte(fmt.Sprintf("song of %d bars of 15/2 and 14/2 at resolution %d (more than 2^32 ticks)", nb, s.res)))
		checkSong(c, s)
		c.Count("songs_beyond_2^32_ticks", 1)
		c.DistinctBytes([]byte("beyond-2^32-ticks"))
	})

	c.Each("random-songs", c.N(3000, 3_000_000), func(i int64, r *mon.Rand) {
		s := &c20Song{}
		s.res = uint16(8 * r.Range(1, 4095))
		if r.P(1, 3) {
			s.res = uint16(r.Pick(8, 16, 24, 96, 120, 192, 384, 480, 960, 1920, 15360, 32760))
		}
		nb := r.Range(1, 40)
		if r.P(1, 4) {
			nb = r.Range(1, 4)
		}
		cur := [2]uint8{4, 4}
		lens := make([]int64, nb)
		for k := 0; k < nb; k++ {
			switch {
			case r.P(1, 2):
				s.sigs = append(s.sigs, [2]uint8{0, 0})
			case r.P(1, 4):
				cur = [][2]uint8{{6, 8}, {9, 8}, {12, 8}, {3, 4}, {7, 8}, {5, 4}, {2, 2}, {4, 4}}[r.Intn(8)]
				s.sigs = append(s.sigs, cur)
			default:
				cur = sigs[r.Intn(len(sigs))]
				s.sigs = append(s.sigs, cur)
			}
			lens[k] = ref.BarLen32(int(cur[0]), int(cur[1]))
		}
		rem := make([]int64, nb+1)
		for k := nb - 1; k >= 0; k-- {
			rem[k] = rem[k+1] + lens[k]
		}
		ne := r.Range(0, 60)
		for k := 0; k < ne; k++ {
			bar := r.Intn(nb)
			s.evs = append(s.evs, genC20Event(r, bar, lens[bar], rem[bar]))
		}
		// a ritardando, a text, a sysex inside bars: non-channel events on tracks that also hold channel events
		if len(s.evs) > 0 && r.P(1, 2) {
			for k := r.Range(1, 4); k > 0; k-- {
				host := s.evs[r.Intn(len(s.evs))]
				bar := r.Intn(nb)
				var m []byte
				switch r.Intn(4) {
				case 0, 1:
					m = smf.MetaTempo(float64(r.Range(40, 240)))
				case 2:
					m = smf.MetaText("rit.")
				default:
					m = []byte{0xF0, 0x7D, 0x01, 0xF7}
				}
				s.evs = append(s.evs, c20Event{bar: bar, track: host.track, pos: uint8(r.Intn(int(lens[bar]))), dur: 0, msg: m})
			}
		}
		hashSong(c, s)
		checkSong(c, s)
		if i < 2 {
			c.Sample("song", s.describe())
		}
	})
}

func min64(a, b int64) int64 {
	if a < b {
		return a
	}
	return b
}
