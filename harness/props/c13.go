package props

import (
	"bytes"
	"fmt"
	"math"
	"os"
	"path/filepath"
	"time"

	"gitlab.com/gomidi/midi/v2/smf"

	"verif/harness/gen"
	"verif/harness/mon"
	"verif/harness/ref"
)

func init() {
	mon.Register(&mon.Spec{
		ID:    "C13",
		Level: "exploration",
		Rule: "seeded hostile live streams in the C04 domain (channel messages with running status, start/stop/continue, clock, active sensing, tick, reset, MTC, song position, song select, tune request, sysex, stray data bytes) sent through a testdrv loopback with Driver.Sleep as clock into Track.RecordFrom " +
			"(a few through SMF.RecordFrom and smf.RecordTo), tempi 20..400 BPM, resolutions 24..15360; the recorded track is compared with the sent channel messages and tick arithmetic, then closed, written, validated by the strict SMF parser and read back. " +
			"distinct = distinct (stream, chunking, tempo, resolution); non-trivial = the stream contains at least one non-channel message and one channel message",
		Assumptions: []string{
			"expected delta of a recorded channel message = round(difference of the arrival time stamps of consecutive recorded messages x resolution x bpm / 60000), tolerance one tick",
			"the first delta is checked against the virtual-clock advance before the first message minus the testdrv session offset (at most 60 s)",
			"arrival time stamp of a message = accumulated Driver.Sleep time of the Send call that carried its last byte (C04)",
			"inter-arrival gaps are kept below 0x07FFFFFF ticks at the recording tempo and resolution (a delta must be representable in the file)",
		},
		Require: []string{"old_driver_recordings", "recordings_with_empty_deliveries", "overdubs_into_read_files", "recordings", "channel_messages_recorded", "non_channel_messages_sent", "realtime_sent", "syscommon_sent", "strict_validated", "read_back", "delta_checks", "file_level_recordings", "recordings_with_long_pause", "recordings_with_oversized_sysex", "long_sessions_beyond_2^32_ticks", "recordings_with_silence_beyond_the_delta_range", "long_takes_over_21845_messages", "takes_longer_than_2^31_ms", "takes_longer_than_2^32_ms"},
		Run:     runC13,
	})
}

const c13BaseMs = 5000

func c13ExpectedTicks(ms int64, res uint16, bpm float64) int64 {
	return int64(math.Round(float64(ms) * float64(res) * bpm / 60000))
}

func runC13(c *mon.Ctx) {
	record := func(r *mon.Rand, label string, mode int) {
		res := uint16(r.Range(24, 15360))
		if r.P(1, 2) {
			res = uint16(r.Pick(24, 96, 480, 960, 15360))
		}
		bpm := float64(r.Range(20, 400))
		if r.P(1, 3) {
			bpm = 20 + float64(r.Intn(380000))/1000
		}
		msgs := gen.LiveSequence(r, r.Range(1, 40), 1024, true)
		oversize := false
		if r.P(1, 12) {
			// 'whatever else arrives on the port': a sysex dump larger than the listener's buffer
			n := r.Pick(1025, 1026, 1027, 1500, 2048, 2049, 3000)
			sx := make([]byte, n)
			sx[0] = 0xF0
			for j := 1; j < n-1; j++ {
				sx[j] = byte(j) & 0x7F
			}
			sx[n-1] = 0xF7
			p := r.Intn(len(msgs) + 1)
			msgs = append(msgs[:p], append([][]byte{sx}, msgs[p:]...)...)
			oversize = true
		}
		w := gen.Serialize(r, msgs, gen.SerOpts{RunningStatus: true, Realtime: r.P(2, 3)})
		stream := w.Bytes
		// stray data bytes in front (ignored by a receiver without running status)
		stray := 0
		if r.P(1, 4) {
			stray = r.Range(1, 3)
			stream = append(r.Bytes7(stray), stream...)
		}
		parts := r.Partition(len(stream), r.Pick(1, 3, 8, 1000))
		if r.P(1, 3) {
			// deliveries without any data (an empty Send, an empty chunk of a forwarded stream) between the
			// others: the time that passes before them still passes
			for k := r.Range(1, 4); k > 0; k-- {
				at := r.Intn(len(parts) + 1)
				parts = append(parts[:at], append([]int{0}, parts[at:]...)...)
			}
			c.Count("recordings_with_empty_deliveries", 1)
		}
		chunks := make([][]byte, len(parts))
		deltas := make([]int32, len(parts))
		acc := make([]int64, len(parts))
		longPause := false
		// the driver is older than the recording: real time passes between creating the driver (its clock
		// starts then) and RecordFrom, more than is slept on the driver's clock before the first messages, so
		// the first time stamps of the session are negative and cross zero during the recording
		oldDriver := mode == 0 && r.P(1, 60)
		off := 0
		var t int64
		for j, p := range parts {
			chunks[j] = stream[off : off+p]
			off += p
			deltas[j] = int32(r.Intn(400))
			if r.P(1, 4) {
				deltas[j] = 0
			}
			if oldDriver {
				deltas[j] = int32(r.Intn(7))
			}
			if !longPause && !oldDriver && r.P(1, 25) { // one long pause: minutes to hours on the virtual clock
				ms := float64(r.Pick(60_000, 300_000, 600_000, 3_600_000, 7_200_000))
				// the gap must stay representable: below the SMF maximum of 0x0FFFFFFF ticks (with headroom)
				if lim := float64(0x07FFFFFF) * 60000 / (float64(res) * bpm); ms > lim {
					ms = math.Floor(lim)
				}
				deltas[j] = int32(ms)
				longPause = true
			}
			t += int64(deltas[j])
			acc[j] = t
		}
		chunkOf := func(idx int) int {
			o := 0
			for j, p := range parts {
				o += p
				if idx < o {
					return j
				}
			}
			return len(parts) - 1
		}
		// expected: channel messages with their arrival times
		type exp struct {
			msg []byte
			at  int64
		}
		var want []exp
		nonCh, rt, sc := 0, 0, 0
		for k, d := range w.Deliveries {
			switch {
			case d[0] < 0xF0:
				want = append(want, exp{d, acc[chunkOf(w.EndIdx[k]+stray)]})
			case d[0] >= 0xF8:
				rt++
				nonCh++
			case d[0] == 0xF0:
				nonCh++
			default:
				sc++
				nonCh++
			}
		}
		in := map[string]any{"case": label, "resolution": res, "bpm": bpm, "stream": mon.Hex(stream), "chunks": len(chunks), "deltas_ms": head32i(deltas, 40)}

		l := newL2()
		if oldDriver {
			time.Sleep(25 * time.Millisecond)
			in["driver"] = "created 25 ms (real time) before RecordFrom; no sleep on the driver's clock before the first message"
		}
		var tr smf.Track
		var file *smf.SMF
		var stop func()
		var stopErr func() error
		var err error
		preTracks := 0
		path := ""
		if c.Guard("panic:RecordFrom", in, func() {
			switch mode {
			case 0:
				stop, err = tr.RecordFrom(l.in, smf.MetricTicks(res), bpm)
			case 1:
				file = smf.New()
				file.TimeFormat = smf.MetricTicks(res)
				if r.P(1, 2) {
					// overdub: the target is a file that was read (it has a tempo map of its own), not a new one
					pre := smf.NewSMF1()
					pre.TimeFormat = smf.MetricTicks(res)
					var t0 smf.Track
					t0.Add(0, smf.MetaText("existing"))
					t0.Add(0, smf.MetaTempo(float64(r.Pick(60, 120, 133))))
					t0.Add(uint32(res), []byte{0x9F, 60, 100})
					t0.Add(uint32(res), []byte{0x8F, 60, 0})
					t0.Close(0)
					pre.Add(t0)
					var pb bytes.Buffer
					if _, e := pre.WriteTo(&pb); e == nil {
						if rf, e := smf.ReadFrom(bytes.NewReader(pb.Bytes())); e == nil {
							file = rf
							preTracks = 1
							c.Count("overdubs_into_read_files", 1)
						}
					}
				}
				stop, err = file.RecordFrom(l.in, bpm)
			default:
				dir := c.Dir
				if dir == "" {
					dir = os.TempDir()
				}
				path = filepath.Join(dir, fmt.Sprintf("rec-%d-%s.mid", c.Shard, label))
				res = 960 // RecordTo uses the default resolution of smf.New()
				in["resolution"] = res
				stopErr, err = smf.RecordTo(l.in, bpm, path)
			}
		}) {
			return
		}
		if err != nil {
			c.Violation("record-error", err.Error(), in, nil, err.Error())
			return
		}
		if !oldDriver {
			l.drv.Sleep(c13BaseMs * time.Millisecond)
		}
		addedMid := false
		if c.Guard("panic:recording", in, func() {
			for j, ch := range chunks {
				l.drv.Sleep(time.Duration(deltas[j]) * time.Millisecond)
				l.out.Send(ch)
				if mode == 1 && !addedMid && j >= len(chunks)/2 && r.P(1, 2) {
					// the container is used while the recording runs: other tracks are added to it
					for k := 0; k < 3; k++ {
						var other smf.Track
						other.Add(0, smf.MetaText(fmt.Sprintf("other %d", k)))
						other.Close(0)
						file.Add(other)
					}
					addedMid = true
					c.Count("tracks_added_while_recording", 1)
				}
			}
			switch mode {
			case 0:
				stop()
			case 1:
				stop()
				wantTracks := 1 + preTracks
				if addedMid {
					wantTracks += 3
				}
				if len(file.Tracks) != wantTracks {
					c.Violation("file-tracks", fmt.Sprintf("SMF.RecordFrom left %d tracks, expected %d", len(file.Tracks), wantTracks), in, wantTracks, len(file.Tracks))
					return
				}
				// the recorded track is the one that starts with the tempo event
				tr = nil
				for _, t := range file.Tracks[preTracks:] {
					if len(t) > 0 && t[0].Message.Is(smf.MetaTempoMsg) {
						tr = t
					}
				}
				if tr == nil {
					c.Violation("file-tracks", "no recorded track (starting with the tempo event) in the SMF after the recording was stopped", in, nil, nil)
					return
				}
			default:
				if e := stopErr(); e != nil {
					c.Violation("recordto-error", "stop function of RecordTo failed: "+e.Error(), in, nil, e.Error())
				}
			}
		}) {
			return
		}
		c.Count("recordings", 1)
		if longPause {
			c.Count("recordings_with_long_pause", 1)
		}
		if oversize {
			c.Count("recordings_with_oversized_sysex", 1)
		}
		c.Count("non_channel_messages_sent", int64(nonCh))
		c.Count("realtime_sent", int64(rt))
		c.Count("syscommon_sent", int64(sc))
		if mode != 0 {
			c.Count("file_level_recordings", 1)
		}
		if nonCh > 0 && len(want) > 0 {
			c.DistinctBytes(stream, []byte(fmt.Sprint(parts, res, bpm)))
		}

		var fileBytes []byte
		if mode == 2 {
			defer os.Remove(path)
			fb, e := os.ReadFile(path)
			if e != nil {
				c.Violation("recordto-nofile", "RecordTo did not write the file: "+e.Error(), in, nil, nil)
				return
			}
			fileBytes = fb
			s, e := smf.ReadFrom(bytes.NewReader(fb))
			if e != nil {
				c.Violation("recorded-file-unreadable", fmt.Sprintf("the file written by RecordTo cannot be read back: %v", e), in, nil, mon.Hex(fb))
				return
			}
			if len(s.Tracks) != 1 {
				c.Violation("file-tracks", fmt.Sprintf("RecordTo wrote %d tracks", len(s.Tracks)), in, 1, len(s.Tracks))
				return
			}
			tr = s.Tracks[0]
			if len(tr) > 0 && bytes.Equal(tr[len(tr)-1].Message, smf.EOT) {
				tr = tr[:len(tr)-1]
			}
		}
		if mode == 1 && len(tr) > 0 && bytes.Equal(tr[len(tr)-1].Message, smf.EOT) {
			tr = tr[:len(tr)-1]
		}

		// ---- content: tempo event + exactly the channel messages, in order
		wantTempo := ref.Meta(0x51, func() []byte {
			f := uint32(math.Round(60000000 / bpm))
			return []byte{byte(f >> 16), byte(f >> 8), byte(f)}
		}())
		if len(tr) == 0 || tr[0].Delta != 0 || !bytes.Equal(tr[0].Message, wantTempo) {
			c.Violation("tempo-event", "the recorded track does not start with the tempo event at delta 0", in, mon.Hex(wantTempo), trackList(tr))
			return
		}
		// the channel messages of the track, with absolute ticks (other events may sit in between as
		// long as the written file is valid and reads back identically; that is decided below)
		type rec struct {
			msg []byte
			abs int64
		}
		var body []rec
		var absT int64
		for _, e := range tr[1:] {
			absT += int64(e.Delta)
			if len(e.Message) > 0 && e.Message[0] >= 0x80 && e.Message[0] < 0xF0 {
				body = append(body, rec{e.Message, absT})
			}
		}
		if len(body) != len(want) {
			c.Violation("content", fmt.Sprintf("%d channel messages arrived, the track holds %d channel messages", len(want), len(body)), in, expList(len(want), func(i int) []byte { return want[i].msg }), trackList(tr))
		} else {
			for k, e := range body {
				if !bytes.Equal(e.msg, want[k].msg) {
					c.Violation("content", fmt.Sprintf("recorded channel message %d is % X, channel message %d that arrived was % X", k, e.msg, k, want[k].msg), in, expList(len(want), func(i int) []byte { return want[i].msg }), trackList(tr))
					break
				}
				c.Count("channel_messages_recorded", 1)
				c.Count("delta_checks", 1)
				if k == 0 && oldDriver {
					// the position of the first message depends on the unknown (negative) session offset
					c.Count("old_driver_recordings", 1)
					continue
				}
				if k == 0 {
					// (the test driver's clock starts with Listen: no session offset any more since /repo d50306c)
					lo := c13ExpectedTicks(c13BaseMs+want[0].at, res, bpm) - 1
					hi := c13ExpectedTicks(c13BaseMs+want[0].at, res, bpm) + 1
					if e.abs < lo || e.abs > hi {
						c.Violation("first-delta", fmt.Sprintf("first channel message at tick %d, expected about %d (arrival at %d ms)", e.abs, hi-1, c13BaseMs+want[0].at), in, hi-1, e.abs)
						break
					}
					continue
				}
				x := c13ExpectedTicks(want[k].at-want[k-1].at, res, bpm)
				got := e.abs - body[k-1].abs
				// each event in between may add its own rounding
				if d := got - x; d > 1 || d < -1 {
					c.Violation("delta", fmt.Sprintf("channel message %d (% X): %d ticks after the previous one; arrival time stamps differ by %d ms = %d ticks at %v BPM and resolution %d", k, e.msg, got, want[k].at-want[k-1].at, x, bpm, res), in, x, got)
					break
				}
			}
		}

		// ---- the closed, written track is a valid file that reads back to the same events
		if mode != 2 {
			full := append(smf.Track(nil), tr...)
			full.Close(0)
			s := smf.New()
			s.TimeFormat = smf.MetricTicks(res)
			s.Add(full)
			var buf bytes.Buffer
			if c.Guard("panic:WriteTo", in, func() { _, err = s.WriteTo(&buf) }) {
				return
			}
			if err != nil {
				c.Violation("write-error", err.Error(), in, nil, nil)
				return
			}
			fileBytes = buf.Bytes()
			tr = full
		} else {
			tr = append(append(smf.Track(nil), tr...), smf.Event{Delta: 0, Message: smf.EOT})
		}
		in["written_file"] = mon.Hex(fileBytes)
		if _, err := ref.Decode(fileBytes, ref.DecodeOpts{Strict: true}); err != nil {
			c.Violation("recorded-file-invalid", fmt.Sprintf("the recorded track, closed and written, is not a valid SMF: %v", err), in, "valid SMF", err.Error())
			return
		}
		c.Count("strict_validated", 1)
		s2, err, p := readLib(c, "panic:ReadFrom", in, fileBytes)
		if p {
			return
		}
		if err != nil {
			c.Violation("recorded-file-unreadable", fmt.Sprintf("the library cannot read back the recorded file: %v", err), in, nil, err.Error())
			return
		}
		if mode != 2 {
			wantF := &ref.File{Format: 0, Division: res}
			var evs []ref.Ev
			for _, e := range tr {
				evs = append(evs, ref.Ev{Delta: e.Delta, Msg: e.Message})
			}
			wantF.Tracks = [][]ref.Ev{evs}
			if d := ref.EqualFiles(wantF, fromLib(s2)); d != "" {
				c.Violation("read-back-differs", "the recorded file reads back to different events: "+d, in, trackList(tr), describeFile(fromLib(s2), 40))
				return
			}
		}
		c.Count("read_back", 1)
		if len(stream) <= 60 && nonCh > 0 && len(want) > 1 {
			c.Sample("recording", map[string]any{"stream_sent": mon.Hex(stream), "chunks": len(chunks), "gaps_ms": head32i(deltas, 12), "resolution": res, "bpm": bpm,
				"channel_messages_expected": len(want), "recorded_track": trackList(tr), "non_channel_messages_in_stream": nonCh})
		}
	}

	c.Each("track-recordings", c.N(10_000, 1_500_000), func(i int64, r *mon.Rand) {
		record(r, fmt.Sprintf("track-%d", i), 0)
	})
	// long sessions: many near-maximal gaps, the cumulative position passes 2^32 ticks
	c.Each("long-sessions", c.N(24, 600), func(i int64, r *mon.Rand) {
		res := uint16(r.Pick(15360, 12000, 9600, 15360))
		bpm := float64(r.Pick(400, 360, 400, 300))
		n := r.Range(40, 90)
		l := newL2()
		var tr smf.Track
		var stop func()
		var err error
		in := map[string]any{"resolution": res, "bpm": bpm, "messages": n, "scenario": "one channel message per Send, near-maximal gaps (up to 0x07FFFFFF ticks each), total beyond 2^32 ticks"}
		if c.Guard("panic:RecordFrom", in, func() { stop, err = tr.RecordFrom(l.in, smf.MetricTicks(res), bpm) }) || err != nil {
			return
		}
		maxMs := math.Floor(float64(0x07FFFFFF) * 60000 / (float64(res) * bpm))
		l.drv.Sleep(c13BaseMs * time.Millisecond)
		var gaps []int64
		var total int64
		for k := 0; k < n; k++ {
			g := int64(maxMs) - int64(r.Intn(1000))
			if r.P(1, 5) {
				g = int64(r.Intn(500))
			}
			if k == 0 {
				g = 0
			}
			gaps = append(gaps, g)
			total += c13ExpectedTicks(g, res, bpm)
			l.drv.Sleep(time.Duration(g) * time.Millisecond)
			l.out.Send([]byte{0x90 | byte(k&15), byte(k & 127), 100})
		}
		stop()
		c.Count("recordings", 1)
		c.Count("long_sessions", 1)
		if total > 1<<32 {
			c.Count("long_sessions_beyond_2^32_ticks", 1)
		}
		if len(tr) != n+1 {
			c.Violation("content", fmt.Sprintf("long session: %d messages sent, %d events recorded after the tempo event", n, len(tr)-1), in, n, len(tr)-1)
			return
		}
		for k := 1; k < n; k++ { // tr[0] tempo, tr[1] first message (session offset), deltas from the second message on
			x := c13ExpectedTicks(gaps[k], res, bpm)
			c.Count("delta_checks", 1)
			if d := int64(tr[k+1].Delta) - x; d > 1 || d < -1 {
				c.Violation("delta", fmt.Sprintf("long session: message %d arrived %d ms after the previous one = %d ticks, recorded delta %d (cumulative position %d ticks)", k, gaps[k], x, tr[k+1].Delta, total), in, x, tr[k+1].Delta)
				return
			}
		}
		c.DistinctBytes([]byte(fmt.Sprint("long", i, res, bpm, gaps)))
	})

	// a silence whose conversion does not fit the delta of an SMF event (KNOWN FINDINGS, see known_findings.json):
	// more than 0x0FFFFFFF ticks (43 min 41.44 s at resolution 15360 and 400 BPM) is written as a five-byte delta,
	// 2^32 ticks and more (12 h at that setting) wrap around
	c.Each("silence-beyond-the-delta-range", 2, func(i int64, _ *mon.Rand) {
		res, bpm := uint16(15360), 400.0
		gapMs := int64(2_621_440)
		if i == 1 {
			gapMs = 12 * 3600 * 1000
		}
		l := newL2()
		var tr smf.Track
		var stop func()
		var err error
		in := map[string]any{"resolution": res, "bpm": bpm, "scenario": fmt.Sprintf("note on, %d ms of silence on the driver's clock, note off", gapMs)}
		if c.Guard("panic:RecordFrom", in, func() { stop, err = tr.RecordFrom(l.in, smf.MetricTicks(res), bpm) }) || err != nil {
			return
		}
		l.drv.Sleep(10 * time.Millisecond)
		l.out.Send([]byte{0x90, 60, 100})
		l.drv.Sleep(time.Duration(gapMs) * time.Millisecond)
		l.out.Send([]byte{0x80, 60, 0})
		stop()
		c.Count("recordings", 1)
		c.Count("recordings_with_silence_beyond_the_delta_range", 1)
		c.Eval(1)
		if len(tr) != 3 {
			c.Violation("content", fmt.Sprintf("2 channel messages sent, %d events recorded after the tempo event", len(tr)-1), in, 2, len(tr)-1)
			return
		}
		x := c13ExpectedTicks(gapMs, res, bpm)
		if d := int64(tr[2].Delta) - x; d > 1 || d < -1 {
			c.ViolationSig("delta", "delta:silence-of-2^32-ticks-or-more-wraps", fmt.Sprintf("the note off arrived %d ms after the note on = %d ticks at %v BPM and resolution %d; recorded delta %d (the conversion wraps around at 2^32 ticks)", gapMs, x, bpm, res, tr[2].Delta), in, x, tr[2].Delta)
			return
		}
		full := append(smf.Track(nil), tr...)
		full.Close(0)
		f := smf.New()
		f.TimeFormat = smf.MetricTicks(res)
		f.Add(full)
		var buf bytes.Buffer
		if _, err := f.WriteTo(&buf); err != nil {
			c.Violation("write-error", err.Error(), in, nil, nil)
			return
		}
		if _, err := ref.Decode(buf.Bytes(), ref.DecodeOpts{Strict: true}); err != nil {
			in["written_file"] = mon.Hex(buf.Bytes())
			c.ViolationSig("recorded-file-invalid", "recorded-file-invalid:silence-above-0x0FFFFFFF-ticks", fmt.Sprintf("a silence of %d ms (= %d ticks, more than the 0x0FFFFFFF an SMF delta can hold) is recorded as delta %d: the recorded track, closed and written, is not a valid SMF: %v", gapMs, x, tr[2].Delta, err), in, "valid SMF", err.Error())
		}
	})

	// a long take: tens of thousands of channel messages of mixed sizes in ONE recording session (one listener), a few
	// milliseconds apart; every recorded message must still be what arrived when the take is over
	c.Each("long-take", c.N(3, 30), func(i int64, r *mon.Rand) {
		res, bpm := uint16(r.Pick(96, 480, 960)), float64(r.Pick(60, 120, 133))
		n := r.Pick(30_000, 45_000, 70_000)
		l := newL2()
		var tr smf.Track
		var stop func()
		var err error
		in := map[string]any{"resolution": res, "bpm": bpm, "messages": n, "scenario": "one take of tens of thousands of two- and three-byte channel messages, 0..3 ms apart"}
		if c.Guard("panic:RecordFrom", in, func() { stop, err = tr.RecordFrom(l.in, smf.MetricTicks(res), bpm) }) || err != nil {
			return
		}
		want := make([][]byte, 0, n)
		var atMs []int64
		var now int64
		for k := 0; k < n; k++ {
			var m []byte
			switch r.Intn(8) {
			case 0:
				m = []byte{0xC0 | byte(k&15), byte(k & 127)}
			case 1:
				m = []byte{0xD0 | byte(k&15), byte(k >> 3 & 127)}
			default:
				m = []byte{0x90 | byte(k&15), byte(k & 127), byte(1 + k>>7&63)}
			}
			d := int64(r.Intn(4))
			now += d
			l.drv.Sleep(time.Duration(d) * time.Millisecond)
			l.out.Send(m)
			want = append(want, m)
			atMs = append(atMs, now)
		}
		stop()
		c.Count("recordings", 1)
		c.Count("long_takes_over_21845_messages", 1)
		c.Eval(1)
		if len(tr) != n+1 {
			c.Violation("content", fmt.Sprintf("long take: %d messages sent, %d events recorded after the tempo event", n, len(tr)-1), in, n, len(tr)-1)
			return
		}
		var abs int64
		for k := 0; k < n; k++ {
			e := tr[k+1]
			abs += int64(e.Delta)
			c.Count("channel_messages_recorded", 1)
			if !bytes.Equal(e.Message, want[k]) {
				c.Violation("content", fmt.Sprintf("long take of %d messages: recorded channel message %d is % X, the message that arrived was % X", n, k, []byte(e.Message), want[k]), in, mon.Hex(want[k]), mon.Hex(e.Message))
				return
			}
			if x := c13ExpectedTicks(atMs[k], res, bpm); abs-x > int64(k)+1 || x-abs > int64(k)+1 {
				c.Violation("delta", fmt.Sprintf("long take: message %d arrived at %d ms = tick %d, recorded at tick %d", k, atMs[k], x, abs), in, x, abs)
				return
			}
		}
		c.DistinctBytes([]byte(fmt.Sprint("longtake", i, n)))
	})

	// a take that lasts longer than the 32-bit millisecond clock of a listener (2^31 ms = 24.8 days; an installation
	// that records for a month): every single silence is well below 2^31 ms, only their sum passes it - the time stamps
	// the listener sees wrap around, the differences between them do not
	c.Each("take-beyond-2^31-ms", c.N(40, 600), func(i int64, r *mon.Rand) {
		res, bpm := uint16(r.Pick(24, 48, 96)), float64(r.Pick(30, 40, 60))
		l := newL2()
		var tr smf.Track
		var stop func()
		var err error
		n := r.Range(5, 12)
		in := map[string]any{"resolution": res, "bpm": bpm, "messages": n, "scenario": "one take with silences of 3*10^8 .. 10^9 ms between the messages: the session passes 2^31 ms (and for the longer ones 2^32 ms)"}
		if c.Guard("panic:RecordFrom", in, func() { stop, err = tr.RecordFrom(l.in, smf.MetricTicks(res), bpm) }) || err != nil {
			return
		}
		var want [][]byte
		var atMs, gaps []int64
		var now int64
		for k := 0; k < n; k++ {
			m := []byte{0x90 | byte(k&15), byte(60 + k), byte(1 + k)}
			d := int64(r.Range(300_000_000, 1_000_000_000))
			if k == 0 || r.P(1, 4) {
				d = int64(r.Intn(2000))
			}
			now += d
			l.drv.Sleep(time.Duration(d) * time.Millisecond)
			l.out.Send(m)
			want, atMs, gaps = append(want, m), append(atMs, now), append(gaps, d)
		}
		stop()
		in["silences_ms"] = gaps
		c.Count("recordings", 1)
		c.Eval(1)
		if now > 1<<31 {
			c.Count("takes_longer_than_2^31_ms", 1)
		}
		if now > 1<<32 {
			c.Count("takes_longer_than_2^32_ms", 1)
		}
		if len(tr) != n+1 {
			c.Violation("content", fmt.Sprintf("take of %d ms: %d messages sent, %d events recorded after the tempo event", now, n, len(tr)-1), in, n, len(tr)-1)
			return
		}
		var abs int64
		for k := 0; k < n; k++ {
			e := tr[k+1]
			abs += int64(e.Delta)
			c.Count("channel_messages_recorded", 1)
			if !bytes.Equal(e.Message, want[k]) {
				c.Violation("content", fmt.Sprintf("take of %d ms: recorded channel message %d is % X, the message that arrived was % X", now, k, []byte(e.Message), want[k]), in, mon.Hex(want[k]), mon.Hex(e.Message))
				return
			}
			if x := c13ExpectedTicks(atMs[k], res, bpm); abs-x > int64(k)+1 || x-abs > int64(k)+1 {
				c.Violation("delta", fmt.Sprintf("message %d arrived %d ms after the start of the take (%d ms after its predecessor) = tick %d, recorded at tick %d (delta %d)", k, atMs[k], gaps[k], x, abs, e.Delta), in, x, abs)
				return
			}
		}
		c.DistinctBytes([]byte(fmt.Sprint("take2^31", i, now)))
	})

	// SMF.RecordFrom / smf.RecordTo: their stop functions sleep one second each
	c.Each("file-recordings", c.N(32, 480), func(i int64, r *mon.Rand) {
		record(r, fmt.Sprintf("file-%d", i), 1+int(i%2))
	})
}

func trackList(tr smf.Track) []string {
	var out []string
	for i, e := range tr {
		if i >= 60 {
			out = append(out, "...")
			break
		}
		out = append(out, fmt.Sprintf("+%d % X", e.Delta, head(e.Message, 16)))
	}
	return out
}

func expList(n int, f func(int) []byte) []string {
	var out []string
	for i := 0; i < n && i < 60; i++ {
		out = append(out, fmt.Sprintf("% X", f(i)))
	}
	return out
}

func head32i(l []int32, n int) []int32 {
	if len(l) > n {
		return l[:n]
	}
	return l
}
