package props

import (
	"bufio"
	"bytes"
	"fmt"
	"io"
	"os"
	"path/filepath"

	"gitlab.com/gomidi/midi/v2/smf"

	"verif/harness/gen"
	"verif/harness/mon"
	"verif/harness/ref"
)

// recWriter records every Write call: what the destination actually received.
type recWriter struct {
	buf   bytes.Buffer
	calls int
}

func (w *recWriter) Write(p []byte) (int, error) {
	w.calls++
	return w.buf.Write(p)
}

func init() {
	mon.Register(&mon.Spec{
		ID:    "C03",
		Level: "exploration",
		Rule: "the C01 value stream (deltas capped at 0x0FFFFFFF) with running status on and off, tracks whose bodies have exactly 127/128/255/256/16383/16384/65535/65536 bytes, a sweep of track body sizes (quick: +-40 bytes around every multiple of 4096 up to 128 KiB and all sizes 4..700; thorough: every size 4..70000), and a sweep of the variable-length quantities through the public API " +
			"(tracks of events whose deltas enumerate the range: quick = all values < 2^22, +-512 around every 2^7k boundary, 2^28-1 and a stride sample; thorough = all 2^28 legal values), plus 5-byte values of the 32-bit range and payload sizes at every length-VLQ boundary. " +
			"Every written byte stream goes through a strict SMF 1.0 validator; a value is also written after writes of another value have failed (destination error, closed file, missing directory) and must emit the same bytes as before. distinct: VLQ sweep values are distinct by construction; files by content hash; every case is non-trivial",
		Assumptions: []string{
			"the strict validator harness/ref/smf.go (header length 6, ntrks == number of MTrk chunks, exact chunk lengths, exactly one end-of-track and last, canonical VLQs of at most 4 bytes, running status only directly after a channel event of the same track, no alien chunks, no trailing bytes)",
			"for deltas above 0x0FFFFFFF (5-byte form accepted by the API) only the round trip is required, not validity (statement)",
		},
		Require: []string{"writefile_onto_existing", "writeto_file_at_offset", "files_validated", "vlq_values", "vlq_5byte_values", "bytes_emitted", "determinism_checks", "chunk_boundary_files", "length_vlq_boundaries", "running_status_events", "body_sizes_swept", "write_change_write_values", "writes_after_failed_write", "writes_into_other_destination_kinds", "sizes_compared_after_failed_write"},
		Run:     runC03,
	})
}

// richWriter offers every optional writer interface of the standard library (io.StringWriter, io.ByteWriter,
// io.ReaderFrom): whichever the library picks, the destination must end up with the same bytes.
type richWriter struct {
	buf bytes.Buffer
}

func (w *richWriter) Write(p []byte) (int, error)       { return w.buf.Write(p) }
func (w *richWriter) WriteString(s string) (int, error) { return w.buf.WriteString(s) }
func (w *richWriter) WriteByte(b byte) error            { return w.buf.WriteByte(b) }
func (w *richWriter) ReadFrom(r io.Reader) (int64, error) {
	return w.buf.ReadFrom(r)
}

var c03Kind int

// c03OtherDestination writes the value once more into another kind of destination and returns what arrived there.
func c03OtherDestination(s *smf.SMF) (kind string, got []byte, n int64, err error) {
	c03Kind++
	switch c03Kind % 4 {
	case 0:
		var b bytes.Buffer
		n, err = s.WriteTo(&b)
		return "*bytes.Buffer", b.Bytes(), n, err
	case 1:
		var rw recWriter
		bw := bufio.NewWriterSize(&rw, []int{16, 64, 4096, 65536}[(c03Kind/4)%4])
		n, err = s.WriteTo(bw)
		if ferr := bw.Flush(); err == nil {
			err = ferr
		}
		return "*bufio.Writer", rw.buf.Bytes(), n, err
	case 2:
		var w richWriter
		n, err = s.WriteTo(&w)
		return "writer with WriteString/WriteByte/ReadFrom", w.buf.Bytes(), n, err
	default:
		pr, pw := io.Pipe()
		done := make(chan []byte)
		go func() {
			bt, _ := io.ReadAll(pr)
			done <- bt
		}()
		n, err = s.WriteTo(pw)
		pw.Close()
		return "io.Pipe", <-done, n, err
	}
}

// c03Check writes a value twice into recording writers and validates the bytes.
func c03Check(c *mon.Ctx, s *smf.SMF, sh *ref.File, in map[string]any, strictRequired bool) []byte {
	var w1, w2 recWriter
	var n int64
	var err error
	if c.Guard("panic:WriteTo", in, func() { n, err = s.WriteTo(&w1) }) {
		return nil
	}
	if err != nil {
		c.Violation("write-error", fmt.Sprintf("WriteTo fails: %v", err), in, "nil", err.Error())
		return nil
	}
	b := w1.buf.Bytes()
	c.Count("bytes_emitted", int64(len(b)))
	if n != int64(len(b)) {
		c.Violation("size", fmt.Sprintf("WriteTo reports size %d, the destination received %d bytes in %d Write calls", n, len(b), w1.calls), in, len(b), n)
	}
	n2, err2 := s.WriteTo(&w2)
	c.Count("determinism_checks", 1)
	if err2 != nil || n2 != n || !bytes.Equal(w2.buf.Bytes(), b) {
		c.Violation("nondeterministic", fmt.Sprintf("second WriteTo of the same value emitted different bytes (sizes %d / %d, err %v)", n, n2, err2), in, mon.Hex(b), mon.Hex(w2.buf.Bytes()))
	}
	if kind, got, n3, err3 := c03OtherDestination(s); err3 != nil || n3 != n || !bytes.Equal(got, b) {
		c.Violation("destination-kind", fmt.Sprintf("the same value written into a %s: %d bytes arrived, size %d reported, err %v; a plain io.Writer received %d bytes", kind, len(got), n3, err3, len(b)), in, mon.Hex(head(b, 200)), mon.Hex(head(got, 200)))
	} else {
		c.Count("writes_into_other_destination_kinds", 1)
	}
	if strictRequired {
		f, err := ref.Decode(b, ref.DecodeOpts{Strict: true})
		if err != nil {
			in["bytes"] = mon.Hex(b)
			c.Violation("strict-invalid", fmt.Sprintf("written bytes are not a valid SMF 1.0 file: %v", err), in, "valid file", err.Error())
			return b
		}
		if diff := ref.EqualFiles(sh, f); diff != "" {
			in["bytes"] = mon.Hex(b)
			c.Violation("strict-content", "strict parser recovers different content: "+diff, in, describeFile(sh, 20), describeFile(f, 20))
			return b
		}
		c.Count("files_validated", 1)
	}
	return b
}

func runC03(c *mon.Ctx) {
	// ---- the C01 value stream, deltas capped
	c.Each("histories", c.N(20_000, 1_500_000), func(i int64, r *mon.Rand) {
		a := buildHistory(r, 0x0FFFFFFF, i%32 == 0)
		in := map[string]any{"history": a.desc}
		b := c03Check(c, a.s, a.sh, in, true)
		if b == nil {
			return
		}
		c.DistinctBytes(b)
		// flip the running status option: must stay valid, same content
		a.s.NoRunningStatus = !a.s.NoRunningStatus
		in["flipped NoRunningStatus"] = a.s.NoRunningStatus
		b2 := c03Check(c, a.s, a.sh, in, true)
		if b2 != nil {
			d := len(b2) - len(b)
			if d < 0 {
				d = -d
			}
			c.Count("running_status_events", int64(d))
		}
		if i < 1 {
			c.Sample("file", mon.Hex(head(b, 100)))
		}
	})

	// ---- the same value written, then changed through the exported fields, then written again
	c.Each("write-change-write", c.N(2000, 100_000), func(i int64, r *mon.Rand) {
		a := buildHistory(r, 0x0FFFFFFF, false)
		in := map[string]any{"history": a.desc}
		if c03Check(c, a.s, a.sh, in, true) == nil {
			return
		}
		switch {
		case len(a.s.Tracks) > 1 && r.P(1, 2): // shrink
			k := r.Intn(len(a.s.Tracks))
			a.s.Tracks = append(a.s.Tracks[:k:k], a.s.Tracks[k+1:]...)
			a.sh.Tracks = append(a.sh.Tracks[:k:k], a.sh.Tracks[k+1:]...)
			in["then"] = fmt.Sprintf("track %d removed from Tracks", k)
		case r.P(1, 2): // grow
			var tr smf.Track
			tr.Add(1, []byte{0xC0, 1})
			tr.Close(0)
			a.s.Add(tr)
			a.sh.Tracks = append(a.sh.Tracks, []ref.Ev{{Delta: 1, Msg: []byte{0xC0, 1}}, {Delta: 0, Msg: ref.EOT}})
			if a.sh.Format == 0 {
				a.sh.Format = 1
			}
			in["then"] = "one track added"
		default:
			a.s.NoRunningStatus = !a.s.NoRunningStatus
			in["then"] = "NoRunningStatus flipped"
		}
		if c03Check(c, a.s, a.sh, in, true) != nil {
			c.Count("write_change_write_values", 1)
		}
	})

	// ---- a write that fails (destination error at some offset, a closed file, WriteFile into a directory that does
	// not exist), then a write of another value in the same process: the second write must emit exactly what it
	// emitted before the failure (nothing of the failed write may be left in buffers that outlive the call)
	c.Each("write-after-failed-write", c.N(1500, 60_000), func(i int64, r *mon.Rand) {
		a := buildHistory(r, 0x0FFFFFFF, false)
		b := buildHistory(r, 0x0FFFFFFF, false)
		in := map[string]any{"failing history": a.desc, "history": b.desc}
		before := c03Check(c, b.s, b.sh, in, true)
		if before == nil {
			return
		}
		var refA recWriter
		if _, err := a.s.WriteTo(&refA); err != nil {
			return
		}
		size := refA.buf.Len()
		fails := 1 + r.Intn(3)
		for k := 0; k < fails; k++ {
			var err error
			switch mode := r.Intn(5); mode {
			case 0, 1, 2:
				off := r.Intn(size)
				if r.P(1, 3) {
					off = r.Pick(0, 1, 13, 14, 15, 21, 22, size-1)
					if off >= size || off < 0 {
						off = size - 1
					}
				}
				w := &faultWriter{limit: off, short: mode == 1, full: mode == 2, err: writeFaultKinds[r.Intn(len(writeFaultKinds))]}
				in["failure"] = fmt.Sprintf("destination fails at byte offset %d of %d (mode %d, %T)", off, size, mode, w.err)
				var nf int64
				nf, err = a.s.WriteTo(w)
				c.Count("sizes_compared_after_failed_write", 1)
				if err != nil && nf != int64(w.accepted) {
					c.Violation("size-after-failure", fmt.Sprintf("the destination failed at byte offset %d of %d (mode %d): it had received %d bytes, WriteTo reports size %d together with its error", off, size, mode, w.accepted, nf), in, w.accepted, nf)
				}
			case 3:
				f, ferr := os.CreateTemp(c.Dir, "closed-*.mid")
				if ferr != nil {
					continue
				}
				f.Close()
				os.Remove(f.Name())
				in["failure"] = "destination is a closed *os.File"
				_, err = a.s.WriteTo(f)
			default:
				in["failure"] = "WriteFile into a directory that does not exist"
				err = a.s.WriteFile(filepath.Join(c.Dir, "no-such-dir", fmt.Sprintf("x-%d.mid", i)))
			}
			if err == nil {
				return // decided by C10
			}
		}
		c.Count("writes_after_failed_write", 1)
		in["failed writes before"] = fails
		var w recWriter
		n, err := b.s.WriteTo(&w)
		c.Eval(1)
		if err != nil || n != int64(w.buf.Len()) || !bytes.Equal(w.buf.Bytes(), before) {
			in["bytes"] = mon.Hex(head(w.buf.Bytes(), 200))
			c.Violation("after-failed-write", fmt.Sprintf("after %d failed write(s) of another value the write of this value emits different bytes than before (size %d / %d bytes received, before %d; err %v)", fails, n, w.buf.Len(), len(before), err), in, mon.Hex(head(before, 200)), mon.Hex(head(w.buf.Bytes(), 200)))
			return
		}
		c03Check(c, b.s, b.sh, in, true)
		// and the value whose write failed is written correctly now
		c03Check(c, a.s, a.sh, map[string]any{"history": a.desc, "note": "written after its own write had failed"}, true)
	})

	// ---- WriteFile onto a path that already holds something (a longer, shorter or equally long earlier
	// export, foreign bytes, an empty file): the file must afterwards hold exactly the bytes WriteTo emits
	c.Each("writefile-existing", c.N(600, 30_000), func(i int64, r *mon.Rand) {
		if c.Dir == "" {
			return
		}
		a := buildHistory(r, 0x0FFFFFFF, false)
		in := map[string]any{"history": a.desc}
		b := c03Check(c, a.s, a.sh, in, true)
		if b == nil {
			return
		}
		path := filepath.Join(c.Dir, fmt.Sprintf("c03-existing-%d.mid", c.Shard))
		defer os.Remove(path)
		var old []byte
		switch k := i % 6; k {
		case 0: // a longer earlier export
			var other bytes.Buffer
			o := buildHistory(r, 0x0FFFFFFF, false)
			o.s.WriteTo(&other)
			old = append(other.Bytes(), b...)
			in["existing"] = "a longer valid SMF"
		case 1:
			old = append(append([]byte(nil), b...), 0)
			in["existing"] = "one byte longer"
		case 2:
			old = r.Bytes(len(b) + r.Range(1, 5000))
			in["existing"] = "longer foreign bytes"
		case 3:
			old = r.Bytes(len(b))
			in["existing"] = "equally long foreign bytes"
		case 4:
			old = r.Bytes(len(b) / 2)
			in["existing"] = "shorter"
		default:
			old = []byte{}
			in["existing"] = "empty file"
		}
		in["existing_size"] = len(old)
		if err := os.WriteFile(path, old, 0o644); err != nil {
			return
		}
		var err error
		if c.Guard("panic:WriteFile", in, func() { err = a.s.WriteFile(path) }) {
			return
		}
		if err != nil {
			c.Violation("writefile-error", "WriteFile onto an existing file fails: "+err.Error(), in, nil, err.Error())
			return
		}
		got, rerr := os.ReadFile(path)
		if rerr != nil {
			c.Violation("writefile-error", "the file written by WriteFile cannot be read: "+rerr.Error(), in, nil, nil)
			return
		}
		c.Count("writefile_onto_existing", 1)
		if !bytes.Equal(got, b) {
			msg := fmt.Sprintf("after WriteFile onto an existing file of %d bytes (%s) the file holds %d bytes, WriteTo emits %d", len(old), in["existing"], len(got), len(b))
			if len(got) > len(b) && bytes.Equal(got[:len(b)], b) {
				msg += fmt.Sprintf(": %d trailing bytes after the last track", len(got)-len(b))
			}
			c.Violation("writefile-bytes", msg, in, mon.Hex(head(b, 60)), mon.Hex(head(got, 60)))
			return
		}
		if _, derr := ref.Decode(got, ref.DecodeOpts{Strict: true}); derr != nil {
			c.Violation("strict-invalid", fmt.Sprintf("the file written by WriteFile is not a valid SMF 1.0 file: %v", derr), in, nil, derr.Error())
		}
	})

	// ---- WriteTo handed an *os.File that is not at offset 0: behind a foreign header (RIFF/RMID), several
	// values one after the other into one open file, a file opened for appending that already has content
	c.Each("writeto-file-at-offset", c.N(400, 20_000), func(i int64, r *mon.Rand) {
		if c.Dir == "" {
			return
		}
		path := filepath.Join(c.Dir, fmt.Sprintf("c03-offset-%d.bin", c.Shard))
		defer os.Remove(path)
		prefix := r.Bytes(r.Pick(1, 2, 12, 20, 512, 4096, 5000))
		nvals := r.Range(1, 3)
		appendMode := i%3 == 2
		in := map[string]any{"prefix_bytes": len(prefix), "values": nvals, "opened_with_O_APPEND": appendMode}
		var f *os.File
		var err error
		if appendMode {
			if err = os.WriteFile(path, prefix, 0o644); err == nil {
				f, err = os.OpenFile(path, os.O_WRONLY|os.O_APPEND, 0o644)
			}
		} else {
			if f, err = os.Create(path); err == nil {
				_, err = f.Write(prefix)
			}
		}
		if err != nil {
			return
		}
		want := append([]byte(nil), prefix...)
		for k := 0; k < nvals; k++ {
			a := buildHistory(r, 0x0FFFFFFF, false)
			b := c03Check(c, a.s, a.sh, map[string]any{"history": a.desc}, true)
			if b == nil {
				f.Close()
				return
			}
			var n int64
			if c.Guard("panic:WriteTo(file)", in, func() { n, err = a.s.WriteTo(f) }) {
				f.Close()
				return
			}
			if err != nil || n != int64(len(b)) {
				c.Violation("writeto-file", fmt.Sprintf("WriteTo(*os.File at offset %d) = (%d, %v), the value has %d bytes", len(want), n, err, len(b)), in, len(b), n)
				f.Close()
				return
			}
			want = append(want, b...)
		}
		f.Close()
		got, rerr := os.ReadFile(path)
		if rerr != nil {
			return
		}
		c.Count("writeto_file_at_offset", 1)
		if !bytes.Equal(got, want) {
			c.Violation("writeto-file-bytes", fmt.Sprintf("%d value(s) written with WriteTo into an open file behind %d bytes of other data: the file holds %d bytes, expected %d (prefix + exactly the bytes WriteTo emits into a buffer)", nvals, len(prefix), len(got), len(want)), in, len(want), len(got))
		}
	})

	// ---- track bodies of exact sizes around chunk-length byte boundaries
	sizes := []int{3, 4, 127, 128, 129, 255, 256, 257, 16383, 16384, 65535, 65536, 65537}
	c.Each("chunk-boundaries", int64(len(sizes)*2), func(i int64, r *mon.Rand) {
		want := sizes[int(i)/2]
		nors := i%2 == 1
		// body = events of known encoded size; the last one is a text meta padded to fit exactly; EOT (delta 0) = 4 bytes
		s := smf.NewSMF1()
		s.NoRunningStatus = nors
		var tr smf.Track
		var sh []ref.Ev
		remaining := want - 4
		add := func(d uint32, m []byte) {
			tr.Add(d, m)
			sh = append(sh, ref.Ev{Delta: d, Msg: m})
		}
		for remaining >= 60 && r.P(9, 10) {
			m := []byte{0x80 | r.Byte()&0x7F&0x6F | 0x80, r.Byte() & 0x7F, r.Byte() & 0x7F}
			m[0] = 0x90 | r.Byte()&0x0F
			// explicit status always differs from the previous event so the size is exact with and without running status
			if len(sh) > 0 && sh[len(sh)-1].Msg[0] == m[0] {
				m[0] ^= 0x01
			}
			add(0, m)
			remaining -= 4
		}
		if remaining > 0 {
			// text meta: 1 (delta) + 2 (FF 01) + vlq(len) + len == remaining
			for l := remaining; l >= 0; l-- {
				if 3+ref.VLQLen(uint32(l))+l == remaining {
					add(0, ref.Meta(0x01, bytes.Repeat([]byte{'p'}, l)))
					remaining = 0
					break
				}
			}
		}
		if remaining != 0 {
			// fill with one more note where the text could not make it exact
			for remaining >= 4 {
				add(0, []byte{0xB0, 1, 2})
				if len(sh) > 1 && sh[len(sh)-2].Msg[0] == 0xB0 && !nors {
					remaining -= 3
				} else {
					remaining -= 4
				}
			}
		}
		tr.Close(0)
		sh = append(sh, ref.Ev{Delta: 0, Msg: ref.EOT})
		s.Add(tr)
		shf := &ref.File{Format: 1, Division: 960, Tracks: [][]ref.Ev{sh}}
		in := map[string]any{"target track body size": want, "NoRunningStatus": nors}
		b := c03Check(c, s, shf, in, true)
		if b != nil {
			body := len(b) - 14 - 8
			in["actual body size"] = body
			if body == want {
				c.Count("chunk_boundary_files", 1)
			} else {
				c.Count("chunk_near_boundary_files", 1)
			}
			c.DistinctBytes(b)
		}
	})

	// ---- body-size sweep: buffer pools, chunked copies and length fields have alignment windows;
	// quick: +-40 around every multiple of 4096 up to 128 KiB; thorough: every size 4..70000
	exactTrack := func(size int, r *mon.Rand) (smf.Track, []ref.Ev, bool) {
		// body = [note 4 bytes]* + text meta (1+2+vlq(l)+l) + EOT (4)
		var tr smf.Track
		var sh []ref.Ev
		remaining := size - 4
		nNotes := r.Intn(3)
		for k := 0; k < nNotes && remaining >= 12; k++ {
			m := []byte{0x90 | byte(k), byte(r.Intn(128)), byte(1 + r.Intn(127))}
			tr.Add(0, m)
			sh = append(sh, ref.Ev{Delta: 0, Msg: m})
			remaining -= 4
		}
		for remaining > 0 {
			done := false
			for l := remaining - 4; l >= 0 && l >= remaining-8; l-- {
				if 3+ref.VLQLen(uint32(l))+l == remaining {
					m := ref.Meta(0x01, bytes.Repeat([]byte{byte('a' + l%26)}, l))
					tr.Add(0, m)
					sh = append(sh, ref.Ev{Delta: 0, Msg: m})
					remaining = 0
					done = true
					break
				}
			}
			if done {
				break
			}
			if remaining < 4 {
				return nil, nil, false
			}
			m := []byte{0xB0 | byte(remaining&15), 1, 2} // explicit status, never equal to the previous one
			if len(sh) > 0 && sh[len(sh)-1].Msg[0] == m[0] {
				m[0] ^= 1
			}
			tr.Add(0, m)
			sh = append(sh, ref.Ev{Delta: 0, Msg: m})
			remaining -= 4
		}
		tr.Close(0)
		sh = append(sh, ref.Ev{Delta: 0, Msg: ref.EOT})
		return tr, sh, true
	}
	var sizes2 []int
	if c.Thorough() {
		for sz := 4; sz <= 70000; sz++ {
			sizes2 = append(sizes2, sz)
		}
		c.MarkExhaustive("every track body size 4..70000 bytes")
	} else {
		for k := 1; k <= 32; k++ {
			for d := -40; d <= 40; d++ {
				sizes2 = append(sizes2, 4096*k+d)
			}
		}
		for sz := 4; sz <= 700; sz++ {
			sizes2 = append(sizes2, sz)
		}
	}
	// large bodies: exact multiples of 64 KiB (and their neighbours) up to 2 MiB, where block-wise copies start
	for _, k := range []int{3, 4, 5, 6, 7, 8, 16, 32} {
		for d := -1; d <= 1; d++ {
			sizes2 = append(sizes2, 65536*k+d)
		}
	}
	if c.Thorough() {
		for k := 2; k <= 32; k++ {
			for _, d := range []int{-2, 2, 4096} {
				sizes2 = append(sizes2, 65536*k+d)
			}
		}
	}
	c.Each("body-size-sweep", int64(len(sizes2)), func(i int64, r *mon.Rand) {
		size := sizes2[i]
		tr, sh, ok := exactTrack(size, r)
		if !ok {
			return
		}
		s := smf.NewSMF1()
		s.NoRunningStatus = i%2 == 0
		s.Add(tr)
		tracks := [][]ref.Ev{sh}
		if i%3 == 0 { // a second track after it: a wrong length misaligns the next chunk
			var t2 smf.Track
			t2.Add(1, []byte{0x91, 1, 1})
			t2.Close(2)
			s.Add(t2)
			tracks = append(tracks, []ref.Ev{{Delta: 1, Msg: []byte{0x91, 1, 1}}, {Delta: 2, Msg: ref.EOT}})
		}
		in := map[string]any{"track body size": size, "NoRunningStatus": s.NoRunningStatus, "tracks": len(tracks)}
		if b := c03Check(c, s, &ref.File{Format: 1, Division: 960, Tracks: tracks}, in, true); b != nil {
			body := int(b[18])<<24 | int(b[19])<<16 | int(b[20])<<8 | int(b[21])
			if body == size {
				c.Count("body_sizes_swept", 1)
			}
			if s2, err, p := readLib(c, "panic:ReadFrom", in, b); !p && (err != nil || ref.EqualFiles(&ref.File{Format: 1, Division: 960, Tracks: tracks}, fromLib(s2)) != "") {
				c.Violation("sweep-readback", fmt.Sprintf("file with a track body of %d bytes does not read back: %v", size, err), in, nil, nil)
			}
			c.Enumerated(1)
		}
	})

	// ---- VLQ sweep through the public API: deltas enumerate the range
	sweep := func(vals func(yield func(uint32))) {
		const per = 4096
		var batch []uint32
		flush := func() {
			if len(batch) == 0 {
				return
			}
			s := smf.NewSMF1()
			tr := make(smf.Track, 0, len(batch)+1)
			sh := make([]ref.Ev, 0, len(batch)+1)
			for k, v := range batch {
				m := []byte{0x90 | byte(k&1), byte(v & 0x7F), byte(k & 0x7F)} // alternate status: no running status interplay
				tr = append(tr, smf.Event{Delta: v, Message: m})
				sh = append(sh, ref.Ev{Delta: v, Msg: m})
			}
			tr.Close(0)
			sh = append(sh, ref.Ev{Delta: 0, Msg: ref.EOT})
			s.Tracks = append(s.Tracks, tr)
			shf := &ref.File{Format: 1, Division: 960, Tracks: [][]ref.Ev{sh}}
			in := map[string]any{"vlq sweep": fmt.Sprintf("deltas %d..%d (%d values)", batch[0], batch[len(batch)-1], len(batch))}
			big := batch[len(batch)-1] > 0x0FFFFFFF || batch[0] > 0x0FFFFFFF
			b := c03Check(c, s, shf, in, !big)
			if b != nil {
				// and the library's own VLQ reader must give the same numbers back
				s2, err, p := readLib(c, "panic:ReadFrom", in, b)
				if !p {
					if err != nil {
						c.Violation("vlq-readback", fmt.Sprintf("ReadFrom of the VLQ sweep file fails: %v", err), in, nil, err.Error())
					} else if diff := ref.EqualFiles(shf, fromLib(s2)); diff != "" {
						c.Violation("vlq-readback", "library reads back different deltas: "+diff, in, nil, nil)
					}
				}
				if big {
					c.Count("vlq_5byte_values", int64(len(batch)))
				} else {
					c.Count("vlq_values", int64(len(batch)))
				}
				c.Enumerated(int64(len(batch)))
				c.Eval(int64(len(batch)))
			}
			batch = batch[:0]
		}
		vals(func(v uint32) {
			batch = append(batch, v)
			if len(batch) == per {
				flush()
			}
		})
		flush()
	}
	if c.Thorough() {
		c.EachBlock("vlq-all", 1<<28, 1<<18, func(lo, hi int64) {
			sweep(func(yield func(uint32)) {
				for v := lo; v < hi; v++ {
					yield(uint32(v))
				}
			})
		})
		c.MarkExhaustive("all 2^28 legal variable-length quantities as delta times through SMF.WriteTo, strict parser and smf.ReadFrom")
	} else {
		c.EachBlock("vlq-low", 1<<22, 1<<15, func(lo, hi int64) {
			sweep(func(yield func(uint32)) {
				for v := lo; v < hi; v++ {
					yield(uint32(v))
				}
			})
		})
		c.MarkExhaustive("all variable-length quantities below 2^22 as delta times")
		c.Each("vlq-boundaries", 4, func(i int64, _ *mon.Rand) {
			center := []int64{1 << 7, 1 << 14, 1 << 21, 1 << 28}[i]
			sweep(func(yield func(uint32)) {
				for v := center - 512; v < center+512; v++ {
					if v >= 0 && v <= 0x0FFFFFFF {
						yield(uint32(v))
					}
				}
			})
		})
		c.EachBlock("vlq-stride", (1<<28)/4099, 4096, func(lo, hi int64) {
			sweep(func(yield func(uint32)) {
				for k := lo; k < hi; k++ {
					yield(uint32(k * 4099))
				}
			})
		})
	}
	// 5-byte values of the 32-bit range the API accepts: round trip only
	c.Each("vlq-5byte", c.N(16, 256), func(i int64, r *mon.Rand) {
		sweep(func(yield func(uint32)) {
			for _, v := range []uint32{1 << 28, 1<<28 + 1, 1<<29 - 1, 1 << 29, 1 << 30, 1 << 31, 1<<31 - 1, 1<<32 - 1, 1<<32 - 2} {
				yield(v)
			}
			for k := 0; k < 2000; k++ {
				yield(1<<28 + r.U32()%(1<<32-1<<28))
			}
		})
	})

	// ---- length VLQs: payload sizes at every length boundary
	plens := []int{0, 1, 126, 127, 128, 129, 16382, 16383, 16384, 16385, 2097151, 2097152, 2097153}
	c.Each("length-vlq", int64(len(plens)), func(i int64, r *mon.Rand) {
		n := plens[i]
		p := r.Bytes7(n)
		s := smf.New()
		var tr smf.Track
		ms := [][]byte{ref.Meta(0x05, p), append(append([]byte{0xF0}, p...), 0xF7), append([]byte{0xF7}, p...), ref.Meta(0x7F, p)}
		var sh []ref.Ev
		for _, m := range ms {
			tr.Add(uint32(n), m)
			sh = append(sh, ref.Ev{Delta: uint32(n), Msg: m})
		}
		tr.Close(0)
		sh = append(sh, ref.Ev{Delta: 0, Msg: ref.EOT})
		s.Add(tr)
		in := map[string]any{"payload length": n}
		if b := c03Check(c, s, &ref.File{Format: 0, Division: 960, Tracks: [][]ref.Ev{sh}}, in, true); b != nil {
			c.Count("length_vlq_boundaries", 1)
			c.DistinctBytes([]byte(fmt.Sprint("len", n)))
		}
	})
	_ = gen.Delta
}
