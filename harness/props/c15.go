package props

import (
	"bytes"
	"fmt"
	"math"

	"gitlab.com/gomidi/midi/v2/smf"

	"verif/harness/mon"
	"verif/harness/ref"
)

func init() {
	mon.Register(&mon.Spec{
		ID:    "C15",
		Level: "exploration",
		Rule: "enumerated argument tuples of every Meta* constructor (text/sequencer-data lengths, all numeric arguments, all key tuples and named keys, tempo field values); " +
			"a case is non-trivial always: the constructor output is parsed by an independent FF/type/VLQ/payload parser, compared with the spec payload layout, and the matching accessor's result is compared with the arguments. " +
			"Enumerations are injective (distinct by index); random text contents are counted by content hash",
		Assumptions: []string{
			"SMF 1.0 payload layouts as transcribed in this file and harness/ref/vlq.go (circle of fifths, log2 denominators, microseconds per quarter)",
			"time-signature clock fields equal to 0 are documented shorthand for 8 (statement)",
			"with 0 accidentals the flat/sharp flag is reported as sharp (false): the circle of fifths has no flats there",
			"tempo domain is the set of BPM values 60e6/f for every 24-bit field value f >= 1 (every representable tempo)",
		},
		Require: []string{"appends_to_returned_messages", "empty_texts_through_a_used_variable", "shared_out_variable_reads", "text_len_ge_128", "seqdata_len_ge_128", "tempo_fields", "named_keys", "key_tuples", "timesig_tuples", "meta_msgs_classified", "text_dictionary_points", "nil_pattern_calls", "damaged_text_events_queried_before_the_same_text", "smpte_grid_points"},
		Run:     runC15,
	})
}

type textKind struct {
	name string
	typ  byte
	mk   func(string) smf.Message
	get  func(smf.Message, *string) bool
}

var textKinds = []textKind{
	{"Lyric", 0x05, smf.MetaLyric, func(m smf.Message, s *string) bool { return m.GetMetaLyric(s) }},
	{"Copyright", 0x02, smf.MetaCopyright, func(m smf.Message, s *string) bool { return m.GetMetaCopyright(s) }},
	{"Cuepoint", 0x07, smf.MetaCuepoint, func(m smf.Message, s *string) bool { return m.GetMetaCuepoint(s) }},
	{"Device", 0x09, smf.MetaDevice, func(m smf.Message, s *string) bool { return m.GetMetaDevice(s) }},
	{"Instrument", 0x04, smf.MetaInstrument, func(m smf.Message, s *string) bool { return m.GetMetaInstrument(s) }},
	{"Marker", 0x06, smf.MetaMarker, func(m smf.Message, s *string) bool { return m.GetMetaMarker(s) }},
	{"Program", 0x08, smf.MetaProgram, func(m smf.Message, s *string) bool { return m.GetMetaProgramName(s) }},
	{"Text", 0x01, smf.MetaText, func(m smf.Message, s *string) bool { return m.GetMetaText(s) }},
	{"TrackSequenceName", 0x03, smf.MetaTrackSequenceName, func(m smf.Message, s *string) bool { return m.GetMetaTrackName(s) }},
}

type namedKey struct {
	name  string
	fn    func() smf.Message
	tonic uint8
	num   uint8
	major bool
	flat  bool
}

// the key of each constructor's name, from music theory (not from the library)
var namedKeys = []namedKey{
	{"CMaj", smf.CMaj, 0, 0, true, false}, {"GMaj", smf.GMaj, 7, 1, true, false}, {"DMaj", smf.DMaj, 2, 2, true, false},
	{"AMaj", smf.AMaj, 9, 3, true, false}, {"EMaj", smf.EMaj, 4, 4, true, false}, {"BMaj", smf.BMaj, 11, 5, true, false},
	{"FsharpMaj", smf.FsharpMaj, 6, 6, true, false},
	{"FMaj", smf.FMaj, 5, 1, true, true}, {"BbMaj", smf.BbMaj, 10, 2, true, true}, {"EbMaj", smf.EbMaj, 3, 3, true, true},
	{"AbMaj", smf.AbMaj, 8, 4, true, true}, {"DbMaj", smf.DbMaj, 1, 5, true, true}, {"GbMaj", smf.GbMaj, 6, 6, true, true},
	{"AMin", smf.AMin, 9, 0, false, false}, {"EMin", smf.EMin, 4, 1, false, false}, {"BMin", smf.BMin, 11, 2, false, false},
	{"FsharpMin", smf.FsharpMin, 6, 3, false, false}, {"CsharpMin", smf.CsharpMin, 1, 4, false, false}, {"GsharpMin", smf.GsharpMin, 8, 5, false, false},
	{"DsharpMin", smf.DsharpMin, 3, 6, false, false},
	{"DMin", smf.DMin, 2, 1, false, true}, {"GMin", smf.GMin, 7, 2, false, true}, {"CMin", smf.CMin, 0, 3, false, true},
	{"FMin", smf.FMin, 5, 4, false, true}, {"BbMin", smf.BbMin, 10, 5, false, true}, {"EbMin", smf.EbMin, 3, 6, false, true},
}

// metaLayout checks FF/type/canonical VLQ/payload of a constructor's output.
func metaLayout(c *mon.Ctx, ctor string, args any, m smf.Message, typ byte, payload []byte) bool {
	c.Count("meta_msgs_classified", 1)
	classifySMF(c, m)
	gt, gp, ok := ref.ParseMeta(m)
	if !ok || gt != typ || !bytes.Equal(gp, payload) {
		c.Violation("layout:"+ctor, fmt.Sprintf("%s(%v) = %s is not FF %02X VLQ(%d) + the spec payload %s", ctor, args, mon.Hex(m), typ, len(payload), mon.Hex(payload)), args, mon.Hex(ref.Meta(typ, payload)), mon.Hex(m))
		return false
	}
	return true
}

func keepOr(l [][]byte, k int) []byte {
	if k < 0 || k >= len(l) {
		return nil
	}
	return l[k]
}

func runC15(c *mon.Ctx) {
	// ---- texts and sequencer data: lengths
	var lens []int
	if c.Thorough() {
		for n := 0; n <= 20000; n++ {
			lens = append(lens, n)
		}
		c.MarkExhaustive("every text length 0..20000 and sequencer-data length 1..20000")
	} else {
		for n := 0; n <= 300; n++ {
			lens = append(lens, n)
		}
		lens = append(lens, 16382, 16383, 16384, 16385, 20000, 1000, 8191, 8192)
	}
	c.Each("text", int64(len(lens)), func(i int64, r *mon.Rand) {
		n := lens[i]
		for _, k := range textKinds {
			var t []byte
			switch r.Intn(3) {
			case 0:
				t = r.Bytes(n)
			case 1:
				t = bytes.Repeat([]byte{0xFF}, n)
			default:
				t = bytes.Repeat([]byte{byte('a' + r.Intn(26))}, n)
			}
			if n >= 1 && n <= 120 && r.P(1, 2) {
				// a damaged event with the same text bytes was looked at just before (length byte too large: data missing; too
				// small: bytes left over): whatever the accessor made of it, it must not colour the well-formed event
				ln := n + 1 + r.Intn(5)
				if r.Bool() {
					ln = n - 1 - r.Intn(n)
				}
				bad := smf.Message(append([]byte{0xFF, k.typ, byte(ln)}, t...))
				var tmp string
				c.Guard("panic:malformed-text", map[string]any{"message": mon.Hex(bad)}, func() { k.get(bad, &tmp) })
				c.Count("damaged_text_events_queried_before_the_same_text", 1)
			}
			m := k.mk(string(t))
			c.Count("text_points", 1)
			if n >= 128 {
				c.Count("text_len_ge_128", 1)
			}
			if !metaLayout(c, "Meta"+k.name, fmt.Sprintf("len=%d", n), m, k.typ, t) {
				continue
			}
			got := "\x00unset"
			ok := k.get(m, &got)
			if !ok || got != string(t) {
				c.Violation("accessor:Meta"+k.name, fmt.Sprintf("accessor of Meta%s(text of %d bytes): ok=%v, returned %d bytes", k.name, n, ok, len(got)), n, len(t), len(got))
			}
			c.DistinctBytes([]byte(k.name), t)
		}
		if n >= 1 {
			d := r.Bytes(n)
			m := smf.MetaSequencerData(d)
			c.Count("seqdata_points", 1)
			if n >= 128 {
				c.Count("seqdata_len_ge_128", 1)
			}
			if metaLayout(c, "MetaSequencerData", fmt.Sprintf("len=%d", n), m, 0x7F, d) {
				got := []byte{0xEE}
				ok := m.GetMetaSeqData(&got)
				if !ok || !bytes.Equal(got, d) {
					c.Violation("accessor:MetaSequencerData", fmt.Sprintf("GetMetaSeqData(MetaSequencerData(%d bytes)): ok=%v, returned %d bytes starting % X, data starts % X", n, ok, len(got), head(got, 4), head(d, 4)), n, mon.Hex(head(d, 16)), mon.Hex(head(got, 16)))
				}
			}
			c.DistinctBytes([]byte("seqdata"), d)
		}
		if n == 128 {
			c.Sample("text", map[string]any{"ctor": "MetaText", "len": n, "head": mon.Hex(head(smf.MetaText(string(bytes.Repeat([]byte("x"), n))), 8))})
		}
	})

	// ---- one out variable used for many messages, in several passes (the way a loop over a track reads
	// them): what an accessor returns for one message must not depend on, or change, any other message
	c.Each("out-variable-reuse", c.N(200, 10_000), func(i int64, r *mon.Rand) {
		n := r.Range(3, 10)
		type item struct {
			m    smf.Message
			keep []byte // the message bytes as constructed
			data []byte // constructor argument (sequencer data) or text
			text bool
			get  func(smf.Message, *string) bool
		}
		items := make([]item, n)
		var sizes []int
		for k := range items {
			ln := r.Pick(1, 2, 3, 100, 127, 128, 129, 5000, 16383, 16384, 20000)
			if r.P(1, 3) {
				ln = r.Range(1, 300)
			}
			d := r.Bytes(ln)
			if r.P(1, 3) {
				// texts through one string variable, the empty text among them (all nine text kinds)
				if r.P(1, 3) {
					d = []byte{}
					c.Count("empty_texts_through_a_used_variable", 1)
				}
				tk := textKinds[r.Intn(len(textKinds))]
				items[k] = item{m: tk.mk(string(d)), data: d, text: true, get: tk.get}
			} else {
				items[k] = item{m: smf.MetaSequencerData(append([]byte(nil), d...)), data: d}
			}
			items[k].keep = append([]byte(nil), items[k].m...)
			sizes = append(sizes, ln)
		}
		in := map[string]any{"payload_sizes_in_reading_order": sizes}
		var out []byte // the one out variable
		var txt string
		for pass := 0; pass < 3; pass++ {
			for k := range items {
				it := &items[k]
				var ok bool
				var got []byte
				if it.text {
					ok = it.get(it.m, &txt)
					got = []byte(txt)
				} else {
					ok = it.m.GetMetaSeqData(&out)
					got = out
				}
				c.Count("shared_out_variable_reads", 1)
				if !ok || !bytes.Equal(got, it.data) {
					c.Violation("accessor:shared-out-variable", fmt.Sprintf("pass %d, message %d (%d bytes of payload) read through an out variable that was used for the other messages before: ok=%v, returned %d bytes starting % X, constructed from % X", pass, k, len(it.data), ok, len(got), head(got, 8), head(it.data, 8)), in, mon.Hex(head(it.data, 16)), mon.Hex(head(got, 16)))
					return
				}
				for q := range items {
					if !bytes.Equal(items[q].m, items[q].keep) {
						c.Violation("accessor:message-changed", fmt.Sprintf("pass %d: reading message %d changed the bytes of message %d (never touched by the caller): now % X, constructed as % X", pass, k, q, head(items[q].m, 12), head(items[q].keep, 12)), in, mon.Hex(head(items[q].keep, 16)), mon.Hex(head(items[q].m, 16)))
						return
					}
				}
			}
		}
		c.DistinctBytes([]byte(fmt.Sprint("reuse", sizes)), items[0].keep)
	})

	// ---- returned messages belong to the caller: growing one of them with append (framing it with a delta
	// and an end-of-track, say) must not reach into any other message
	c.Each("append-to-returned", c.N(4, 64), func(i int64, r *mon.Rand) {
		msgs := constructedSMFMessages(r)
		keep := make([][]byte, len(msgs))
		for k := range msgs {
			keep[k] = append([]byte(nil), msgs[k]...)
		}
		order := r.Perm(len(msgs))
		if i%2 == 0 {
			for k := range order {
				order[k] = k
			}
		}
		check := func(k, q int) bool {
			if !bytes.Equal(msgs[q], keep[q]) {
				c.Violation("constructed-message-changed", fmt.Sprintf("appending 4 bytes to the message returned by constructor call %d (% X) changed the message returned by call %d, which the caller never touched: now % X, constructed as % X", k, head(keepOr(keep, k), 10), q, head(msgs[q], 12), head(keep[q], 12)), fmt.Sprintf("%d constructed messages, appended in order %v...", len(msgs), head32(order, 8)), mon.Hex(head(keep[q], 16)), mon.Hex(head(msgs[q], 16)))
				return false
			}
			return true
		}
		for _, k := range order {
			if bytes.Equal(msgs[k], smf.EOT) {
				continue
			}
			_ = append(msgs[k], 0x00, 0xFF, 0x2F, 0x00)
			c.Count("appends_to_returned_messages", 1)
			for q := k - 4; q <= k+4; q++ {
				if q >= 0 && q < len(msgs) && q != k && !check(k, q) {
					return
				}
			}
		}
		for q := range msgs {
			if !check(-1, q) {
				return
			}
		}
		c.DistinctBytes([]byte(fmt.Sprint("append", i)))
	})

	// ---- text contents from a dictionary of 'special' prefixes, suffixes and whole values
	// (byte order marks, whitespace, NULs, format verbs, quotes, invalid and truncated UTF-8, ...)
	special := []string{"\xEF\xBB\xBF", "\xFF\xFE", "\xFE\xFF", " ", "  ", "\t", "\n", "\r\n", "\x00", "\x00\x00", "%", "%s", "%d%n", "%!", "\\", "\"", "'", "`", "\x7F", "\x80", "\xBF", "\xC2", "\xE2\x82", "\xF0\x9F\x8E", "\xF0\x9F\x8E\xB5", "\xC0\x80", "\xED\xA0\x80", "\xFF", "\xFF\xFF\xFF", "\u00e4", "\u4e16\u754c", "MThd", "MTrk", "\xFF\x2F\x00", "\xF7", "\xF0"}
	c.Each("text-dictionary", int64(len(special)), func(i int64, r *mon.Rand) {
		sp := special[i]
		body := "Title"
		cands := []string{sp, sp + body, body + sp, sp + body + sp, body + sp + body, sp + sp, sp + string(bytes.Repeat([]byte("x"), 125)), sp + string(bytes.Repeat([]byte("y"), 130)), string(bytes.Repeat([]byte(sp), 90))}
		for _, t := range cands {
			for _, k := range textKinds {
				m := k.mk(t)
				c.Count("text_points", 1)
				c.Count("text_dictionary_points", 1)
				if !metaLayout(c, "Meta"+k.name, fmt.Sprintf("%q", t), m, k.typ, []byte(t)) {
					continue
				}
				got := "\x00unset"
				ok := k.get(m, &got)
				if !ok || got != t {
					c.Violation("accessor:Meta"+k.name, fmt.Sprintf("accessor of Meta%s(%q): ok=%v, returned %q", k.name, t, ok, got), fmt.Sprintf("%q", t), fmt.Sprintf("%q", t), fmt.Sprintf("%q", got))
				}
				c.DistinctBytes([]byte(k.name), []byte(t))
			}
			d := []byte(t)
			if len(d) > 0 {
				m := smf.MetaSequencerData(d)
				got := []byte{0xEE}
				if ok := m.GetMetaSeqData(&got); !ok || !bytes.Equal(got, d) {
					c.Violation("accessor:MetaSequencerData", fmt.Sprintf("GetMetaSeqData(MetaSequencerData(%q)) = %v,%q", t, ok, got), fmt.Sprintf("%q", t), nil, nil)
				}
			}
		}
	})

	// ---- channel / port: all 256
	c.Each("channel-port", 1, func(_ int64, _ *mon.Rand) {
		for v := 0; v < 256; v++ {
			m := smf.MetaChannel(uint8(v))
			if metaLayout(c, "MetaChannel", v, m, 0x20, []byte{byte(v)}) {
				var g uint8 = uint8(v) + 1
				if ok := m.GetMetaChannel(&g); !ok || g != uint8(v) {
					c.Violation("accessor:MetaChannel", fmt.Sprintf("GetMetaChannel(MetaChannel(%d)) = %v,%d", v, ok, g), v, v, g)
				}
			}
			m = smf.MetaPort(uint8(v))
			if metaLayout(c, "MetaPort", v, m, 0x21, []byte{byte(v)}) {
				var g uint8 = uint8(v) + 1
				if ok := m.GetMetaPort(&g); !ok || g != uint8(v) {
					c.Violation("accessor:MetaPort", fmt.Sprintf("GetMetaPort(MetaPort(%d)) = %v,%d", v, ok, g), v, v, g)
				}
			}
		}
		c.Enumerated(512)
		c.Eval(511)
		c.MarkExhaustive("MetaChannel/MetaPort all 256 arguments")
	})

	// ---- sequence number: all 65536
	c.Each("seqno", 16, func(i int64, _ *mon.Rand) {
		for k := 0; k < 4096; k++ {
			v := uint16(int(i)*4096 + k)
			m := smf.MetaSequenceNo(v)
			if metaLayout(c, "MetaSequenceNo", v, m, 0x00, []byte{byte(v >> 8), byte(v)}) {
				g := v + 1
				if ok := m.GetMetaSeqNumber(&g); !ok || g != v {
					c.Violation("accessor:MetaSequenceNo", fmt.Sprintf("GetMetaSeqNumber(MetaSequenceNo(%d)) = %v,%d", v, ok, g), v, v, g)
				}
			}
		}
		c.Enumerated(4096)
		c.Eval(4095)
		c.MarkExhaustive("MetaSequenceNo all 65536 arguments")
	})

	// ---- SMPTE offset
	c.Each("smpte", c.N(50_000, 2_000_000)/1000, func(i int64, r *mon.Rand) {
		for k := 0; k < 1000; k++ {
			a := [5]uint8{r.Byte(), r.Byte(), r.Byte(), r.Byte(), r.Byte()}
			if k < 32 { // boundaries
				for j := range a {
					a[j] = []uint8{0, 1, 23, 24, 29, 30, 59, 60, 99, 100, 127, 128, 255}[r.Intn(13)]
				}
			}
			m := smf.MetaSMPTE(a[0], a[1], a[2], a[3], a[4])
			if metaLayout(c, "MetaSMPTE", a, m, 0x54, a[:]) {
				var g [5]uint8
				if ok := m.GetMetaSMPTEOffsetMsg(&g[0], &g[1], &g[2], &g[3], &g[4]); !ok || g != a {
					c.Violation("accessor:MetaSMPTE", fmt.Sprintf("GetMetaSMPTEOffsetMsg(MetaSMPTE%v) = %v,%v", a, ok, g), a, a, g)
				}
			}
			c.DistinctBytes([]byte("smpte"), a[:])
		}
		c.Eval(999)
	})

	// ---- SMPTE offset on the time grid: every hour byte (with its frame-rate bits) x every minute x first / middle /
	// last seconds x first and last frames of every rate: positions that are special in time code arithmetic (drop frame
	// skips frames 0 and 1 of every minute that is not a multiple of ten) are plain numbers to the constructor
	c.Each("smpte-grid", 256, func(i int64, _ *mon.Rand) {
		n := int64(0)
		for mn := 0; mn < 60; mn++ {
			for _, sc := range []uint8{0, 1, 30, 59} {
				for _, fr := range []uint8{0, 1, 2, 23, 24, 28, 29} {
					for _, sub := range []uint8{0, 99} {
						a := [5]uint8{uint8(i), uint8(mn), sc, fr, sub}
						m := smf.MetaSMPTE(a[0], a[1], a[2], a[3], a[4])
						var g [5]uint8
						if ok := m.GetMetaSMPTEOffsetMsg(&g[0], &g[1], &g[2], &g[3], &g[4]); !ok || g != a || !bytes.Equal(m, append([]byte{0xFF, 0x54, 0x05}, a[:]...)) {
							c.Violation("accessor:MetaSMPTE", fmt.Sprintf("MetaSMPTE%v = % X, GetMetaSMPTEOffsetMsg = %v,%v", a, []byte(m), ok, g), a, a, g)
							return
						}
						n++
					}
				}
			}
		}
		c.Count("smpte_grid_points", n)
		c.Enumerated(n)
		c.Eval(n)
	})

	// ---- documented calling mode: only out parameters that are not nil are filled (all nil patterns)
	c.Each("nil-patterns", 64, func(i int64, r *mon.Rand) {
		a := [5]uint8{r.Byte(), r.Byte(), r.Byte(), r.Byte(), r.Byte()}
		m := smf.MetaSMPTE(a[0], a[1], a[2], a[3], a[4])
		for mask := 0; mask < 32; mask++ {
			var o [5]uint8
			var p [5]*uint8
			for k := range o {
				o[k] = a[k] + 1
				if mask>>k&1 == 0 {
					p[k] = &o[k]
				}
			}
			ok := m.GetMetaSMPTEOffsetMsg(p[0], p[1], p[2], p[3], p[4])
			c.Count("nil_pattern_calls", 1)
			for k := range o {
				if !ok || (p[k] != nil && o[k] != a[k]) {
					c.Violation("accessor-nil-pattern:MetaSMPTE", fmt.Sprintf("GetMetaSMPTEOffsetMsg(MetaSMPTE%v) with nil pattern %05b: ok=%v, requested field %d = %d", a, mask, ok, k, o[k]), []any{a, mask}, a, o)
					break
				}
			}
		}
		num, cl, dq := r.Byte(), r.Byte()|1, r.Byte()|1
		den := uint8(1) << uint(r.Intn(8))
		ts := smf.MetaTimeSig(num, den, cl, dq)
		wantTS := [4]uint8{num, den, cl, dq}
		for mask := 0; mask < 16; mask++ {
			var o [4]uint8
			var p [4]*uint8
			for k := range o {
				o[k] = wantTS[k] + 1
				if mask>>k&1 == 0 {
					p[k] = &o[k]
				}
			}
			ok := ts.GetMetaTimeSig(p[0], p[1], p[2], p[3])
			c.Count("nil_pattern_calls", 1)
			for k := range o {
				if !ok || (p[k] != nil && o[k] != wantTS[k]) {
					c.Violation("accessor-nil-pattern:MetaTimeSig", fmt.Sprintf("GetMetaTimeSig(MetaTimeSig%v) with nil pattern %04b: ok=%v, requested field %d = %d", wantTS, mask, ok, k, o[k]), []any{wantTS, mask}, wantTS, o)
					break
				}
			}
			if mask < 4 {
				var mn, md uint8 = num + 1, den + 1
				var pn, pd *uint8
				if mask&1 == 0 {
					pn = &mn
				}
				if mask&2 == 0 {
					pd = &md
				}
				if ok := ts.GetMetaMeter(pn, pd); !ok || (pn != nil && mn != num) || (pd != nil && md != den) {
					c.Violation("accessor-nil-pattern:GetMetaMeter", fmt.Sprintf("GetMetaMeter with nil pattern %02b: ok=%v (%d,%d)", mask, ok, mn, md), []any{wantTS, mask}, nil, nil)
				}
			}
		}
		nacc := r.Intn(8)
		flat, major := r.Bool(), r.Bool()
		km := smf.MetaKey(0, major, uint8(nacc), flat)
		wflat := flat && nacc > 0
		wton := ref.KeyTonic(nacc, wflat, major)
		for mask := 0; mask < 16; mask++ {
			var k8, n8 uint8 = 99, 99
			mj, fl := !major, !wflat
			var pk, pn *uint8
			var pm, pf *bool
			if mask&1 == 0 {
				pk = &k8
			}
			if mask&2 == 0 {
				pn = &n8
			}
			if mask&4 == 0 {
				pm = &mj
			}
			if mask&8 == 0 {
				pf = &fl
			}
			ok := km.GetMetaKeySig(pk, pn, pm, pf)
			c.Count("nil_pattern_calls", 1)
			if !ok || (pk != nil && k8 != wton) || (pn != nil && int(n8) != nacc) || (pm != nil && mj != major) || (pf != nil && fl != wflat) {
				c.Violation("accessor-nil-pattern:MetaKey", fmt.Sprintf("GetMetaKeySig with nil pattern %04b: ok=%v (%d,%d,%v,%v) want (%d,%d,%v,%v) where requested", mask, ok, k8, n8, mj, fl, wton, nacc, major, wflat), mask, nil, nil)
			}
		}
		// single-out accessors must accept a nil out parameter
		c.Guard("panic:nil-out", nil, func() {
			ok := smf.MetaTempo(120).GetMetaTempo(nil) && smf.MetaChannel(3).GetMetaChannel(nil) && smf.MetaPort(3).GetMetaPort(nil) &&
				smf.MetaSequenceNo(7).GetMetaSeqNumber(nil) && smf.MetaSequencerData([]byte{1}).GetMetaSeqData(nil) && smf.MetaText("x").GetMetaText(nil) &&
				smf.MetaLyric("x").GetMetaLyric(nil) && smf.CMaj().GetMetaKey(nil)
			if !ok {
				c.Violation("accessor-nil-out", "an accessor with a nil out parameter rejects its own message", nil, true, false)
			}
		})
	})

	// ---- time signature: all numerators x power-of-two denominators x clock fields
	c.Each("timesig", 256, func(i int64, _ *mon.Rand) {
		num := uint8(i)
		n := int64(0)
		for d := uint(0); d <= 7; d++ {
			den := uint8(1) << d
			for _, cl := range []uint8{0, 1, 8, 24, 36, 255} {
				for _, dq := range []uint8{0, 1, 8, 255} {
					m := smf.MetaTimeSig(num, den, cl, dq)
					wcl, wdq := cl, dq
					if wcl == 0 {
						wcl = 8
					}
					if wdq == 0 {
						wdq = 8
					}
					n++
					c.Count("timesig_tuples", 1)
					if !metaLayout(c, "MetaTimeSig", []uint8{num, den, cl, dq}, m, 0x58, []byte{num, byte(d), wcl, wdq}) {
						continue
					}
					var gn, gd, gc, gq uint8 = 99, 99, 99, 99
					if ok := m.GetMetaTimeSig(&gn, &gd, &gc, &gq); !ok || gn != num || gd != den || gc != wcl || gq != wdq {
						c.Violation("accessor:MetaTimeSig", fmt.Sprintf("GetMetaTimeSig(MetaTimeSig(%d,%d,%d,%d)) = %v,%d,%d,%d,%d", num, den, cl, dq, ok, gn, gd, gc, gq), []uint8{num, den, cl, dq}, []uint8{num, den, wcl, wdq}, []uint8{gn, gd, gc, gq})
					}
					var mn, md uint8 = 99, 99
					if ok := m.GetMetaMeter(&mn, &md); !ok || mn != num || md != den {
						c.Violation("accessor:GetMetaMeter", fmt.Sprintf("GetMetaMeter(MetaTimeSig(%d,%d,..)) = %v,%d,%d", num, den, ok, mn, md), []uint8{num, den}, []uint8{num, den}, []uint8{mn, md})
					}
				}
			}
			// MetaMeter shorthand
			m := smf.MetaMeter(num, den)
			n++
			c.Count("timesig_tuples", 1)
			if metaLayout(c, "MetaMeter", []uint8{num, den}, m, 0x58, []byte{num, byte(d), 8, 8}) {
				var mn, md uint8 = 99, 99
				if ok := m.GetMetaMeter(&mn, &md); !ok || mn != num || md != den {
					c.Violation("accessor:MetaMeter", fmt.Sprintf("GetMetaMeter(MetaMeter(%d,%d)) = %v,%d,%d", num, den, ok, mn, md), []uint8{num, den}, []uint8{num, den}, []uint8{mn, md})
				}
			}
		}
		c.Enumerated(n)
		c.Eval(n - 1)
		c.MarkExhaustive("time signatures: all 256 numerators x denominators 1..128 (powers of two) x clock fields {0,1,8,24,36,255} x {0,1,8,255}")
	})

	// ---- key signatures
	c.Each("keys", 1, func(_ int64, _ *mon.Rand) {
		for num := 0; num <= 7; num++ {
			for _, flat := range []bool{false, true} {
				for _, major := range []bool{false, true} {
					for _, keyArg := range []uint8{0, ref.KeyTonic(num, flat && num > 0, major), 11} {
						m := smf.MetaKey(keyArg, major, uint8(num), flat)
						c.Count("key_tuples", 1)
						sf := int8(num)
						if flat {
							sf = -sf
						}
						mi := byte(1)
						if major {
							mi = 0
						}
						if !metaLayout(c, "MetaKey", []any{keyArg, major, num, flat}, m, 0x59, []byte{byte(sf), mi}) {
							continue
						}
						wflat := flat && num > 0
						wton := ref.KeyTonic(num, wflat, major)
						var gk, gn uint8 = 99, 99
						var gmaj, gflat bool
						ok := m.GetMetaKeySig(&gk, &gn, &gmaj, &gflat)
						if !ok || gk != wton || int(gn) != num || gmaj != major || gflat != wflat {
							c.Violation("accessor:MetaKey", fmt.Sprintf("GetMetaKeySig(MetaKey(_,major=%v,num=%d,flat=%v)) = ok=%v tonic=%d num=%d major=%v flat=%v; circle of fifths gives tonic %d", major, num, flat, ok, gk, gn, gmaj, gflat, wton),
								[]any{major, num, flat}, []any{wton, num, major, wflat}, []any{gk, gn, gmaj, gflat})
						}
						var k smf.Key
						if ok := m.GetMetaKey(&k); !ok || k.Key != wton || int(k.Num) != num || k.IsMajor != major || k.IsFlat != wflat {
							c.Violation("accessor:GetMetaKey", fmt.Sprintf("GetMetaKey(MetaKey(major=%v,num=%d,flat=%v)) = %v %+v", major, num, flat, ok, k), []any{major, num, flat}, []any{wton, num, major, wflat}, fmt.Sprintf("%+v", k))
						}
					}
				}
			}
		}
		for _, nk := range namedKeys {
			m := nk.fn()
			c.Count("named_keys", 1)
			sf := int8(nk.num)
			if nk.flat {
				sf = -sf
			}
			mi := byte(1)
			if nk.major {
				mi = 0
			}
			if !metaLayout(c, nk.name, nil, m, 0x59, []byte{byte(sf), mi}) {
				continue
			}
			var k smf.Key
			ok := m.GetMetaKey(&k)
			if !ok || k.Key != nk.tonic || k.Num != nk.num || k.IsMajor != nk.major || k.IsFlat != nk.flat {
				c.Violation("named-key:"+nk.name, fmt.Sprintf("%s() decodes to %+v, the key of that name is tonic %d with %d accidentals (major=%v flat=%v)", nk.name, k, nk.tonic, nk.num, nk.major, nk.flat), nk.name, []any{nk.tonic, nk.num, nk.major, nk.flat}, fmt.Sprintf("%+v", k))
			} else if k.String() != nk.name {
				c.Violation("named-key-string:"+nk.name, fmt.Sprintf("%s() decodes to a key whose String() is %q", nk.name, k.String()), nk.name, nk.name, k.String())
			}
			// the reference table itself must agree with the circle of fifths
			if ref.KeyTonic(int(nk.num), nk.flat, nk.major) != nk.tonic {
				c.Inconclusive("harness error: named key table disagrees with circle of fifths for " + nk.name)
			}
		}
		c.Enumerated(int64(8*2*2*3 + len(namedKeys)))
		c.MarkExhaustive("all (0..7 accidentals) x flat/sharp x major/minor tuples and all 26 named key constructors")
	})

	// ---- tempo: field values
	checkTempo := func(f uint32) {
		bpm := 60000000.0 / float64(f)
		m := smf.MetaTempo(bpm)
		c.Count("tempo_fields", 1)
		if !metaLayout(c, "MetaTempo", fmt.Sprintf("bpm=%v (field %d)", bpm, f), m, 0x51, []byte{byte(f >> 16), byte(f >> 8), byte(f)}) {
			return
		}
		var g float64 = -1
		ok := m.GetMetaTempo(&g)
		if !ok || math.IsNaN(g) || math.IsInf(g, 0) || uint32(math.Round(60000000.0/g)) != f {
			c.Violation("accessor:MetaTempo", fmt.Sprintf("GetMetaTempo(MetaTempo(%v)) = %v,%v (field %d)", bpm, ok, g, f), bpm, bpm, g)
		}
	}
	if c.Thorough() {
		c.EachBlock("tempo-all", 1<<24, 1<<16, func(lo, hi int64) {
			for f := lo; f < hi; f++ {
				if f >= 1 {
					checkTempo(uint32(f))
				}
			}
			c.Enumerated(hi - lo)
			c.Eval(hi - lo)
		})
		c.MarkExhaustive("all 2^24-1 tempo field values")
	} else {
		c.EachBlock("tempo-low", 70000, 4096, func(lo, hi int64) {
			for f := lo; f < hi; f++ {
				if f >= 1 {
					checkTempo(uint32(f))
				}
			}
			c.Enumerated(hi - lo)
			c.Eval(hi - lo)
		})
		c.EachBlock("tempo-stride", (1<<24)/257, 1024, func(lo, hi int64) {
			for k := lo; k < hi; k++ {
				if f := 70000 + k*257; f < 1<<24 {
					checkTempo(uint32(f))
				}
				if f := int64(1<<24) - 1 - k*257; f >= 1 {
					checkTempo(uint32(f))
				}
			}
			c.Enumerated(2 * (hi - lo))
			c.Eval(2 * (hi - lo))
		})
	}
	c.Each("tempo-samples", 1, func(_ int64, _ *mon.Rand) {
		for _, f := range []uint32{1, 2, 3, 499999, 500000, 500001, 1<<24 - 2, 1<<24 - 1, 1 << 16, 1<<16 - 1, 256, 255} {
			checkTempo(f)
		}
		c.Sample("tempo", map[string]any{"field": 500000, "bpm": 120.0, "bytes": mon.Hex(smf.MetaTempo(120))})
	})
}

func head(b []byte, n int) []byte {
	if len(b) > n {
		return b[:n]
	}
	return b
}
