package props

import (
	"bytes"
	"fmt"
	"os"
	"runtime"
	"strconv"
	"strings"

	"gitlab.com/gomidi/midi/v2"
	"gitlab.com/gomidi/midi/v2/smf"

	"verif/harness/gen"
	"verif/harness/mon"
)

type midiAcc struct {
	name string
	typ  midi.Type
	fn   func(m midi.Message) bool
}

var midiAccs = []midiAcc{
	{"GetNoteOn", midi.NoteOnMsg, func(m midi.Message) bool { var a, b, c uint8; return m.GetNoteOn(&a, &b, &c) }},
	{"GetNoteOff", midi.NoteOffMsg, func(m midi.Message) bool { var a, b, c uint8; return m.GetNoteOff(&a, &b, &c) }},
	{"GetPolyAfterTouch", midi.PolyAfterTouchMsg, func(m midi.Message) bool { var a, b, c uint8; return m.GetPolyAfterTouch(&a, &b, &c) }},
	{"GetControlChange", midi.ControlChangeMsg, func(m midi.Message) bool { var a, b, c uint8; return m.GetControlChange(&a, &b, &c) }},
	{"GetProgramChange", midi.ProgramChangeMsg, func(m midi.Message) bool { var a, b uint8; return m.GetProgramChange(&a, &b) }},
	{"GetAfterTouch", midi.AfterTouchMsg, func(m midi.Message) bool { var a, b uint8; return m.GetAfterTouch(&a, &b) }},
	{"GetPitchBend", midi.PitchBendMsg, func(m midi.Message) bool { var a uint8; var r int16; var u uint16; return m.GetPitchBend(&a, &r, &u) }},
	{"GetMTC", midi.MTCMsg, func(m midi.Message) bool { var a uint8; return m.GetMTC(&a) }},
	{"GetSongSelect", midi.SongSelectMsg, func(m midi.Message) bool { var a uint8; return m.GetSongSelect(&a) }},
	{"GetSPP", midi.SPPMsg, func(m midi.Message) bool { var a uint16; return m.GetSPP(&a) }},
	{"GetSysEx", midi.SysExMsg, func(m midi.Message) bool { var b []byte; return m.GetSysEx(&b) }},
}

type smfAcc struct {
	name string
	typ  midi.Type
	fn   func(m smf.Message) bool
}

var smfAccs = []smfAcc{
	{"GetNoteOn", midi.NoteOnMsg, func(m smf.Message) bool { var a, b, c uint8; return m.GetNoteOn(&a, &b, &c) }},
	{"GetNoteOff", midi.NoteOffMsg, func(m smf.Message) bool { var a, b, c uint8; return m.GetNoteOff(&a, &b, &c) }},
	{"GetPolyAfterTouch", midi.PolyAfterTouchMsg, func(m smf.Message) bool { var a, b, c uint8; return m.GetPolyAfterTouch(&a, &b, &c) }},
	{"GetControlChange", midi.ControlChangeMsg, func(m smf.Message) bool { var a, b, c uint8; return m.GetControlChange(&a, &b, &c) }},
	{"GetProgramChange", midi.ProgramChangeMsg, func(m smf.Message) bool { var a, b uint8; return m.GetProgramChange(&a, &b) }},
	{"GetAfterTouch", midi.AfterTouchMsg, func(m smf.Message) bool { var a, b uint8; return m.GetAfterTouch(&a, &b) }},
	{"GetPitchBend", midi.PitchBendMsg, func(m smf.Message) bool { var a uint8; var r int16; var u uint16; return m.GetPitchBend(&a, &r, &u) }},
	{"GetSysEx", midi.SysExMsg, func(m smf.Message) bool { var b []byte; return m.GetSysEx(&b) }},
	{"GetMetaChannel", smf.MetaChannelMsg, func(m smf.Message) bool { var a uint8; return m.GetMetaChannel(&a) }},
	{"GetMetaPort", smf.MetaPortMsg, func(m smf.Message) bool { var a uint8; return m.GetMetaPort(&a) }},
	{"GetMetaSeqNumber", smf.MetaSeqNumberMsg, func(m smf.Message) bool { var a uint16; return m.GetMetaSeqNumber(&a) }},
	{"GetMetaSeqData", smf.MetaSeqDataMsg, func(m smf.Message) bool { var b []byte; return m.GetMetaSeqData(&b) }},
	{"GetMetaKeySig", smf.MetaKeySigMsg, func(m smf.Message) bool { var a, b uint8; var x, y bool; return m.GetMetaKeySig(&a, &b, &x, &y) }},
	{"GetMetaSMPTEOffsetMsg", smf.MetaSMPTEOffsetMsg, func(m smf.Message) bool { var a, b, c, d, e uint8; return m.GetMetaSMPTEOffsetMsg(&a, &b, &c, &d, &e) }},
	{"GetMetaTimeSig", smf.MetaTimeSigMsg, func(m smf.Message) bool { var a, b, c, d uint8; return m.GetMetaTimeSig(&a, &b, &c, &d) }},
	{"GetMetaTempo", smf.MetaTempoMsg, func(m smf.Message) bool { var f float64; return m.GetMetaTempo(&f) }},
	{"GetMetaLyric", smf.MetaLyricMsg, func(m smf.Message) bool { var s string; return m.GetMetaLyric(&s) }},
	{"GetMetaCopyright", smf.MetaCopyrightMsg, func(m smf.Message) bool { var s string; return m.GetMetaCopyright(&s) }},
	{"GetMetaCuepoint", smf.MetaCuepointMsg, func(m smf.Message) bool { var s string; return m.GetMetaCuepoint(&s) }},
	{"GetMetaDevice", smf.MetaDeviceMsg, func(m smf.Message) bool { var s string; return m.GetMetaDevice(&s) }},
	{"GetMetaInstrument", smf.MetaInstrumentMsg, func(m smf.Message) bool { var s string; return m.GetMetaInstrument(&s) }},
	{"GetMetaMarker", smf.MetaMarkerMsg, func(m smf.Message) bool { var s string; return m.GetMetaMarker(&s) }},
	{"GetMetaProgramName", smf.MetaProgramNameMsg, func(m smf.Message) bool { var s string; return m.GetMetaProgramName(&s) }},
	{"GetMetaText", smf.MetaTextMsg, func(m smf.Message) bool { var s string; return m.GetMetaText(&s) }},
	{"GetMetaTrackName", smf.MetaTrackNameMsg, func(m smf.Message) bool { var s string; return m.GetMetaTrackName(&s) }},
}

// every named type the two packages export, for IsOneOf/Is sweeps
var allTypes = []midi.Type{midi.UnknownMsg, midi.RealTimeMsg, midi.SysCommonMsg, midi.ChannelMsg, midi.SysExMsg, smf.MetaMsg,
	midi.TickMsg, midi.TimingClockMsg, midi.StartMsg, midi.ContinueMsg, midi.StopMsg, midi.ActiveSenseMsg, midi.ResetMsg,
	midi.NoteOnMsg, midi.NoteOffMsg, midi.ControlChangeMsg, midi.PitchBendMsg, midi.AfterTouchMsg, midi.PolyAfterTouchMsg, midi.ProgramChangeMsg,
	midi.MTCMsg, midi.SongSelectMsg, midi.SPPMsg, midi.TuneMsg,
	smf.MetaChannelMsg, smf.MetaCopyrightMsg, smf.MetaCuepointMsg, smf.MetaDeviceMsg, smf.MetaEndOfTrackMsg, smf.MetaInstrumentMsg, smf.MetaKeySigMsg,
	smf.MetaLyricMsg, smf.MetaTextMsg, smf.MetaMarkerMsg, smf.MetaPortMsg, smf.MetaSeqNumberMsg, smf.MetaSeqDataMsg, smf.MetaTempoMsg, smf.MetaTimeSigMsg,
	smf.MetaTrackNameMsg, smf.MetaSMPTEOffsetMsg, smf.MetaUndefinedMsg, smf.MetaProgramNameMsg}

// kept is a copy of a message taken before it is queried (no allocation for the short strings of the exhaustive sweep)
type kept struct {
	n     int
	small [8]byte
	big   []byte
}

func keepBytes(b []byte) (k kept) {
	k.n = len(b)
	if len(b) <= len(k.small) {
		copy(k.small[:], b)
	} else {
		k.big = append([]byte(nil), b...)
	}
	return
}

func (k *kept) bytes() []byte {
	if k.big != nil {
		return k.big
	}
	return k.small[:k.n]
}

func (k *kept) same(b []byte) bool { return bytes.Equal(k.bytes(), b) }

// classifyMidi checks the C08 predicates on one byte string seen as midi.Message.
// It returns the category name (for coverage).
func classifyMidi(c *mon.Ctx, b []byte) string {
	m := midi.Message(b)
	cat := ""
	keep := keepBytes(b)
	c.Guard("panic:midi.Message", mon.Hex(b), func() {
		t := m.Type()
		defer func() {
			// asking is read-only: the same message classified once more, after every query above, is the same message
			if !keep.same(b) {
				c.Violation("changed-by-query:midi", fmt.Sprintf("midi.Message % X reads % X after its type, categories, accessors, derived views and string form were asked for", keep.bytes(), b), mon.Hex(keep.bytes()), mon.Hex(keep.bytes()), mon.Hex(b))
			} else if t2 := m.Type(); t2 != t {
				c.Violation("type-changed-by-query:midi", fmt.Sprintf("midi.Message % X reported type %v, and %v after its accessors were asked", b, t, t2), mon.Hex(b), t.String(), t2.String())
			}
		}()
		n := 0
		for _, x := range []struct {
			name string
			t    midi.Type
		}{{"channel", midi.ChannelMsg}, {"syscommon", midi.SysCommonMsg}, {"realtime", midi.RealTimeMsg}, {"sysex", midi.SysExMsg}, {"unknown", midi.UnknownMsg}} {
			// the two ways of asking agree: for one type, and for a list of two
			if one, is := m.IsOneOf(x.t), m.Is(x.t); one != is {
				c.Violation("isoneof-vs-is:midi", fmt.Sprintf("midi.Message % X: IsOneOf(%s) = %v but Is(%s) = %v", b, x.name, one, x.name, is), mon.Hex(b), is, one)
			}
			if two, is := m.IsOneOf(midi.ResetMsg, x.t), m.Is(midi.ResetMsg) || m.Is(x.t); two != is {
				c.Violation("isoneof-vs-is:midi", fmt.Sprintf("midi.Message % X: IsOneOf(reset, %s) = %v but Is(reset) || Is(%s) = %v", b, x.name, two, x.name, is), mon.Hex(b), is, two)
			}
			if m.Is(x.t) {
				n++
				cat = x.name
			}
		}
		if n != 1 {
			c.Violation("category-count:midi", fmt.Sprintf("midi.Message % X belongs to %d categories (type %v)", b, n, t), mon.Hex(b), 1, n)
		}
		if m.Is(smf.MetaMsg) {
			c.Violation("category-meta:midi", fmt.Sprintf("midi.Message % X reports the meta category", b), mon.Hex(b), false, true)
		}
		if !m.Is(t) {
			c.Violation("type-reflexive:midi", fmt.Sprintf("midi.Message % X: Is(Type()) is false for type %v", b, t), mon.Hex(b), true, false)
		}
		acc := 0
		for _, a := range midiAccs {
			if a.fn(m) {
				acc++
				if t != a.typ {
					c.Violation("accessor-type:midi:"+a.name, fmt.Sprintf("%s accepts % X but Type() is %v", a.name, b, t), mon.Hex(b), a.typ.String(), t.String())
				}
			}
		}
		if acc > 1 {
			c.Violation("accessor-ambiguous:midi", fmt.Sprintf("%d type-specific accessors accept % X", acc, b), mon.Hex(b), "<=1", acc)
		}
		if acc > 0 {
			c.Count("strings_accepted_by_an_accessor", 1)
		}
		// derived views must agree with their base accessors
		var ch, k, v uint8
		if m.GetNoteStart(&ch, &k, &v) && !m.Is(midi.NoteOnMsg) {
			c.Violation("derived:GetNoteStart", fmt.Sprintf("GetNoteStart accepts % X of type %v", b, t), mon.Hex(b), nil, nil)
		}
		if m.GetNoteEnd(&ch, &k) && !m.IsOneOf(midi.NoteOnMsg, midi.NoteOffMsg) {
			c.Violation("derived:GetNoteEnd", fmt.Sprintf("GetNoteEnd accepts % X of type %v", b, t), mon.Hex(b), nil, nil)
		}
		if m.GetChannel(&ch) != (cat == "channel") {
			c.Violation("derived:GetChannel", fmt.Sprintf("GetChannel disagrees with the channel category on % X", b), mon.Hex(b), cat == "channel", !(cat == "channel"))
		}
		one := m.IsOneOf(allTypes...)
		_ = one
		if m.IsPlayable() && cat == "unknown" {
			c.Violation("playable-unknown:midi", fmt.Sprintf("unknown message % X is reported playable", b), mon.Hex(b), false, true)
		}
		// out-parameters are optional ("only arguments that are not nil are parsed and filled"): also for the sysex data
		var sxData []byte
		if m.GetSysEx(nil) != m.GetSysEx(&sxData) {
			c.Violation("getsysex-nil:midi", fmt.Sprintf("GetSysEx(nil) of % X disagrees with GetSysEx(&data)", head(b, 12)), mon.Hex(head(b, 40)), nil, nil)
		}
		s := m.String()
		if s == "" {
			c.Violation("string-empty:midi", fmt.Sprintf("String() of % X is empty", b), mon.Hex(b), "non-empty", "")
		}
		_ = m.Bytes()
	})
	return cat
}

// classifySMF checks the C08 predicates on one byte string seen as smf.Message.
func classifySMF(c *mon.Ctx, b []byte) string {
	m := smf.Message(b)
	cat := ""
	keep := keepBytes(b)
	c.Guard("panic:smf.Message", mon.Hex(b), func() {
		t := m.Type()
		defer func() {
			if !keep.same(b) {
				c.Violation("changed-by-query:smf", fmt.Sprintf("smf.Message % X reads % X after its type, categories, accessors, derived views and string form were asked for", keep.bytes(), b), mon.Hex(keep.bytes()), mon.Hex(keep.bytes()), mon.Hex(b))
			} else if t2 := m.Type(); t2 != t {
				c.Violation("type-changed-by-query:smf", fmt.Sprintf("smf.Message % X reported type %v, and %v after its accessors were asked", b, t, t2), mon.Hex(b), t.String(), t2.String())
			}
		}()
		n := 0
		for _, x := range []struct {
			name string
			t    midi.Type
		}{{"channel", midi.ChannelMsg}, {"syscommon", midi.SysCommonMsg}, {"realtime", midi.RealTimeMsg}, {"sysex", midi.SysExMsg}, {"unknown", midi.UnknownMsg}, {"meta", smf.MetaMsg}} {
			// the two ways of asking agree: for one type, and for a list of two
			if one, is := m.IsOneOf(x.t), m.Is(x.t); one != is {
				c.Violation("isoneof-vs-is:smf", fmt.Sprintf("smf.Message % X: IsOneOf(%s) = %v but Is(%s) = %v", b, x.name, one, x.name, is), mon.Hex(b), is, one)
			}
			if two, is := m.IsOneOf(midi.ResetMsg, x.t), m.Is(midi.ResetMsg) || m.Is(x.t); two != is {
				c.Violation("isoneof-vs-is:smf", fmt.Sprintf("smf.Message % X: IsOneOf(reset, %s) = %v but Is(reset) || Is(%s) = %v", b, x.name, two, x.name, is), mon.Hex(b), is, two)
			}
			if m.Is(x.t) {
				n++
				cat = x.name
			}
		}
		if n != 1 {
			c.Violation("category-count:smf", fmt.Sprintf("smf.Message % X belongs to %d categories (type %v)", b, n, t), mon.Hex(b), 1, n)
		}
		if !m.Is(t) {
			c.Violation("type-reflexive:smf", fmt.Sprintf("smf.Message % X: Is(Type()) is false for type %v", b, t), mon.Hex(b), true, false)
		}
		if len(b) > 0 && b[0] == 0xFF {
			if cat == "realtime" || t == midi.ResetMsg {
				c.Violation("ff-is-reset:smf", fmt.Sprintf("smf.Message % X with leading FF is classified as real-time/reset", b), mon.Hex(b), "meta or unknown", t.String())
			}
			if m.IsMeta() != true {
				c.Violation("ff-ismeta:smf", fmt.Sprintf("IsMeta false for % X", b), mon.Hex(b), true, false)
			}
			if cat == "meta" {
				c.Count("meta_strings", 1)
			}
		} else if cat == "meta" {
			c.Violation("meta-without-ff:smf", fmt.Sprintf("smf.Message % X is in the meta category without a leading FF", b), mon.Hex(b), nil, nil)
		}
		acc := 0
		for _, a := range smfAccs {
			if a.fn(m) {
				acc++
				if t != a.typ {
					c.Violation("accessor-type:smf:"+a.name, fmt.Sprintf("%s accepts % X but Type() is %v", a.name, b, t), mon.Hex(b), a.typ.String(), t.String())
				}
			}
		}
		if acc > 1 {
			c.Violation("accessor-ambiguous:smf", fmt.Sprintf("%d type-specific accessors accept % X", acc, b), mon.Hex(b), "<=1", acc)
		}
		if acc > 0 {
			c.Count("strings_accepted_by_an_accessor", 1)
		}
		var ch, k, v uint8
		var key smf.Key
		if m.GetNoteStart(&ch, &k, &v) && !m.Is(midi.NoteOnMsg) {
			c.Violation("derived:GetNoteStart", fmt.Sprintf("GetNoteStart accepts % X of type %v", b, t), mon.Hex(b), nil, nil)
		}
		if m.GetNoteEnd(&ch, &k) && !m.IsOneOf(midi.NoteOnMsg, midi.NoteOffMsg) {
			c.Violation("derived:GetNoteEnd", fmt.Sprintf("GetNoteEnd accepts % X of type %v", b, t), mon.Hex(b), nil, nil)
		}
		if m.GetChannel(&ch) != (cat == "channel") {
			c.Violation("derived:GetChannel", fmt.Sprintf("GetChannel disagrees with the channel category on % X", b), mon.Hex(b), nil, nil)
		}
		if m.GetMetaKey(&key) && t != smf.MetaKeySigMsg {
			c.Violation("derived:GetMetaKey", fmt.Sprintf("GetMetaKey accepts % X of type %v", b, t), mon.Hex(b), nil, nil)
		}
		if m.GetMetaMeter(&ch, &k) && t != smf.MetaTimeSigMsg {
			c.Violation("derived:GetMetaMeter", fmt.Sprintf("GetMetaMeter accepts % X of type %v", b, t), mon.Hex(b), nil, nil)
		}
		_ = m.IsOneOf(allTypes...)
		if m.IsPlayable() && (cat == "unknown" || cat == "meta") {
			c.Violation("playable:smf", fmt.Sprintf("%s message % X is reported playable", cat, b), mon.Hex(b), false, true)
		}
		_ = m.GetSysEx(nil)
		s := m.String()
		if s == "" {
			c.Violation("string-empty:smf", fmt.Sprintf("String() of % X is empty", b), mon.Hex(b), "non-empty", "")
		}
		_ = m.Bytes()
	})
	return cat
}

func init() {
	mon.Register(&mon.Spec{
		ID:    "C08",
		Level: "exploration",
		Rule: "exhaustive enumeration of all byte strings of length 0..3 (index injective => distinct), each classified as midi.Message and as smf.Message; " +
			"plus seeded sampled strings of length 4..64 with a status-biased first byte (distinct by content hash). Every string is non-trivial: " +
			"each is run through Type/Is (all categories)/IsOneOf/IsPlayable/String and every Get* accessor with non-nil out parameters",
		Assumptions: []string{
			"categories are those named in the statement: channel / system common / real-time / sysex / unknown, plus meta for smf.Message",
			"derived views (GetNoteStart, GetNoteEnd, GetChannel, and the wrappers GetMetaKey, GetMetaMeter) are checked for agreement with their base, not for exclusivity",
			"sampled FF tt strings keep the embedded length VLQ at most 3 bytes: String() allocates the declared text length and the property is about panics, not allocation",
		},
		Require:     []string{"every_length_strings", "standard_message_substitutions", "strings_midi", "strings_smf", "meta_strings", "strings_accepted_by_an_accessor", "cat:midi:channel", "cat:midi:syscommon", "cat:midi:realtime", "cat:midi:sysex", "cat:midi:unknown", "cat:smf:meta", "patterned_long_strings", "byte_substitution_strings"},
		Int32Worker: true,
		Run:         runC08,
	})
}

func runC08(c *mon.Ctx) {
	c.MarkExhaustive("all 16 843 009 byte strings of length 0..3, as midi.Message and as smf.Message")
	// block b: first byte = b (length >= 1); block 256: the empty string
	c.Each("len0to3", 257, func(i int64, _ *mon.Rand) {
		if i == 256 {
			c.Count("cat:midi:"+classifyMidi(c, []byte{}), 1)
			c.Count("cat:smf:"+classifySMF(c, []byte{}), 1)
			c.Count("cat:midi:"+classifyMidi(c, nil), 1)
			c.Count("cat:smf:"+classifySMF(c, nil), 1)
			c.Count("strings_midi", 1)
			c.Count("strings_smf", 1)
			c.Enumerated(1)
			return
		}
		b0 := byte(i)
		var cm, cs [8]int64
		idx := map[string]int{"channel": 0, "syscommon": 1, "realtime": 2, "sysex": 3, "unknown": 4, "meta": 5, "": 6}
		names := []string{"channel", "syscommon", "realtime", "sysex", "unknown", "meta", "none"}
		do := func(s []byte) {
			cm[idx[classifyMidi(c, s)]]++
			cs[idx[classifySMF(c, s)]]++
		}
		do([]byte{b0})
		n := int64(1)
		for b1 := 0; b1 < 256; b1++ {
			do([]byte{b0, byte(b1)})
			n++
			for b2 := 0; b2 < 256; b2++ {
				do([]byte{b0, byte(b1), byte(b2)})
				n++
			}
		}
		for k, v := range cm {
			if v > 0 {
				c.Count("cat:midi:"+names[k], v)
			}
		}
		for k, v := range cs {
			if v > 0 {
				c.Count("cat:smf:"+names[k], v)
			}
		}
		c.Count("strings_midi", n)
		c.Count("strings_smf", n)
		c.Enumerated(n)
		c.Eval(n - 1)
		if b0 == 0x90 || b0 == 0xFF {
			c.Sample("string", map[string]any{"bytes": mon.Hex([]byte{b0, 0x51, 0x03}), "midi.Type": midi.Message([]byte{b0, 0x51, 0x03}).Type().String(), "smf.Type": smf.Message([]byte{b0, 0x51, 0x03}).Type().String(), "smf.String": smf.Message([]byte{b0, 0x51, 0x03}).String()})
		}
	})

	// sampled longer strings
	c.Each("sampled-long", c.N(300_000, 40_000_000), func(i int64, r *mon.Rand) {
		n := r.Range(4, 64)
		if r.P(1, 20) {
			n = r.Range(65, 600)
		}
		b := r.Bytes(n)
		switch r.Intn(8) {
		case 0, 1: // meta with a known or random type and a bounded length VLQ
			b[0] = 0xFF
			if r.P(3, 4) {
				b[1] = []byte{0x00, 0x01, 0x02, 0x03, 0x04, 0x05, 0x06, 0x07, 0x08, 0x09, 0x20, 0x21, 0x2F, 0x51, 0x54, 0x58, 0x59, 0x7F}[r.Intn(18)]
			}
			// keep the VLQ at b[2..] at most 3 bytes long
			switch r.Intn(4) {
			case 0:
				b[2] &= 0x7F
			case 1:
				b[2] = byte(len(b)-3) & 0x7F // consistent length
			case 2:
				b[2] |= 0x80
				b[3] &= 0x7F
			default:
				b[2] |= 0x80
				b[3] |= 0x80
				if len(b) > 4 {
					b[4] &= 0x7F
				}
			}
			if len(b) == 4 && b[3]&0x80 != 0 {
				b[3] &= 0x7F
			}
		case 2: // sysex-like
			b[0] = 0xF0
			if r.Bool() {
				b[n-1] = 0xF7
			}
		case 3:
			b[0] = 0xF7
		case 4, 5: // channel status
			b[0] = 0x80 | b[0]&0x6F
			if b[0] >= 0xF0 {
				b[0] = 0xE0 | b[0]&0x0F
			}
		case 6:
			b[0] = 0xF0 | b[0]&0x0F
			if b[0] == 0xFF { // unbounded meta length: handled by cases 0/1
				b[0] = 0xFE
			}
		default:
			if b[0] == 0xFF {
				b[0] = 0x7F
			}
		}
		c.Count("cat:midi:"+classifyMidi(c, b), 1)
		c.Count("cat:smf:"+classifySMF(c, b), 1)
		c.Count("strings_midi", 1)
		c.Count("strings_smf", 1)
		c.Count("sampled_long_strings", 1)
		c.DistinctBytes(b)
		if i < 2 {
			c.Sample("long-string", mon.Hex(b))
		}
	})

	// patterned long strings: runs of one byte value (and two-byte alternations) as payload of every
	// text-like meta type with a consistent length field, and as raw strings, at lengths around powers of two
	c.Each("patterned-long", 256, func(i int64, r *mon.Rand) {
		fill := byte(i)
		alt := byte(r.Pick(0x00, 0x80, 0xBF, 0xC2, 0xE2, 0xEF, 0xFF, 0x25, 0x5C))
		for _, n := range []int{4, 7, 100, 127, 128, 255, 256, 257, 258, 300, 511, 512, 513, 1023, 1024, 1025, 4095, 4096, 4097} {
			for pat := 0; pat < 2; pat++ {
				p := make([]byte, n)
				for j := range p {
					p[j] = fill
					if pat == 1 && j%2 == 1 {
						p[j] = alt
					}
				}
				if n > 300 && !bytes.Contains([]byte{0x00, 0x20, 0x25, 0x41, 0x7F, 0x80, 0xBF, 0xC2, 0xE2, 0xEF, 0xF0, 0xF7, 0xFF}, []byte{fill}) {
					continue // the longest patterns only for a subset of fill bytes
				}
				for _, typ := range []byte{0x01, 0x02, 0x03, 0x04, 0x05, 0x06, 0x07, 0x08, 0x09, 0x7F, 0x51, 0x58, 0x59, 0x54, 0x00, 0x20, 0x21, 0x2F, 0x60} {
					if n > 300 && typ != 0x01 && typ != 0x05 && typ != 0x7F {
						continue
					}
					m := []byte{0xFF, typ}
					m = appendVLQ(m, uint32(n))
					m = append(m, p...)
					c.Count("cat:smf:"+classifySMF(c, m), 1)
					c.Count("strings_smf", 1)
					c.Count("patterned_long_strings", 1)
				}
				raw := append([]byte{0xF0}, p...)
				c.Count("cat:midi:"+classifyMidi(c, raw), 1)
				c.Count("cat:smf:"+classifySMF(c, raw), 1)
				c.Count("cat:midi:"+classifyMidi(c, p), 1)
				c.Count("cat:smf:"+classifySMF(c, p), 1)
				c.Count("strings_midi", 2)
				c.Count("strings_smf", 2)
			}
		}
		c.Enumerated(19 * 2 * 14)
		c.Eval(19*2*14 - 1)
	})

	// every meta constructor output and a few reader-shaped messages are classified too
	c.Each("constructed", 1, func(_ int64, r *mon.Rand) {
		for _, m := range constructedSMFMessages(r) {
			c.Count("cat:smf:"+classifySMF(c, m), 1)
			c.Count("constructed_messages", 1)
			c.Count("strings_smf", 1)
			c.DistinctBytes(m)
		}
	})
	// valid messages of every kind with their first (and second) byte replaced by every other value:
	// accessors must gate on the type, not only on length and inner bytes
	c.Each("byte-substitution", 16, func(i int64, r *mon.Rand) {
		msgs := constructedSMFMessages(r)
		msgs = append(msgs, []byte{0x90, 60, 100}, []byte{0x80, 60, 0}, []byte{0xA0, 1, 2}, []byte{0xB0, 7, 100}, []byte{0xC0, 5}, []byte{0xD0, 9}, []byte{0xE0, 0, 64},
			[]byte{0xF1, 3}, []byte{0xF2, 1, 2}, []byte{0xF3, 4}, []byte{0xF6}, []byte{0xF0, 1, 2, 0xF7}, []byte{0xF0, 0x58, 0x04, 1, 2, 3, 0xF7}, []byte{0xF7, 1, 2})
		var n int64
		for k, m := range msgs {
			if k%16 != int(i) || len(m) > 48 {
				continue
			}
			for pos := 0; pos < 2 && pos < len(m); pos++ {
				orig := m[pos]
				mm := append([]byte(nil), m...)
				for v := 0; v < 256; v++ {
					mm[pos] = byte(v)
					c.Count("cat:smf:"+classifySMF(c, mm), 1)
					classifyMidi(c, mm)
					n++
				}
				mm[pos] = orig
			}
		}
		c.Count("byte_substitution_strings", n)
		c.Count("strings_smf", n)
		c.Count("strings_midi", n)
		c.Enumerated(n)
		if n > 0 {
			c.Eval(n - 1)
		}
	})
	// standard messages (universal sysex, channel mode, RPN, ...) with EVERY byte position replaced by every
	// value: string forms that interpret the content of well-known messages see every out-of-range field
	var wk [][]byte
	wk = append(wk, gen.WellKnownSysex...)
	wk = append(wk, gen.WellKnownChannel...)
	wk = append(wk, gen.WellKnownSystem...)
	c.Each("standard-message-substitution", int64(len(wk)), func(i int64, _ *mon.Rand) {
		m := wk[i]
		if len(m) > 24 {
			return
		}
		var n int64
		for pos := 0; pos < len(m); pos++ {
			mm := append([]byte(nil), m...)
			for v := 0; v < 256; v++ {
				mm[pos] = byte(v)
				c.Count("cat:smf:"+classifySMF(c, mm), 1)
				c.Count("cat:midi:"+classifyMidi(c, mm), 1)
				n++
			}
		}
		// and two positions at once for the short ones (all pairs of positions, extreme values)
		if len(m) <= 12 {
			ext := []byte{0x00, 0x7F, 0x80, 0xFF, 0xF0, 0xF7}
			for p1 := 1; p1 < len(m); p1++ {
				for p2 := p1 + 1; p2 < len(m); p2++ {
					for _, v1 := range ext {
						for _, v2 := range ext {
							mm := append([]byte(nil), m...)
							mm[p1], mm[p2] = v1, v2
							classifySMF(c, mm)
							classifyMidi(c, mm)
							n++
						}
					}
				}
			}
		}
		// every shortened form: the first k bytes, with and without a terminating F7 behind them (a message of a
		// device with fewer fields than the standard one)
		for k := 1; k < len(m); k++ {
			for _, tail := range [][]byte{nil, {0xF7}, {0x00, 0xF7}, {0x7F}} {
				mm := append(append([]byte(nil), m[:k]...), tail...)
				classifySMF(c, mm)
				classifyMidi(c, mm)
				n++
			}
		}
		c.Count("standard_messages_cut_short", int64(len(m)-1))
		c.Count("standard_message_substitutions", n)
		c.Count("strings_smf", n)
		c.Count("strings_midi", n)
		c.Enumerated(n)
		if n > 0 {
			c.Eval(n - 1)
		}
	})

	// every length: sysex messages F0 <n data bytes> F7 for every n up to 16500 (thorough: 70000), and the
	// other long message forms (unterminated F0, F7 escape, text meta, sequencer data) at every 5th length:
	// string forms are built in buffers whose sizes have thresholds of their own
	maxLen := c.N(16_500, 70_000)
	c.Each("every-length", maxLen/50+1, func(i int64, r *mon.Rand) {
		fill := byte(r.Intn(128))
		for n := int(i) * 50; n < int(i+1)*50 && n <= int(maxLen); n++ {
			m := make([]byte, n+2)
			m[0] = 0xF0
			for j := 1; j <= n; j++ {
				m[j] = fill
			}
			m[n+1] = 0xF7
			c.Count("cat:midi:"+classifyMidi(c, m), 1)
			c.Count("cat:smf:"+classifySMF(c, m), 1)
			c.Count("every_length_strings", 2)
			if n%5 == int(i)%5 {
				for _, alt := range [][]byte{m[:n+1], append([]byte{0xF7}, m[1:n+1]...), appendVLQ([]byte{0xFF, 0x01}, uint32(n)), appendVLQ([]byte{0xFF, 0x7F}, uint32(n))} {
					if alt[0] == 0xFF {
						alt = append(alt, m[1:n+1]...)
					}
					c.Count("cat:smf:"+classifySMF(c, alt), 1)
					classifyMidi(c, alt)
					c.Count("every_length_strings", 2)
				}
			}
		}
		c.Count("strings_smf", 50)
		c.Count("strings_midi", 50)
		c.Eval(49)
		c.DistinctBytes([]byte(fmt.Sprint("every-length", i)))
	})

	// text-like meta events that really carry a long text (a lyric sheet, an embedded file): 5 000 bytes to 1.5 MiB
	c.Each("long-texts", 9, func(i int64, r *mon.Rand) {
		typ := byte(1 + i)
		for _, n := range []int{5000, 70_000, 131_072, 196_608, 196_609, 300_000, 1<<20 + 3, 3 << 19} {
			p := r.Bytes7(n)
			m := appendVLQ([]byte{0xFF, typ}, uint32(n))
			m = append(m, p...)
			c.Count("cat:smf:"+classifySMF(c, m), 1)
			c.Count("long_text_messages", 1)
			c.Count("strings_smf", 1)
			var got string
			sm := smf.Message(m)
			ok := false
			c.Guard("panic:smf.Message", fmt.Sprintf("text meta type %02X with %d bytes of text", typ, n), func() {
				switch typ {
				case 1:
					ok = sm.GetMetaText(&got)
				case 2:
					ok = sm.GetMetaCopyright(&got)
				case 3:
					ok = sm.GetMetaTrackName(&got)
				case 4:
					ok = sm.GetMetaInstrument(&got)
				case 5:
					ok = sm.GetMetaLyric(&got)
				case 6:
					ok = sm.GetMetaMarker(&got)
				case 7:
					ok = sm.GetMetaCuepoint(&got)
				case 8:
					ok = sm.GetMetaProgramName(&got)
				default:
					ok = sm.GetMetaDevice(&got)
				}
			})
			if !ok || got != string(p) {
				c.Violation("long-text-accessor", fmt.Sprintf("text meta type %02X with %d bytes of text: the accessor accepts = %v and returns %d bytes", typ, n, ok, len(got)), fmt.Sprintf("type %02X, %d bytes", typ, n), n, len(got))
			}
		}
		c.DistinctBytes([]byte(fmt.Sprint("longtext", i)))
	})

	// where int has 32 bits (worker built with GOARCH=386): declared lengths of 2^31 and more, short strings of every kind
	c.Each32("declared-lengths-32bit", 1, func(_ int64, r *mon.Rand) {
		for typ := 0; typ < 128; typ++ {
			for _, ln := range [][]byte{{0x88, 0x80, 0x80, 0x80, 0x00}, {0x8F, 0xFF, 0xFF, 0xFF, 0x7F}, {0x87, 0xFF, 0xFF, 0xFF, 0x7F}, {0xFF, 0xFF, 0xFF, 0xFF, 0x7D}, {0xFF, 0xFF, 0xFF, 0x7F}} {
				m := append(append([]byte{0xFF, byte(typ)}, ln...), 'a', 'b')
				c.Count("cat:smf:"+classifySMF(c, m), 1)
				c.Count("strings_classified_on_a_32_bit_platform", 1)
			}
		}
		for k := 0; k < 200_000; k++ {
			m := r.Bytes(r.Intn(12))
			if len(m) > 0 && r.P(1, 2) {
				m[0] = []byte{0xFF, 0xF0, 0xF7, 0x90, 0xB0, 0xE0, 0xF2}[r.Intn(7)]
			}
			classifySMF(c, m)
			classifyMidi(c, m)
			c.Count("strings_classified_on_a_32_bit_platform", 2)
		}
	})

	// text-like meta events whose declared length is far beyond the data that is there, up to the top of the 32-bit
	// range (5-byte VLQs, values that wrap when an offset is added): asking for the string form or the text of a
	// message of a dozen bytes must not allocate the declared length (4 GB for FF 03 8F FF FF FF 7F: a panic
	// "makeslice: len out of range" where int has 32 bits, a fatal out-of-memory error under a memory limit)
	c.Each("wrapping-text-lengths", 1, func(_ int64, r *mon.Rand) {
		var ms runtime.MemStats
		for _, typ := range []byte{0x01, 0x02, 0x03, 0x04, 0x05, 0x06, 0x07, 0x08, 0x09} {
			for _, ln := range [][]byte{{0xC0, 0x80, 0x00}, {0x88, 0x80, 0x80, 0x00}, {0xFF, 0xFF, 0xFF, 0x7F}, {0x81, 0x80, 0x80, 0x80, 0x00}, {0x88, 0x80, 0x80, 0x80, 0x00}, {0x8F, 0xFF, 0xFF, 0xFF, 0x7F}, {0x8F, 0xFF, 0xFF, 0xFF, 0x7B}, {0xFF, 0xFF, 0xFF, 0xFF, 0x7D}} {
				m := append(append([]byte{0xFF, typ}, ln...), 'a', 'b')
				runtime.ReadMemStats(&ms)
				before := ms.TotalAlloc
				c.Count("cat:smf:"+classifySMF(c, m), 1)
				runtime.ReadMemStats(&ms)
				c.Count("wrapping_length_messages", 1)
				c.Count("strings_smf", 1)
				c.DistinctBytes(m)
				if alloc := ms.TotalAlloc - before; alloc > 16<<20 {
					c.Violation("declared-length-allocated:smf", fmt.Sprintf("classifying the %d-byte smf.Message % X (type, categories, accessors, string form) allocated %d bytes: the declared text length is allocated although the data is not there; where int has 32 bits that is a panic (makeslice: len out of range), under a memory limit a fatal error", len(m), m, alloc), mon.Hex(m), "at most 16 MiB", alloc)
					return
				}
			}
		}
	})
}

func memAvailableGB() int {
	b, err := os.ReadFile("/proc/meminfo")
	if err != nil {
		return 0
	}
	for _, l := range strings.Split(string(b), "\n") {
		if strings.HasPrefix(l, "MemAvailable:") {
			f := strings.Fields(l)
			if len(f) >= 2 {
				kb, _ := strconv.Atoi(f[1])
				return kb >> 20
			}
		}
	}
	return 0
}

// constructedSMFMessages returns the output of every Meta* constructor on a spread of arguments.
func appendVLQ(b []byte, n uint32) []byte {
	var tmp [5]byte
	i := 4
	tmp[i] = byte(n & 0x7F)
	n >>= 7
	for n > 0 {
		i--
		tmp[i] = byte(n&0x7F) | 0x80
		n >>= 7
	}
	return append(b, tmp[i:]...)
}

func constructedSMFMessages(r *mon.Rand) (out [][]byte) {
	add := func(m smf.Message) { out = append(out, m) }
	for _, n := range []int{0, 1, 2, 127, 128, 129, 300, 16383, 16384} {
		t := string(r.Bytes(n))
		add(smf.MetaLyric(t))
		add(smf.MetaCopyright(t))
		add(smf.MetaCuepoint(t))
		add(smf.MetaDevice(t))
		add(smf.MetaInstrument(t))
		add(smf.MetaMarker(t))
		add(smf.MetaProgram(t))
		add(smf.MetaText(t))
		add(smf.MetaTrackSequenceName(t))
		add(smf.MetaSequencerData(r.Bytes(n)))
		add(smf.MetaUndefined(r.Byte()&0x7F, r.Bytes(n)))
	}
	for v := 0; v < 256; v++ {
		add(smf.MetaChannel(uint8(v)))
		add(smf.MetaPort(uint8(v)))
		add(smf.MetaSequenceNo(uint16(v * 257)))
		add(smf.MetaMeter(uint8(v), uint8(1<<(v%8))))
		add(smf.MetaTimeSig(uint8(v), uint8(1<<(v%8)), uint8(v), uint8(255-v)))
		add(smf.MetaSMPTE(uint8(v), uint8(v+1), uint8(v+2), uint8(v+3), uint8(v+4)))
		add(smf.MetaTempo(float64(v) + 0.5))
		add(smf.MetaKey(uint8(v%12), v%2 == 0, uint8(v%8), v%3 == 0))
	}
	add(smf.EOT)
	for _, k := range []func() smf.Message{smf.CMaj, smf.DMaj, smf.EMaj, smf.FsharpMaj, smf.GMaj, smf.AMaj, smf.BMaj, smf.FMaj, smf.BbMaj, smf.EbMaj, smf.AbMaj, smf.DbMaj, smf.GbMaj,
		smf.AMin, smf.BMin, smf.CsharpMin, smf.DsharpMin, smf.EMin, smf.FsharpMin, smf.GsharpMin, smf.DMin, smf.GMin, smf.CMin, smf.FMin, smf.BbMin, smf.EbMin} {
		add(k())
	}
	return
}
