package props

import (
	"bytes"
	"fmt"
	"sync"
	"time"

	"gitlab.com/gomidi/midi/v2/drivers"

	"verif/harness/gen"
	"verif/harness/mon"
	"verif/harness/ref"
)

// one representative per byte class
var c06Alphabet = []byte{0x00, 0x7F, 0x80, 0x90, 0x91, 0xA0, 0xB0, 0xC0, 0xD0, 0xE0, 0xF0, 0xF1, 0xF2, 0xF3, 0xF4, 0xF5, 0xF6, 0xF7, 0xF8, 0xFE}

var c06Cfgs = []liveCfg{
	{sysex: true, clock: true, sense: true, buf: 4},
	{sysex: false, clock: true, sense: true, buf: 4},
}

func init() {
	mon.Register(&mon.Spec{
		ID:    "C06",
		Level: "exploration",
		Rule: "exhaustive enumeration of all byte streams up to length 5 (quick) / 6 (thorough) over a 20-symbol alphabet with one representative per byte class, each run with sysex handling on and off (buffer size 4), " +
			"at the drivers.Reader level fed whole and byte-by-byte and at the midi.ListenTo level; plus seeded long random streams over all 256 byte values with random chunkings and garbage prefixes followed by well-formed suffixes. " +
			"distinct: enumeration index is injective; random streams by content hash. Every stream is non-trivial (its deliveries are compared with the reference receiver), the empty stream excepted",
		Assumptions: []string{
			"the MIDI 1.0 receiver model in harness/ref/receiver.go (new status abandons an incomplete message, running status cleared by F0-F7, undefined F4/F5 skipped, stray data ignored, oversize sysex dropped)",
			"a sysex exceeds the buffer when its total length including F0 and F7 is larger than SysExBufferSize",
			"at the drivers.Reader level the callback contract pads 0/1-data messages with zeros to 3 bytes and reports a stray F7 as [F7 00 00] (internal contract with midi.ListenTo); at the midi.ListenTo level nothing may be delivered for a stray F7",
		},
		Require:         []string{"streams_exhaustive", "streams_random", "deliveries_l1", "deliveries_l2", "sysex_overflows", "stray_f7", "suffix_checks", "abandoned_messages", "large_buffer_sysex_streams", "concurrent_reader_streams", "streams_with_clock_wrap", "stall_pauses_over_2s", "giant_buffer_sysex_streams"},
		FakeTimeWorkers: 2,
		Run:             runC06,
		Post: func(m *mon.Merged) {
			for _, cfg := range c06Cfgs {
				reach := m.Sets["reachable:"+cfg.String()]
				vis := m.Sets["visited:"+cfg.String()]
				if len(reach) == 0 {
					m.Inconclusive("no reachable-pair set computed for " + cfg.String())
				}
				for p := range reach {
					if _, ok := vis[p]; !ok {
						m.Inconclusive("reference (state, byte class) pair never visited: " + p + " under " + cfg.String())
					}
				}
			}
		},
	})
}

type c06Checker struct {
	c      *mon.Ctx
	l2     *l2
	buf    []obs
	covers []func(string)
}

func newC06Checker(c *mon.Ctx) *c06Checker {
	k := &c06Checker{c: c, l2: newL2()}
	for _, cfg := range c06Cfgs {
		name := "visited:" + cfg.String()
		seen := map[string]bool{}
		k.covers = append(k.covers, func(p string) {
			if !seen[p] {
				seen[p] = true
				c.SetAdd(name, p)
			}
		})
	}
	return k
}

// check runs one stream under every configuration at both levels.
func (k *c06Checker) check(stream []byte, chunks [][]byte, deltas []int32, withL2 bool, extra ...liveCfg) {
	c := k.c
	cfgs := c06Cfgs
	if len(extra) > 0 {
		cfgs = append(append([]liveCfg(nil), c06Cfgs...), extra...)
	}
	for ci, cfg := range cfgs {
		var cover func(string)
		if ci < len(k.covers) {
			cover = k.covers[ci]
		}
		// reference, byte by byte with unit deltas (time = index of the completing byte)
		bb := splitBytes(stream)
		un := ones(len(stream))
		want := refRun(cfg, bb, un, cover)
		for _, d := range want {
			if d.Kind == ref.EvStrayF7 {
				c.Count("stray_f7", 1)
			}
		}
		in := map[string]any{"stream": mon.Hex(stream), "config": cfg.String()}
		// L1 byte by byte
		var got []obs
		if !c.Guard("panic:reader", in, func() { got = runL1(cfg, bb, un, k.buf) }) {
			k.buf = got
			c.Count("deliveries_l1", int64(len(got)))
			if d := cmpL1(got, want, true); d != "" {
				c.Violation("l1-vs-receiver", fmt.Sprintf("drivers.Reader fed byte by byte (%s) on % X: %s", cfg, stream, d), in, delivList(want), obsList(got))
			}
		}
		// L1 in the given chunking (content only; times per chunk)
		if len(chunks) > 0 {
			wantC := refRun(cfg, chunks, deltas, nil)
			if !c.Guard("panic:reader", in, func() { got = runL1(cfg, chunks, deltas, k.buf) }) {
				k.buf = got
				c.Count("deliveries_l1", int64(len(got)))
				if d := cmpL1(got, wantC, true); d != "" {
					c.Violation("l1-vs-receiver", fmt.Sprintf("drivers.Reader fed in %d chunks (%s) on % X: %s", len(chunks), cfg, stream, d), in, delivList(wantC), obsList(got))
				}
			}
		}
		// L2: midi.ListenTo on the loopback
		if withL2 {
			ch := chunks
			dl := deltas
			if len(ch) == 0 {
				ch, dl = [][]byte{stream}, []int32{1}
			}
			var got2 []obs
			var err error
			if !c.Guard("panic:listento", in, func() { got2, err = k.l2.run(cfg, ch, dl) }) {
				c.Count("deliveries_l2", int64(len(got2)))
				if err != nil {
					c.Violation("l2-send-error", fmt.Sprintf("Send failed: %v", err), in, nil, err.Error())
				} else if d := cmpL2(got2, filterByOptions(cfg, want)); d != "" {
					c.Violation("l2-vs-receiver", fmt.Sprintf("midi.ListenTo (%s) on % X: %s", cfg, stream, d), in, delivList(want), obsList(got2))
				}
			} else {
				k.l2 = newL2() // the panic may have left the loopback in an undefined state
			}
		}
	}
}

// countFeatures records which hostile features a stream has (for the mandatory counters).
func (k *c06Checker) countFeatures(stream []byte) {
	c := k.c
	// sysex overflow: F0 followed by >= 3 data bytes and F7 with buffer 4
	n := -1
	pendingData := 0
	for _, b := range stream {
		switch {
		case b >= 0xF8:
		case b == 0xF0:
			n = 1
			pendingData = 0
		case b == 0xF7 && n >= 0:
			if n+1 > 4 {
				c.Count("sysex_overflows", 1)
			}
			n = -1
		case b >= 0x80:
			if pendingData > 0 {
				c.Count("abandoned_messages", 1)
			}
			n = -1
			pendingData = 0
			if b < 0xF0 || b == 0xF1 || b == 0xF2 || b == 0xF3 {
				pendingData = 1
			}
		default:
			if n >= 0 {
				n++
			}
			if pendingData > 0 {
				pendingData++
				if pendingData > 2 {
					pendingData = 0 // (approximation; only used for a counter)
				}
			}
		}
	}
}

func runC06(c *mon.Ctx) {
	k := newC06Checker(c)
	for _, cfg := range c06Cfgs {
		for p := range ref.ReachablePairs(cfg.bufSize(), cfg.sysex, c06Alphabet) {
			c.SetAdd("reachable:"+cfg.String(), p)
		}
	}
	A := c06Alphabet
	maxLen := 5
	if c.Thorough() {
		maxLen = 6
	}
	c.MarkExhaustive(fmt.Sprintf("all byte streams of length 0..%d over the 20-symbol byte-class alphabet x sysex on/off", maxLen))

	// streams shorter than 3
	c.Each("exh-short", 1, func(_ int64, _ *mon.Rand) {
		var n int64
		k.check(nil, nil, nil, true)
		n++
		for _, a := range A {
			k.check([]byte{a}, nil, nil, true)
			n++
			for _, b := range A {
				k.check([]byte{a, b}, nil, nil, true)
				n++
			}
		}
		c.Count("streams_exhaustive", n)
		c.Enumerated(n - 1)
		c.Eval(n - 1)
	})
	// streams of length >= 3, one case per 3-symbol prefix
	c.Each("exh", 8000, func(i int64, _ *mon.Rand) {
		s := make([]byte, 3, maxLen)
		s[0], s[1], s[2] = A[i/400], A[i/20%20], A[i%20]
		var n int64
		var rec func(s []byte)
		rec = func(s []byte) {
			k.check(s, nil, nil, true)
			k.countFeatures(s)
			n++
			if len(s) == maxLen {
				return
			}
			for _, b := range A {
				rec(append(s, b))
			}
		}
		rec(s)
		c.Count("streams_exhaustive", n)
		c.Enumerated(n)
		c.Eval(n - 1)
		if i == 3*400+0*20+10 {
			c.Sample("exhaustive-stream", map[string]any{"stream": mon.Hex([]byte{0x90, 0x00, 0xF0, 0x7F, 0xF8}), "reference": delivList(refRun(c06Cfgs[0], [][]byte{{0x90, 0x00, 0xF0, 0x7F, 0xF8}}, []int32{1}, nil))})
		}
	})

	// long random streams over all byte values, random chunkings
	c.Each("random", c.N(20_000, 2_000_000), func(i int64, r *mon.Rand) {
		n := r.Range(50, 2000)
		if i%4 != 0 {
			n = r.Range(5, 200)
		}
		s := make([]byte, n)
		mode := r.Intn(4)
		for j := range s {
			switch mode {
			case 0: // uniform
				s[j] = r.Byte()
			case 1: // status heavy
				if r.P(1, 3) {
					s[j] = 0x80 | r.Byte()
				} else {
					s[j] = r.Byte() & 0x7F
				}
			case 2: // alphabet
				s[j] = A[r.Intn(len(A))]
			default: // sysex heavy
				switch r.Intn(6) {
				case 0:
					s[j] = 0xF0
				case 1:
					s[j] = 0xF7
				default:
					s[j] = r.Byte() & 0x7F
					if r.P(1, 12) {
						s[j] = 0xF8 + r.Byte()&7
					}
				}
			}
		}
		parts := r.Partition(n, r.Pick(1, 3, 8, 64))
		chunks := make([][]byte, len(parts))
		deltas := make([]int32, len(parts))
		off := 0
		for j, p := range parts {
			chunks[j] = s[off : off+p]
			off += p
			deltas[j] = liveDelta(r, 50)
		}
		if i%10 == 3 && len(deltas) > 2 {
			// one very long pause in the middle of the stream: the 32-bit millisecond clock passes 2^31
			deltas[1+r.Intn(len(deltas)-1)] = int32(r.Pick(1<<31-1, 1<<31-5000, 2_000_000_000))
			c.Count("streams_with_clock_wrap", 1)
		}
		// a third configuration with any combination of the listen options and other buffer sizes
		xc := liveCfg{sysex: r.Bool(), clock: r.Bool(), sense: r.Bool(), buf: uint32(r.Pick(0, 4, 5, 16, 64))}
		c.SetAdd("option_combinations", fmt.Sprintf("sysex=%v clock=%v sense=%v", xc.sysex, xc.clock, xc.sense))
		k.check(s, chunks, deltas, i%2 == 0, xc)
		k.countFeatures(s)
		c.Count("streams_random", 1)
		c.DistinctBytes(s)
		if i < 1 {
			c.Sample("random-stream", mon.Hex(head(s, 80)))
		}
	})

	// hostile streams with real pauses between the deliveries (workers on the virtual process clock)
	c.EachFT("stalls", c.N(3000, 200_000), func(i int64, r *mon.Rand) {
		n := r.Range(5, 120)
		s := make([]byte, n)
		mode := r.Intn(3)
		for j := range s {
			switch mode {
			case 0:
				s[j] = r.Byte()
			case 1:
				s[j] = A[r.Intn(len(A))]
			default: // sysex heavy
				switch r.Intn(6) {
				case 0:
					s[j] = 0xF0
				case 1:
					s[j] = 0xF7
				default:
					s[j] = r.Byte() & 0x7F
				}
			}
		}
		parts := r.Partition(n, r.Pick(1, 3, 8))
		chunks := make([][]byte, len(parts))
		deltas := make([]int32, len(parts))
		pauses := make([]time.Duration, len(parts))
		off := 0
		for j, p := range parts {
			chunks[j] = s[off : off+p]
			off += p
			deltas[j] = int32(r.Intn(50))
			if r.P(1, 2) {
				pauses[j] = drawPause(r)
				if pauses[j] >= 2*time.Second {
					c.Count("stall_pauses_over_2s", 1)
				}
			}
		}
		livePause = pauses
		defer func() { livePause = nil }()
		k.check(s, chunks, deltas, i%2 == 0)
		c.Count("stall_streams", 1)
		c.DistinctBytes(s, []byte(fmt.Sprint(parts, pauses)))
	})

	// sysex lengths around the growth steps of large configured buffers, after a garbage prefix:
	// delivered iff the total length does not exceed the configured buffer
	bigBufs := []uint32{1025, 1500, 2048, 4096, 5000, 8192}
	bigLens := []int{1023, 1024, 1025, 1026, 2047, 2048, 2049, 2050, 4095, 4096, 4097, 4098, 5000, 5001, 8192, 8193}
	// plus buffers and messages beyond 2^24 bytes (a few cases: each costs tens of MiB)
	giant := [][2]int{{20 << 20, 16 << 20}, {20 << 20, 16<<20 + 1}, {32 << 20, 20 << 20}, {16<<20 + 2, 16<<20 + 3}, {1 << 20, 1<<20 + 1}, {3 << 20, 3 << 20}}
	c.Each("large-buffer-sysex", int64(len(bigBufs)*len(bigLens)+len(giant)), func(i int64, r *mon.Rand) {
		var cfg liveCfg
		var n int
		if g := int(i) - len(bigBufs)*len(bigLens); g >= 0 {
			cfg = liveCfg{sysex: true, clock: true, sense: true, buf: uint32(giant[g][0])}
			n = giant[g][1]
			c.Count("giant_buffer_sysex_streams", 1)
		} else {
			cfg = liveCfg{sysex: true, clock: true, sense: true, buf: bigBufs[int(i)/len(bigLens)]}
			n = bigLens[int(i)%len(bigLens)]
		}
		sx := make([]byte, n)
		sx[0] = 0xF0
		for j := 1; j < n-1; j++ {
			sx[j] = byte(j*7) & 0x7F
		}
		sx[n-1] = 0xF7
		prefix := []byte{0x40, 0x90, 0x41, 0xF4, 0x33, 0xF0, 0x01}[:r.Intn(8)]
		stream := append(append(append([]byte(nil), prefix...), sx...), 0x90, 0x3C, 0x40, 0xF8)
		parts := r.Partition(len(stream), r.Pick(1000000, 512, 33))
		chunks := make([][]byte, len(parts))
		deltas := make([]int32, len(parts))
		off := 0
		for j, p := range parts {
			chunks[j] = stream[off : off+p]
			off += p
			deltas[j] = int32(j%3 + 1)
		}
		in := map[string]any{"sysex_total_length": n, "config": cfg.String(), "prefix": mon.Hex(prefix)}
		var got []obs
		if c.Guard("panic:reader", in, func() { got = runL1(cfg, chunks, deltas, nil) }) {
			return
		}
		want := refRun(cfg, chunks, deltas, nil)
		c.Count("large_buffer_sysex_streams", 1)
		c.Count("streams_random", 1)
		if n > int(cfg.buf) {
			c.Count("sysex_overflows", 1)
		}
		if d := cmpL1(got, want, true); d != "" {
			c.Violation("l1-vs-receiver", fmt.Sprintf("sysex of %d bytes under %s: %s", n, cfg, d), in, fmt.Sprintf("%d reference deliveries", len(want)), fmt.Sprintf("%d deliveries", len(got)))
		}
		c.Enumerated(1)
	})

	// thorough only (about 20 s of CPU): one sysex whose data run is longer than 2^32 bytes, streamed in 1 MiB
	// chunks: it exceeds every buffer, is dropped at its F7, and what follows is decoded exactly
	if c.Thorough() {
		c.Each("sysex-beyond-2^32-bytes", 1, func(_ int64, r *mon.Rand) {
			var got [][]byte
			rd := drivers.NewReader(drivers.ListenConfig{SysEx: true, TimeCode: true, ActiveSense: true}, func(m []byte, ts int32) {
				kind, n := normL1(m)
				if kind != "strayF7" {
					got = append(got, append([]byte(nil), n...))
				}
			})
			blk := make([]byte, 1<<20)
			for j := range blk {
				blk[j] = byte(1 + j%100)
			}
			in := "90 3C 40, F0, 2^32+5 data bytes, F7, 80 3C 00, F8"
			if c.Guard("panic:reader", in, func() {
				rd.EachMessage([]byte{0x90, 0x3C, 0x40, 0xF0}, 1)
				for k := 0; k < 4096; k++ {
					rd.EachMessage(blk, 1)
				}
				rd.EachMessage([]byte{1, 2, 3, 4, 5, 0xF7, 0x80, 0x3C, 0x00, 0xF8}, 1)
			}) {
				return
			}
			c.Count("sysex_beyond_2^32_streams", 1)
			want := [][]byte{{0x90, 0x3C, 0x40}, {0x80, 0x3C, 0x00}, {0xF8}}
			ok := len(got) == len(want)
			for k := 0; ok && k < len(want); k++ {
				ok = bytes.Equal(got[k], want[k])
			}
			if !ok {
				var gl []string
				for _, m := range got {
					gl = append(gl, mon.Hex(head(m, 12)))
				}
				c.Violation("l1-vs-receiver", fmt.Sprintf("a sysex with 2^32+5 data bytes (larger than any buffer): deliveries %v, expected the note before it, and the note and the clock after it", gl), in, mon.HexList(want), gl)
			}
		})
	}

	// independent Reader objects used from 8 goroutines at once must not interfere
	c.Each("concurrent-readers", c.N(8, 200), func(i int64, r *mon.Rand) {
		type job struct {
			cfg    liveCfg
			stream []byte
			got    []obs
			pan    any
		}
		jobs := make([]*job, 64)
		for k := range jobs {
			rr := mon.NewRand(c.Seed, "C06conc", fmt.Sprint(i), uint64(k))
			n := rr.Range(20, 400)
			s := make([]byte, n)
			for j := range s {
				if rr.P(1, 3) {
					s[j] = A[rr.Intn(len(A))]
				} else {
					s[j] = rr.Byte() & 0x7F
				}
			}
			jobs[k] = &job{cfg: liveCfg{sysex: rr.Bool(), clock: true, sense: true, buf: uint32(rr.Pick(4, 16, 0))}, stream: s}
		}
		var wg sync.WaitGroup
		for g := 0; g < 8; g++ {
			wg.Add(1)
			go func(g int) {
				defer wg.Done()
				for k := g; k < len(jobs); k += 8 {
					j := jobs[k]
					func() {
						defer func() { j.pan = recover() }()
						j.got = runL1(j.cfg, splitBytes(j.stream), ones(len(j.stream)), nil)
					}()
				}
			}(g)
		}
		wg.Wait()
		for _, j := range jobs {
			c.Count("concurrent_reader_streams", 1)
			c.Eval(1)
			in := map[string]any{"stream": mon.Hex(j.stream), "config": j.cfg.String(), "scenario": "8 goroutines, each with its own drivers.Reader"}
			if j.pan != nil {
				c.Violation("panic:reader-concurrent", fmt.Sprintf("panic: %v", j.pan), in, nil, nil)
				continue
			}
			want := refRun(j.cfg, splitBytes(j.stream), ones(len(j.stream)), nil)
			if d := cmpL1(j.got, want, true); d != "" {
				c.Violation("l1-vs-receiver-concurrent", "a Reader used concurrently with 7 other Readers: "+d, in, delivList(want), obsList(j.got))
			}
		}
	})

	// garbage prefix + well-formed suffix: the suffix must be decoded exactly (ground truth
	// from the generator, independent of the reference receiver)
	c.Each("garbage-suffix", c.N(20_000, 2_000_000), func(i int64, r *mon.Rand) {
		np := r.Range(0, 30)
		prefix := make([]byte, np)
		for j := range prefix {
			if r.Bool() {
				prefix[j] = A[r.Intn(len(A))]
			} else {
				prefix[j] = r.Byte()
			}
		}
		cfg := liveCfg{sysex: true, clock: r.Bool(), sense: r.Bool(), buf: uint32(r.Pick(0, 16, 64))}
		msgs := gen.LiveSequence(r, r.Range(1, 12), cfg.bufSize(), true)
		wire := gen.Serialize(r, msgs, gen.SerOpts{RunningStatus: true, Realtime: r.P(1, 2), FirstExplicit: true})
		stream := append(append([]byte(nil), prefix...), wire.Bytes...)
		in := map[string]any{"prefix": mon.Hex(prefix), "suffix": mon.Hex(wire.Bytes), "config": cfg.String()}
		parts := r.Partition(len(stream), r.Pick(1, 4, 100))
		chunks := make([][]byte, len(parts))
		deltas := make([]int32, len(parts))
		off := 0
		for j, p := range parts {
			chunks[j] = stream[off : off+p]
			off += p
			deltas[j] = int32(r.Intn(20))
		}
		var got []obs
		if c.Guard("panic:reader", in, func() { got = runL1(cfg, chunks, deltas, nil) }) {
			return
		}
		c.Count("suffix_checks", 1)
		c.DistinctBytes(stream)
		// expected suffix deliveries in order (messages + interleaved real-time bytes)
		want := wire.Deliveries
		var tail [][]byte
		for _, o := range got {
			kind, n := normL1(o.msg)
			if kind == "msg" {
				tail = append(tail, n)
			} else if kind != "strayF7" {
				c.Violation("malformed-delivery", fmt.Sprintf("delivery %s is malformed (%s)", mon.Hex(o.msg), kind), in, nil, mon.Hex(o.msg))
				return
			}
		}
		if len(tail) < len(want) {
			c.Violation("suffix-lost", fmt.Sprintf("after a garbage prefix of %d bytes only %d messages were delivered, the well-formed suffix has %d", np, len(tail), len(want)), in, mon.HexList(want), mon.HexList(tail))
			return
		}
		tail = tail[len(tail)-len(want):]
		for j := range want {
			if !bytes.Equal(tail[j], want[j]) {
				c.Violation("suffix-differs", fmt.Sprintf("after a garbage prefix, message %d of the well-formed suffix was decoded as %s instead of %s", j, mon.Hex(tail[j]), mon.Hex(want[j])), in, mon.HexList(want), mon.HexList(tail))
				return
			}
		}
		// and the whole stream must agree with the reference receiver too
		if d := cmpL1(got, refRun(cfg, chunks, deltas, nil), true); d != "" {
			c.Violation("l1-vs-receiver", "garbage+suffix stream: "+d, in, nil, obsList(got))
		}
		if i < 1 {
			c.Sample("garbage+suffix", in)
		}
	})
}
