package props

import (
	"bytes"
	"fmt"
	"time"

	"gitlab.com/gomidi/midi/v2"
	"gitlab.com/gomidi/midi/v2/drivers"

	"verif/harness/gen"
	"verif/harness/mon"
)

func init() {
	mon.Register(&mon.Spec{
		ID:    "C04",
		Level: "exploration",
		Rule: "core (seed independent): all ordered pairs and triples of 16 message kinds x every legal running-status elision subset x one real-time byte at every position (and none) x every single split point (and unsplit), " +
			"observed at drivers.Reader.EachMessage (exact time stamps) and at midi.ListenTo on a testdrv loopback; plus a sweep of sysex total lengths (every length up to 4200, windows around every multiple of 1024 beyond; thorough: every length) under buffer sizes {default, 1025, 1500, 2048, 4096, 5000, 8192, 20000}; plus seeded random sequences (<= 40 messages) x 4 chunkings x buffer sizes {4,16,default}. " +
			"distinct = distinct (byte stream, chunking, config) by content hash; non-trivial = at least one message is delivered and compared (content, order, completing chunk, time stamp)",
		Assumptions: []string{
			"ground truth is the generator's own message list with the index of each completing byte (independent of the library and of the reference receiver, which is run as a cross-check of the generator)",
			"a status byte may be omitted iff the previous non-real-time message was a channel message with the same status",
			"drivers.Reader callback pads 0/1-data messages with zeros to 3 bytes (internal contract), normalised before comparison; midi.ListenTo deliveries are compared byte-exact",
			"time stamps are exact at both levels: at the drivers.Reader level the accumulated delta arguments, at the midi.ListenTo level the time on the test driver's clock (Driver.Sleep) since Listen, in whole milliseconds",
			"F8..FF are all treated as real-time (delivered as one-byte messages)",
		},
		Require:         []string{"runs_l1", "runs_l2", "elisions", "rt_inside_message", "rt_inside_sysex", "sysex_exact_buffer", "split_inside_message", "deliveries_checked", "generator_crosschecks", "sysex_sweep_lengths", "sandwich_chunks", "reconfigured_sessions", "clock_wrap_streams", "giant_sysex_streams", "empty_deliveries", "two_listener_sessions", "nested_runs_l1", "nested_runs_l2", "nested_rest_starts_in_running_status", "nested_rest_continues_after_the_callback", "fractional_interval_sessions", "nested_rest_continues_after_the_callback", "stall_runs_over_2s", "pauses_over_1s_inside_a_message", "pauses_over_1s_inside_a_sysex"},
		FakeTimeWorkers: 2,
		Run:             runC04,
	})
}

// the 16 message kinds of the exhaustive core (sysex buffer size 8)
var c04Kinds = [][]byte{
	{0x80, 0x40, 0x10}, {0x90, 0x41, 0x7F}, {0xA0, 0x42, 0x00}, {0xB0, 0x07, 0x64}, {0xC0, 0x05}, {0xD0, 0x33}, {0xE0, 0x00, 0x40},
	{0x91, 0x3C, 0x01}, // a second channel
	{0xF1, 0x23}, {0xF2, 0x11, 0x22}, {0xF3, 0x07}, {0xF6},
	{0xF0, 0x01, 0x02, 0xF7},                         // short sysex
	{0xF0, 0x11, 0x12, 0x13, 0x14, 0x15, 0x16, 0xF7}, // exactly the buffer size (8)
	{0xF8}, {0xFE},
}

type c04Run struct {
	c   *mon.Ctx
	buf []obs
}

// check runs one (wire, chunking, config) at L1 and optionally L2.
func (k *c04Run) check(w *gen.Wire, cuts []int, deltas []int32, cfg liveCfg, withL2 bool, label string) {
	c := k.c
	// chunks from cut points (cuts are offsets where a new chunk starts, ascending, in (0,len))
	var chunks [][]byte
	prev := 0
	for _, p := range cuts {
		chunks = append(chunks, w.Bytes[prev:p])
		prev = p
	}
	chunks = append(chunks, w.Bytes[prev:])
	chunkOf := func(idx int) int {
		ci := 0
		for _, p := range cuts {
			if idx >= p {
				ci++
			}
		}
		return ci
	}
	acc := make([]int64, len(chunks))
	var t int64
	for i := range chunks {
		t += int64(deltas[i])
		acc[i] = t
	}
	in := map[string]any{"bytes": mon.Hex(w.Bytes), "chunks": mon.HexList(chunks), "deltas_ms": deltas, "config": cfg.String(), "case": label}

	// cross-check of the generator by the reference receiver
	rd := refRun(cfg, chunks, deltas, nil)
	ok := len(rd) == len(w.Deliveries)
	for i := 0; ok && i < len(rd); i++ {
		ok = bytes.Equal(rd[i].Msg, w.Deliveries[i]) && rd[i].Time == acc[chunkOf(w.EndIdx[i])]
	}
	c.Count("generator_crosschecks", 1)
	if !ok {
		c.Inconclusive(fmt.Sprintf("harness error: generator ground truth and reference receiver disagree on % X", w.Bytes))
		return
	}
	for _, p := range cuts {
		for i := range w.EndIdx {
			if p > w.StartIdx[i] && p <= w.EndIdx[i] {
				c.Count("split_inside_message", 1)
				break
			}
		}
	}

	verify := func(level string, got []obs, exact bool) {
		if len(got) != len(w.Deliveries) {
			c.Violation(level+"-count", fmt.Sprintf("%s: %d messages sent (incl. real-time), %d delivered", level, len(w.Deliveries), len(got)), in, mon.HexList(w.Deliveries), obsList(got))
			return
		}
		offLo, offHi := int64(-60000), int64(0)
		if exact {
			offLo, offHi = 0, 0
		}
		for i, o := range got {
			m := o.msg
			if level == "l1" {
				kind, n := normL1(o.msg)
				if kind != "msg" {
					c.Violation("l1-malformed", fmt.Sprintf("delivery %d (%s): %s", i, mon.Hex(o.msg), kind), in, mon.HexList(w.Deliveries), obsList(got))
					return
				}
				m = n
			}
			if !bytes.Equal(m, w.Deliveries[i]) {
				c.Violation(level+"-content", fmt.Sprintf("%s: delivery %d is %s, message sent was %s", level, i, mon.Hex(m), mon.Hex(w.Deliveries[i])), in, mon.HexList(w.Deliveries), obsList(got))
				return
			}
			ec := chunkOf(w.EndIdx[i])
			if o.chunk != ec {
				c.Violation(level+"-moment", fmt.Sprintf("%s: message %d (%s) was delivered during call %d, its last byte arrived with call %d", level, i, mon.Hex(m), o.chunk, ec), in, ec, o.chunk)
				return
			}
			end := acc[ec]
			start := end
			if m[0] == 0xF0 {
				start = acc[chunkOf(w.StartIdx[i])]
			}
			ts := int64(o.ts)
			if level == "l2" {
				ts -= int64(l2Base / 1e6) // ms of the base advance
			}
			// offset interval consistent with this delivery: ts = t + off with t in [start,end]
			lo, hi := ts-end, ts-start
			if lo > offLo {
				offLo = lo
			}
			if hi < offHi {
				offHi = hi
			}
			if offLo > offHi {
				c.Violation(level+"-timestamp", fmt.Sprintf("%s: message %d (%s) has time stamp %d; the chunk that completed it arrived at %d (first byte at %d)", level, i, mon.Hex(m), ts, end, start), in, fmt.Sprintf("accumulated deltas %v", acc), obsList(got))
				return
			}
			c.Count("deliveries_checked", 1)
		}
	}

	var got []obs
	if !c.Guard("panic:reader", in, func() { got = runL1(cfg, chunks, deltas, k.buf) }) {
		k.buf = got
		c.Count("runs_l1", 1)
		verify("l1", got, true)
	}
	if withL2 {
		l := newL2() // fresh driver: the clock offset of a session must stay small
		var got2 []obs
		var err error
		if !c.Guard("panic:listento", in, func() { got2, err = l.run(cfg, chunks, deltas) }) {
			c.Count("runs_l2", 1)
			if err != nil {
				c.Violation("l2-send-error", fmt.Sprintf("Send returned %v", err), in, nil, err.Error())
			} else {
				verify("l2", got2, true)
			}
		}
	}
	c.Count("elisions", int64(w.Elisions))
	c.Count("rt_inside_message", int64(w.RTInside))
	c.Count("rt_inside_sysex", int64(w.RTInSysex))
	c.Eval(1)
}

// exhaustive core over a tuple of kinds
func (k *c04Run) core(kinds []int, withL2 bool, thin *mon.Rand) {
	c := k.c
	cfg := liveCfg{sysex: true, clock: true, sense: true, buf: 8}
	msgs := make([][]byte, len(kinds))
	for i, ki := range kinds {
		msgs[i] = c04Kinds[ki]
		if ki == 13 {
			c.Count("sysex_exact_buffer", 1)
		}
	}
	// legal elision positions
	var legal []int
	for i := 1; i < len(msgs); i++ {
		// same channel status as the previous non-real-time message
		j := i - 1
		for j >= 0 && msgs[j][0] >= 0xF8 {
			j--
		}
		if j >= 0 && msgs[i][0] < 0xF0 && msgs[j][0] == msgs[i][0] {
			legal = append(legal, i)
		}
	}
	for sub := 0; sub < 1<<len(legal); sub++ {
		var mask uint64
		for bi, pos := range legal {
			if sub>>bi&1 == 1 {
				mask |= 1 << uint(pos)
			}
		}
		plain := gen.Serialize(nil, msgs, gen.SerOpts{UseMask: true, ElideMask: mask})
		n := len(plain.Bytes)
		for rt := -1; rt <= n; rt++ {
			if thin != nil && rt >= 0 && !thin.P(1, 3) {
				continue
			}
			o := gen.SerOpts{UseMask: true, ElideMask: mask}
			if rt >= 0 {
				o.RTAt = []int{rt}
				o.RTByte = []byte{0xF8, 0xFA, 0xFE}[(rt+sub)%3]
			}
			w := gen.Serialize(nil, msgs, o)
			L := len(w.Bytes)
			label := fmt.Sprintf("kinds=%v elide=%b rt@%d", kinds, mask, rt)
			k.check(w, nil, []int32{7}, cfg, withL2, label)
			for cut := 1; cut < L; cut++ {
				if thin != nil && !thin.P(1, 3) {
					continue
				}
				k.check(w, []int{cut}, []int32{3, 5}, cfg, withL2, label)
			}
			// all one-byte chunks
			cuts := make([]int, 0, L)
			dl := make([]int32, 0, L)
			for p := 1; p < L; p++ {
				cuts = append(cuts, p)
			}
			for p := 0; p < L; p++ {
				dl = append(dl, int32(1+p%3))
			}
			k.check(w, cuts, dl, cfg, false, label)
			c.DistinctBytes(w.Bytes, []byte{byte(rt + 1)})
		}
	}
}

func runC04(c *mon.Ctx) {
	k := &c04Run{c: c}
	nk := len(c04Kinds)
	c.Each("pairs", int64(nk*nk), func(i int64, _ *mon.Rand) {
		k.core([]int{int(i) / nk, int(i) % nk}, true, nil)
		if i == 1*16+1 {
			w := gen.Serialize(nil, [][]byte{c04Kinds[1], c04Kinds[1]}, gen.SerOpts{ElideAll: true, RTAt: []int{4}, RTByte: 0xF8})
			c.Sample("pair", map[string]any{"messages": mon.HexList([][]byte{c04Kinds[1], c04Kinds[1]}), "wire (status elided, F8 inside)": mon.Hex(w.Bytes), "expected deliveries": mon.HexList(w.Deliveries)})
		}
	})
	c.MarkExhaustive("all ordered pairs of 16 message kinds x legal elision subsets x one real-time byte at every position x every single split point")
	c.Each("triples", int64(nk*nk*nk), func(i int64, r *mon.Rand) {
		kinds := []int{int(i) / (nk * nk), int(i) / nk % nk, int(i) % nk}
		k.core(kinds, c.Thorough() && i%4 == 0, nil)
	})
	c.MarkExhaustive("all ordered triples of 16 message kinds x legal elision subsets x one real-time byte at every position x every single split point (drivers.Reader level)")

	// ---- sysex length sweep under large configured buffers: every total length up to the buffer
	// size must be delivered (growth steps, pools and copies have alignment windows)
	bufs := []uint32{0, 1025, 1500, 2048, 4096, 5000, 8192, 20000}
	type sweepCase struct {
		buf uint32
		n   int
	}
	var sweep []sweepCase
	for _, b := range bufs {
		lim := int(b)
		if b == 0 {
			lim = 1024
		}
		for n := 2; n <= lim; n++ {
			dense := n <= 4200 || c.Thorough()
			near := (n%1024) <= 20 || (n%1024) >= 1004 || n >= lim-3
			if dense || near {
				sweep = append(sweep, sweepCase{b, n})
			}
		}
	}
	c.Each("sysex-length-sweep", int64(len(sweep)), func(i int64, r *mon.Rand) {
		sc := sweep[i]
		sx := make([]byte, sc.n)
		sx[0] = 0xF0
		for j := 1; j < sc.n-1; j++ {
			sx[j] = byte(j*31+sc.n) & 0x7F
		}
		sx[sc.n-1] = 0xF7
		msgs := [][]byte{{0x90, 0x40, 0x7F}, sx, {0x80, 0x40, 0x00}, {0xF8}}
		w := gen.Serialize(nil, msgs, gen.SerOpts{})
		cfg := liveCfg{sysex: true, clock: true, sense: true, buf: sc.buf}
		label := fmt.Sprintf("sysex of %d bytes, SysExBufferSize %d", sc.n, sc.buf)
		k.check(w, nil, []int32{9}, cfg, i%64 == 0, label)
		L := len(w.Bytes)
		cut := 1 + r.Intn(L-1)
		k.check(w, []int{cut}, []int32{2, 3}, cfg, false, label)
		var cuts []int
		for p := 256; p < L; p += 256 {
			cuts = append(cuts, p)
		}
		dl := make([]int32, len(cuts)+1)
		for j := range dl {
			dl[j] = int32(j % 4)
		}
		k.check(w, cuts, dl, cfg, false, label)
		c.Count("sysex_sweep_lengths", 1)
		if sc.n == cfg.bufSize() {
			c.Count("sysex_exact_buffer", 1)
		}
		c.Enumerated(1)
	})

	// ---- a chunk that starts with one sysex and ends with another, with other messages in between
	c.Each("sysex-sandwich", c.N(300, 20_000), func(i int64, r *mon.Rand) {
		mk := func(n int) []byte {
			sx := make([]byte, n)
			sx[0] = 0xF0
			for j := 1; j < n-1; j++ {
				sx[j] = byte(j+n) & 0x7F
			}
			sx[n-1] = 0xF7
			return sx
		}
		a, b := r.Range(2, 700), r.Range(2, 700)
		if i%3 == 0 {
			a, b = r.Pick(250, 300, 255, 256, 500), r.Pick(250, 300, 257, 511, 512)
		}
		msgs := [][]byte{mk(a)}
		for k := r.Intn(4); k >= 0; k-- {
			msgs = append(msgs, gen.LiveMsg(r, r.Intn(11), 1024))
		}
		msgs = append(msgs, mk(b))
		w := gen.Serialize(r, msgs, gen.SerOpts{RunningStatus: true, Realtime: r.P(1, 2)})
		cfg := liveCfg{sysex: true, clock: true, sense: true, buf: uint32(r.Pick(0, 0, 2048, 1024))}
		k.check(w, nil, []int32{4}, cfg, i%4 == 0, fmt.Sprintf("sandwich: sysex(%d) ... sysex(%d) in one chunk", a, b))
		c.Count("sandwich_chunks", 1)
		c.DistinctBytes(w.Bytes)
	})

	// ---- the same port listened to twice with different configurations (state must not leak from the
	// first configuration into the second): explicit small buffer then default, options off then on, ...
	c.Each("reconfigure", c.N(300, 20_000), func(i int64, r *mon.Rand) {
		l := newL2()
		cfgs := []liveCfg{
			{sysex: true, clock: true, sense: true, buf: uint32(r.Pick(4, 16, 64, 128, 500))},
			{sysex: true, clock: true, sense: true, buf: 0},
		}
		if i%3 == 1 {
			cfgs[0], cfgs[1] = cfgs[1], cfgs[0]
		}
		if i%3 == 2 {
			cfgs = []liveCfg{{sysex: false, clock: false, sense: false, buf: uint32(r.Pick(0, 8))}, {sysex: true, clock: true, sense: true, buf: uint32(r.Pick(0, 300, 2000))}}
		}
		for si, cfg := range cfgs {
			msgs := gen.LiveSequence(r, r.Range(1, 10), cfg.bufSize(), cfg.sysex)
			if cfg.sysex {
				// a sysex between the two buffer sizes
				n := r.Range(2, cfg.bufSize())
				sx := make([]byte, n)
				sx[0], sx[n-1] = 0xF0, 0xF7
				msgs = append(msgs, sx, []byte{0x90, 1, 1})
			}
			w := gen.Serialize(r, msgs, gen.SerOpts{RunningStatus: true})
			// expected: the sent messages minus the classes disabled in this session
			var want [][]byte
			for _, d := range w.Deliveries {
				switch {
				case d[0] == 0xFE && !cfg.sense, d[0] == 0xF8 && !cfg.clock, d[0] == 0xF0 && !cfg.sysex:
				default:
					want = append(want, d)
				}
			}
			in := map[string]any{"session": si, "configs": fmt.Sprint(cfgs), "bytes": mon.Hex(w.Bytes)}
			var got []obs
			var err error
			if c.Guard("panic:listento", in, func() { got, err = l.run(cfg, [][]byte{w.Bytes}, []int32{1}) }) || err != nil {
				return
			}
			c.Count("reconfigured_sessions", 1)
			c.Eval(1)
			ok := len(got) == len(want)
			for j := 0; ok && j < len(got); j++ {
				ok = bytes.Equal(got[j].msg, want[j])
			}
			if !ok {
				c.Violation("l2-reconfigure", fmt.Sprintf("listening session %d on a port that was configured as %s before: %d messages expected, %d delivered", si, cfgs[0], len(want), len(got)), in, mon.HexList(want), obsList(got))
				return
			}
		}
		c.DistinctBytes([]byte(fmt.Sprint("reconf", i)))
	})

	// ---- a very long pause (the int32 millisecond clock passes 2^31) while decoder state is pending:
	// running status, a message split over two chunks, a sysex in progress. Content and completing
	// call must be exact; time stamps are compared modulo 2^32 (the clock is 32 bits wide).
	c.Each("clock-wrap", c.N(60, 3000), func(i int64, r *mon.Rand) {
		cfg := liveCfg{sysex: true, clock: true, sense: true, buf: uint32(r.Pick(0, 64))}
		msgs := [][]byte{{0x90, 1, 2}, {0x90, 3, 4}, {0xF0, 1, 2, 3, 4, 5, 0xF7}, {0xB1, 7, 8}, {0xB1, 9, 10}, {0xC2, 5}, {0xC2, 6}, {0xF2, 1, 2}}
		w := gen.Serialize(nil, msgs, gen.SerOpts{ElideAll: true})
		L := len(w.Bytes)
		cut := 1 + int(i)%(L-1)
		big := int32(r.Pick(1<<31-1, 1<<31-1000, 1<<30, 2_000_000_000))
		pre := int32(r.Pick(0, 5, 1000, 1<<30))
		chunks := [][]byte{w.Bytes[:cut], w.Bytes[cut:]}
		deltas := []int32{pre, big}
		in := map[string]any{"bytes": mon.Hex(w.Bytes), "cut": cut, "deltas_ms": deltas, "config": cfg.String()}
		var got []obs
		if c.Guard("panic:reader", in, func() { got = runL1(cfg, chunks, deltas, nil) }) {
			return
		}
		c.Count("clock_wrap_streams", 1)
		if len(got) != len(w.Deliveries) {
			c.Violation("l1-count", fmt.Sprintf("a pause of %d ms (the 32-bit millisecond clock passes 2^31) between the two chunks: %d messages sent, %d delivered", big, len(w.Deliveries), len(got)), in, mon.HexList(w.Deliveries), obsList(got))
			return
		}
		for j, o := range got {
			kind, n := normL1(o.msg)
			wantChunk := 0
			if w.EndIdx[j] >= cut {
				wantChunk = 1
			}
			if kind != "msg" || !bytes.Equal(n, w.Deliveries[j]) || o.chunk != wantChunk {
				c.Violation("l1-content", fmt.Sprintf("after a pause of %d ms: delivery %d is %s in call %d, expected %s in call %d", big, j, mon.Hex(o.msg), o.chunk, mon.Hex(w.Deliveries[j]), wantChunk), in, mon.HexList(w.Deliveries), obsList(got))
				return
			}
			wantTs := int32(int64(pre))
			if wantChunk == 1 && w.Deliveries[j][0] != 0xF0 {
				wantTs = int32(int64(pre) + int64(big)) // wraps like the driver's int32 clock
			}
			if w.Deliveries[j][0] != 0xF0 && o.ts != wantTs {
				c.Violation("l1-timestamp", fmt.Sprintf("delivery %d (%s): time stamp %d, expected %d (accumulated deltas modulo 2^32)", j, mon.Hex(n), o.ts, wantTs), in, wantTs, o.ts)
				return
			}
		}
		c.DistinctBytes([]byte(fmt.Sprint("wrap", i, cut, big, pre)))
	})

	// ---- one giant instance: a sysex of 18 MiB under a 24 MiB buffer
	c.Each("giant-sysex", c.N(1, 4), func(i int64, r *mon.Rand) {
		n := []int{18 << 20, 16<<20 + 1, 17 << 20, 33 << 20}[i%4]
		buf := uint32(n + 1 + int(i)*4096)
		sx := make([]byte, n)
		sx[0], sx[n-1] = 0xF0, 0xF7
		for j := 1; j < n-1; j += 4099 {
			sx[j] = byte(j) & 0x7F
		}
		stream := append(append([]byte{0x93, 0x3C, 0x64}, sx...), 0xF8, 0x83, 0x3C, 0x00)
		cfg := liveCfg{sysex: true, clock: true, sense: true, buf: buf}
		var got []obs
		in := map[string]any{"sysex_total_length": n, "config": cfg.String()}
		if c.Guard("panic:reader", in, func() { got = runL1(cfg, [][]byte{stream[:n/2], stream[n/2:]}, []int32{1, 2}, nil) }) {
			return
		}
		c.Count("giant_sysex_streams", 1)
		if len(got) != 4 || len(got[1].msg) != n || !bytes.Equal(got[1].msg, sx) {
			lens := []int{}
			for _, o := range got {
				lens = append(lens, len(o.msg))
			}
			c.Violation("l1-giant-sysex", fmt.Sprintf("a sysex of %d bytes under SysExBufferSize %d: delivered message lengths %v, expected [3 %d 1 3]", n, buf, lens, n), in, []int{3, n, 1, 3}, lens)
		}
		c.DistinctBytes([]byte(fmt.Sprint("giant", n)))
	})

	// several listeners with different sysex buffer sizes alive in one process (a control surface with small
	// dumps next to a synth with large ones): what one of them receives must not depend on what the others
	// were configured with or received before
	sizePairs := [][2]int{{5000, 8192}, {4196, 6000}, {40000, 65536}, {20000, 32768}, {1500, 2048}, {300, 512}, {1024, 1025}, {70000, 100000}}
	c.Each("two-listeners", int64(len(sizePairs)*4), func(i int64, r *mon.Rand) {
		a, b := sizePairs[int(i)%len(sizePairs)][0], sizePairs[int(i)%len(sizePairs)][1]
		if int(i)/len(sizePairs)%2 == 1 {
			a, b = b, a
		}
		level := 1 + int(i)/len(sizePairs)/2
		mk := func(n int, tag byte) []byte {
			sx := make([]byte, n)
			sx[0] = 0xF0
			for j := 1; j < n-1; j++ {
				sx[j] = (byte(j) + tag) & 0x7F
			}
			sx[n-1] = 0xF7
			return sx
		}
		lo, hi := a, b
		if lo > hi {
			lo, hi = hi, lo
		}
		// lengths: fits both, fits only the larger one, exactly the sizes, fits none
		lens := []int{lo / 2, lo, lo + 1, (lo + hi) / 2, hi, hi + 1}
		type lst struct {
			size int
			got  [][]byte
			feed func([]byte)
		}
		mkL := func(size int) *lst {
			l := &lst{size: size}
			if level == 1 {
				rd := drivers.NewReader(drivers.ListenConfig{SysEx: true, SysExBufferSize: uint32(size), TimeCode: true, ActiveSense: true}, func(m []byte, ts int32) {
					_, norm := normL1(m)
					l.got = append(l.got, append([]byte(nil), norm...))
				})
				l.feed = func(b []byte) { rd.EachMessage(b, 1) }
			} else {
				x := newL2()
				midi.ListenTo(x.in, func(m midi.Message, ts int32) { l.got = append(l.got, append([]byte(nil), m...)) }, midi.UseSysEx(), midi.SysExBufferSize(uint32(size)))
				l.feed = func(b []byte) { x.out.Send(b) }
			}
			return l
		}
		la, lb := mkL(a), mkL(b)
		in := map[string]any{"level": level, "buffer_size_of_listener_A": a, "buffer_size_of_listener_B": b, "sysex_lengths_sent_alternately_to_A_and_B": lens}
		var wantA, wantB [][]byte
		if c.Guard("panic:two-listeners", in, func() {
			for k, n := range lens {
				ma, mb := mk(n, byte(k)), mk(n, byte(k+64))
				note := []byte{0x90 | byte(k), 60, 100}
				la.feed(append(append([]byte(nil), ma...), note...))
				lb.feed(append(append([]byte(nil), mb...), note...))
				if n <= a {
					wantA = append(wantA, ma)
				}
				wantA = append(wantA, note)
				if n <= b {
					wantB = append(wantB, mb)
				}
				wantB = append(wantB, note)
			}
		}) {
			return
		}
		c.Count("two_listener_sessions", 1)
		for _, x := range []struct {
			name      string
			got, want [][]byte
			size      int
		}{{"A", la.got, wantA, a}, {"B", lb.got, wantB, b}} {
			ok := len(x.got) == len(x.want)
			for k := 0; ok && k < len(x.got); k++ {
				ok = bytes.Equal(x.got[k], x.want[k])
			}
			if !ok {
				var gl, wl []int
				for _, m := range x.got {
					gl = append(gl, len(m))
				}
				for _, m := range x.want {
					wl = append(wl, len(m))
				}
				c.Violation(fmt.Sprintf("l%d-two-listeners", level), fmt.Sprintf("listener %s (sysex buffer %d) next to a listener with buffer %d: delivered message lengths %v, expected %v (every sysex up to its own buffer size, and every note)", x.name, x.size, a+b-x.size, gl, wl), in, wl, gl)
				return
			}
		}
		c.DistinctBytes([]byte(fmt.Sprint("two-listeners", i)))
	})

	// re-entrant delivery: the rest of the stream is delivered from inside the listener callback of one of
	// its messages (a thru / harmoniser rule answering on the same loopback), in running status where legal
	c.Each("nested", c.N(4000, 300_000), func(i int64, r *mon.Rand) {
		cfg := liveCfg{sysex: true, clock: true, sense: true, buf: uint32(r.Pick(16, 0, 64))}
		msgs := gen.LiveSequence(r, r.Range(2, 10), cfg.bufSize(), true)
		w := gen.Serialize(r, msgs, gen.SerOpts{RunningStatus: true, ElideAll: r.Bool(), Realtime: r.P(1, 3)})
		nd := len(w.Deliveries)
		if nd < 2 {
			return
		}
		j := r.Intn(nd - 1) // the delivery whose callback delivers the rest
		cut := w.EndIdx[j] + 1
		for k := range w.EndIdx {
			if k != j && w.StartIdx[k] < cut && w.EndIdx[k] >= cut {
				return // another message straddles the cut (real-time inside): not a clean hand-over point
			}
		}
		first, rest := w.Bytes[:cut], w.Bytes[cut:]
		if len(rest) == 0 {
			return
		}
		bytewise := r.Bool()
		// only the first part of the rest comes from inside the callback (it may end in the middle of a message or
		// of a sysex: a reply that is still being sent when the callback returns); the remainder follows from outside
		inside := len(rest)
		if r.P(1, 2) {
			inside = r.Intn(len(rest) + 1)
			c.Count("nested_rest_continues_after_the_callback", 1)
		}
		after := rest[inside:]
		rest = rest[:inside]
		in := map[string]any{"bytes": mon.Hex(w.Bytes), "delivered_from_outside": mon.Hex(first), "delivered_from_inside_the_callback_of": mon.Hex(w.Deliveries[j]), "rest_from_inside_the_callback": mon.Hex(rest), "remainder_from_outside_after_the_callback": mon.Hex(after), "rest_byte_by_byte": bytewise, "config": cfg.String()}
		feedRest := func(feed func([]byte)) {
			if bytewise {
				for q := range rest {
					feed(rest[q : q+1])
				}
			} else if len(rest) > 0 {
				feed(rest)
			}
		}
		feedAfter := func(feed func([]byte)) {
			if bytewise {
				for q := range after {
					feed(after[q : q+1])
				}
			} else if len(after) > 0 {
				feed(after)
			}
		}
		cmp := func(level string, got [][]byte) {
			if len(got) != nd {
				c.Violation(level+"-nested-count", fmt.Sprintf("%s: %d messages put on the wire (the last %d from inside a listener callback), %d delivered", level, nd, nd-j-1, len(got)), in, mon.HexList(w.Deliveries), mon.HexList(got))
				return
			}
			// the callback of message j runs until the nested deliveries are done: every message still arrives
			// exactly once, those before j first, j itself before the nested ones
			for k := range got {
				if !bytes.Equal(got[k], w.Deliveries[k]) {
					c.Violation(level+"-nested-content", fmt.Sprintf("%s: delivery %d is %s, message put on the wire was %s (bytes after message %d were delivered from inside its callback)", level, k, mon.Hex(got[k]), mon.Hex(w.Deliveries[k]), j), in, mon.HexList(w.Deliveries), mon.HexList(got))
					return
				}
			}
			c.Count("nested_deliveries_checked", int64(nd-j-1))
		}
		// level 1: drivers.Reader
		{
			var got [][]byte
			var rd *drivers.Reader
			n := 0
			fired := false
			rd = drivers.NewReader(drivers.ListenConfig{SysEx: cfg.sysex, SysExBufferSize: cfg.buf, TimeCode: true, ActiveSense: true}, func(m []byte, ts int32) {
				_, norm := normL1(m)
				got = append(got, append([]byte(nil), norm...))
				n++
				if n == j+1 && !fired {
					fired = true
					feedRest(func(b []byte) { rd.EachMessage(b, 1) })
				}
			})
			if !c.Guard("panic:reader-nested", in, func() {
				rd.EachMessage(first, 1)
				feedAfter(func(b []byte) { rd.EachMessage(b, 1) })
			}) {
				c.Count("nested_runs_l1", 1)
				if w.Deliveries[j][0] < 0xF0 && len(rest) > 0 && rest[0] < 0x80 {
					c.Count("nested_rest_starts_in_running_status", 1)
				}
				cmp("l1", got)
			}
		}
		// level 2: midi.ListenTo on the loopback, the callback sends on the same port
		if i%2 == 0 {
			l := newL2()
			var got [][]byte
			n := 0
			fired := false
			var sendErr error
			stop, err := midi.ListenTo(l.in, func(m midi.Message, ts int32) {
				got = append(got, append([]byte(nil), m...))
				n++
				if n == j+1 && !fired {
					fired = true
					feedRest(func(b []byte) {
						if e := l.out.Send(b); e != nil && sendErr == nil {
							sendErr = e
						}
					})
				}
			}, l.opts(cfg)...)
			if err == nil {
				if !c.Guard("panic:listento-nested", in, func() {
					l.out.Send(first)
					feedAfter(func(b []byte) {
						if e := l.out.Send(b); e != nil && sendErr == nil {
							sendErr = e
						}
					})
					stop()
				}) {
					c.Count("nested_runs_l2", 1)
					if sendErr != nil {
						c.Violation("l2-send-error", fmt.Sprintf("Send from inside the listener callback returned %v", sendErr), in, nil, sendErr.Error())
					} else {
						cmp("l2", got)
					}
				}
			}
		}
		c.DistinctBytes(w.Bytes, []byte(fmt.Sprint("nested", j, bytewise, cfg)))
	})

	// inter-arrival times that are not whole milliseconds on the test driver's clock (1.5 ms, 0.9 ms, a MIDI clock at
	// 120 bpm = 20.833 ms): a time stamp is the time since Listen in whole milliseconds, however many deliveries came before
	c.Each("fractional-intervals", c.N(600, 30_000), func(i int64, r *mon.Rand) {
		cfg := liveCfg{sysex: true, clock: true, sense: true, buf: uint32(r.Pick(0, 64))}
		msgs := gen.LiveSequence(r, r.Range(5, 60), cfg.bufSize(), true)
		if i%3 == 0 {
			for k := 0; k < 1000; k++ { // a long run: the error of a per-delivery truncation would grow with it
				msgs = append(msgs, []byte{0x90 | byte(k&7), byte(k & 127), 1})
			}
		}
		w := gen.Serialize(r, msgs, gen.SerOpts{})
		var chunks [][]byte
		var deltas []int32
		var frac []time.Duration
		var at []time.Duration
		var now time.Duration
		tick := time.Duration(r.Pick(1500, 900, 20833, 333, 1001, 999, 250, 10416)) * time.Microsecond
		last := 0
		for k := range w.EndIdx {
			if end := w.EndIdx[k] + 1; end > last {
				chunks = append(chunks, w.Bytes[last:end])
				d := tick
				if r.P(1, 5) {
					d = time.Duration(r.Intn(5000)) * time.Microsecond
				}
				deltas = append(deltas, int32(d/time.Millisecond))
				frac = append(frac, d%time.Millisecond)
				now += d
				at = append(at, now)
				last = end
			}
		}
		in := map[string]any{"messages": len(chunks), "interval": tick.String(), "config": cfg.String(), "first bytes": mon.Hex(head(w.Bytes, 60))}
		l := newL2()
		liveFrac = frac
		defer func() { liveFrac = nil }()
		var got []obs
		var err error
		if c.Guard("panic:listento", in, func() { got, err = l.run(cfg, chunks, deltas) }) {
			return
		}
		c.Count("fractional_interval_sessions", 1)
		c.Eval(1)
		if err != nil {
			c.Violation("l2-send-error", fmt.Sprintf("Send returned %v", err), in, nil, err.Error())
			return
		}
		if len(got) != len(chunks) {
			c.Violation("l2-count", fmt.Sprintf("%d messages sent one per call, %d delivered", len(chunks), len(got)), in, len(chunks), len(got))
			return
		}
		base := int64(l2Base / time.Millisecond)
		for k, o := range got {
			want := int64((l2Base + at[k]) / time.Millisecond)
			if !bytes.Equal(o.msg, chunks[k]) || int64(o.ts) != want {
				c.Violation("l2-timestamp-fractional", fmt.Sprintf("message %d of %d (% X), sent %v after Listen on the driver's clock (interval %v): time stamp %d ms after the first advance, want %d (whole milliseconds of the elapsed time); delivered as % X", k, len(got), chunks[k], l2Base+at[k], tick, int64(o.ts)-base, want-base, o.msg), in, want, o.ts)
				return
			}
			c.Count("deliveries_checked", 1)
		}
		c.DistinctBytes(w.Bytes, []byte(fmt.Sprint(deltas, frac)))
	})

	// real pauses between the deliveries (workers on the virtual process clock): seconds, minutes,
	// hours and days of wall time pass while a message or a sysex is incomplete
	c.EachFT("stalls", c.N(3000, 200_000), func(i int64, r *mon.Rand) {
		cfg := liveCfg{sysex: true, clock: true, sense: true, buf: uint32(r.Pick(16, 0, 64))}
		msgs := gen.LiveSequence(r, r.Range(1, 12), cfg.bufSize(), true)
		w := gen.Serialize(r, msgs, gen.SerOpts{RunningStatus: true, Realtime: r.P(1, 2)})
		L := len(w.Bytes)
		parts := r.Partition(L, r.Pick(1, 2, 5, 9))
		var cuts []int
		off := 0
		for _, p := range parts[:len(parts)-1] {
			off += p
			cuts = append(cuts, off)
		}
		deltas := make([]int32, len(parts))
		pauses := make([]time.Duration, len(parts))
		t0 := time.Now()
		var total time.Duration
		for j := range pauses {
			deltas[j] = int32(r.Intn(300))
			if r.P(2, 3) {
				pauses[j] = drawPause(r)
				total += pauses[j]
			}
		}
		livePause = pauses
		defer func() { livePause = nil }()
		k.check(w, cuts, deltas, cfg, i%2 == 0, fmt.Sprintf("real pauses (ms) before the deliveries %v", pauses))
		// both levels ran with the pauses: the process clock must have advanced accordingly
		ran := 1
		if i%2 == 0 {
			ran = 2
		}
		if el := time.Since(t0); el < time.Duration(ran)*total {
			c.Inconclusive(fmt.Sprintf("virtual process clock advanced %v during a case with %v of pauses", el, time.Duration(ran)*total))
		}
		c.Count("stall_runs", 1)
		if total >= 2*time.Second {
			c.Count("stall_runs_over_2s", 1)
		}
		for j, p := range cuts {
			for q := range w.EndIdx {
				if p > w.StartIdx[q] && p <= w.EndIdx[q] && pauses[j+1] >= time.Second {
					c.Count("pauses_over_1s_inside_a_message", 1)
					if w.Deliveries[q][0] == 0xF0 {
						c.Count("pauses_over_1s_inside_a_sysex", 1)
					}
					break
				}
			}
		}
		c.DistinctBytes(w.Bytes, []byte(fmt.Sprint(cuts, pauses)))
	})

	c.Each("random", c.N(20_000, 3_000_000), func(i int64, r *mon.Rand) {
		cfg := liveCfg{sysex: true, clock: true, sense: true, buf: uint32(r.Pick(4, 16, 0))}
		msgs := gen.LiveSequence(r, r.Range(1, 40), cfg.bufSize(), true)
		w := gen.Serialize(r, msgs, gen.SerOpts{RunningStatus: true, Realtime: r.P(2, 3)})
		for _, m := range msgs {
			if m[0] == 0xF0 && len(m) == cfg.bufSize() {
				c.Count("sysex_exact_buffer", 1)
			}
		}
		L := len(w.Bytes)
		label := fmt.Sprintf("random %d msgs", len(msgs))
		rd := func(n int) []int32 {
			d := make([]int32, n)
			for j := range d {
				d[j] = liveDelta(r, 300)
				if r.P(1, 5) {
					d[j] = 0
				}
			}
			return d
		}
		withL2 := i%2 == 0
		k.check(w, nil, rd(1), cfg, withL2, label)
		var all []int
		for p := 1; p < L; p++ {
			all = append(all, p)
		}
		k.check(w, all, rd(L), cfg, withL2, label)
		if L > 1 {
			k.check(w, []int{1 + r.Intn(L-1)}, rd(2), cfg, withL2, label)
		}
		parts := r.Partition(L, 9)
		var cuts []int
		off := 0
		for _, p := range parts[:len(parts)-1] {
			off += p
			cuts = append(cuts, off)
			if r.P(1, 6) {
				cuts = append(cuts, off) // the same cut twice: a delivery without data, with a delta of its own
				c.Count("empty_deliveries", 1)
			}
		}
		k.check(w, cuts, rd(len(cuts)+1), cfg, withL2, label)
		c.DistinctBytes(w.Bytes, []byte(cfg.String()))
		if i < 1 {
			c.Sample("random-sequence", map[string]any{"wire": mon.Hex(head(w.Bytes, 80)), "deliveries": mon.HexList(w.Deliveries)})
		}
	})
}
