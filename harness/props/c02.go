package props

import (
	"bytes"
	"fmt"
	"io"
	"os"
	"runtime"
	"runtime/debug"
	"sync"

	"gitlab.com/gomidi/midi/v2/smf"

	"verif/harness/gen"
	"verif/harness/mon"
	"verif/harness/ref"
)

func init() {
	mon.Register(&mon.Spec{
		ID:    "C02",
		Level: "exploration",
		Rule: "spec-valid SMF byte streams produced by a byte-level grammar generator with encoding choices the library's writer never makes (running status incl. one-data-byte kinds, padded VLQs of 2-4 bytes for deltas and lengths, F0 without F7, F7 packets, " +
			"all unknown meta types, payload lengths 0/1/127/128/129/16383/16384/70000, alien chunks before/between/after tracks, formats 0/1/2, metric and SMPTE divisions): a fixed core with each feature in isolation + seeded random files. " +
			"The generator's ground truth is the oracle (cross-checked by an independent lenient decoder on every file). distinct = distinct byte streams (content hash); non-trivial = at least one event besides end-of-track",
		Assumptions: []string{
			"SMF 1.0 as transcribed in harness/ref/smf.go (encoder with choices, lenient decoder)",
			"meta events are compared as (type, payload): the library re-encodes a non-minimal length canonically",
			"known fixed-length meta events are generated with their spec length (tempo 3 bytes, the value 0 included, etc.)",
			"header length is 6 (statement)",
		},
		Require: []string{"many_unknown_chunk_files", "huge_unknown_chunk_files", "reads_with_eof_delivered_with_data", "files", "feat:running_status", "feat:padded_vlq", "feat:f0_without_f7", "feat:f7_packet", "feat:unknown_meta", "feat:long_payload", "feat:alien_before", "feat:alien_between", "feat:alien_after", "feat:smpte", "decoder_crosschecks", "events_compared", "messages_classified", "pipe_reads", "reads_with_log_option", "appends_to_read_messages", "files_with_more_than_65536_events", "files_with_tracks_of_hundreds_of_events", "reads_right_after_a_refused_read_of_a_cut_file_with_long_payloads", "concurrent_reads", "rereads_after_in_place_edit_of_the_first_result"},
		UsesCur: true,
		Run:     runC02,
	})
}

func c02Check(c *mon.Ctx, f *ref.EncFile, label string) {
	var ft ref.Features
	b := f.Bytes(&ft)
	truth := f.Truth()
	in := map[string]any{"case": label, "bytes": mon.Hex(b), "len": len(b), "truth": describeFile(truth, 12)}
	// harness self-check: the independent lenient decoder must reproduce the ground truth
	d, err := ref.Decode(b, ref.DecodeOpts{})
	if err != nil {
		c.Inconclusive(fmt.Sprintf("harness error: reference decoder rejects a generated file (%v) in case %s", err, label))
		return
	}
	if diff := ref.EqualFiles(truth, d); diff != "" {
		c.Inconclusive(fmt.Sprintf("harness error: reference decoder disagrees with generator ground truth (%s) in case %s", diff, label))
		return
	}
	c.Count("decoder_crosschecks", 1)
	c.Count("files", 1)
	c.Count("feat:running_status", int64(ft.RunningStatus))
	c.Count("feat:padded_vlq", int64(ft.PaddedVLQ))
	c.Count("feat:f0_without_f7", int64(ft.F0NoF7))
	c.Count("feat:f7_packet", int64(ft.F7Escape))
	c.Count("feat:long_payload", int64(ft.LongPayload))
	c.Count("feat:alien_before", int64(ft.AlienBefore))
	c.Count("feat:alien_between", int64(ft.AlienBetween))
	c.Count("feat:alien_after", int64(ft.AlienAfter))
	if f.Division&0x8000 != 0 {
		c.Count("feat:smpte", 1)
	}
	nev := 0
	for _, tr := range truth.Tracks {
		nev += len(tr) - 1
		for _, e := range tr {
			if e.Msg[0] == 0xFF {
				known := false
				for _, t := range gen.UnknownMetaTypes {
					if t == e.Msg[1] {
						known = true
					}
				}
				if known {
					c.Count("feat:unknown_meta", 1)
				}
			}
		}
	}
	if nev > 0 {
		c.DistinctBytes(b)
	}
	s, err, panicked := readLib(c, "panic:ReadFrom", in, b)
	if panicked {
		return
	}
	if err != nil {
		c.Violation("read-error", fmt.Sprintf("ReadFrom rejects a spec-valid file (%s): %v", label, err), in, "value", err.Error())
		return
	}
	got := fromLib(s)
	if tf, ok := divisionWord(s.TimeFormat); !ok || tf != truth.Division {
		c.Violation("division", fmt.Sprintf("time division read as %v, file has %04X", s.TimeFormat, truth.Division), in, fmt.Sprintf("%04X", truth.Division), fmt.Sprint(s.TimeFormat))
		return
	}
	if diff := ref.EqualFiles(truth, got); diff != "" {
		c.Violation("content", fmt.Sprintf("ReadFrom differs from the specification decoder (%s): %s", label, diff), in, describeFile(truth, 30), describeFile(got, 30))
		return
	}
	// the value that was read belongs to the caller: growing one message with append (a player that adds a
	// terminator, an editor that extends a text) must not reach into any other event of the value
	if nev > 0 && nev < 4000 && len(b)%2 == 1 {
		type pos struct{ t, k int }
		var all []pos
		for t, tr := range s.Tracks {
			for k := range tr {
				all = append(all, pos{t, k})
			}
		}
		for k := len(all) - 1; k > 0; k-- { // fixed pseudo-random order derived from the content
			j := (k*7919 + len(b)) % (k + 1)
			all[k], all[j] = all[j], all[k]
		}
		for _, q := range all {
			_ = append(s.Tracks[q.t][q.k].Message, 0x00, 0xFF, 0x2F, 0x00)
		}
		c.Count("appends_to_read_messages", int64(len(all)))
		if diff := ref.EqualFiles(truth, fromLib(s)); diff != "" {
			c.Violation("read-value-aliased", fmt.Sprintf("after appending four bytes to the messages of the value that was read (in a shuffled order, results discarded) the value itself differs from what was read (%s): %s", label, diff), in, describeFile(truth, 30), describeFile(fromLib(s), 30))
			return
		}
	}
	// the caller edits the value it got in place (every byte of every message overwritten) and reads the same
	// stream again: the second read returns what the stream says, not what the caller did to the first result
	if nev > 0 && nev < 4000 && len(b)%4 == 3 {
		for t := range s.Tracks {
			for k := range s.Tracks[t] {
				m := s.Tracks[t][k].Message
				for j := range m {
					m[j] ^= 0x29
				}
			}
		}
		s3, err3, panicked3 := readLib(c, "panic:ReadFrom (second read)", in, b)
		if panicked3 {
			return
		}
		c.Count("rereads_after_in_place_edit_of_the_first_result", 1)
		if err3 != nil {
			c.Violation("reread-error", fmt.Sprintf("second ReadFrom of the same spec-valid stream (%s), after the caller overwrote the messages of the first result in place, fails: %v", label, err3), in, "value", err3.Error())
			return
		}
		if diff := ref.EqualFiles(truth, fromLib(s3)); diff != "" {
			c.Violation("reread-content", fmt.Sprintf("second ReadFrom of the same spec-valid stream (%s), after the caller overwrote the messages of the first result in place, differs from the specification decoder: %s", label, diff), in, describeFile(truth, 30), describeFile(fromLib(s3), 30))
			return
		}
	}
	// the Log read option must not change what is read
	if (len(b)%3 == 0 && len(b) < 3000) || (len(b) > 1200 && len(b) < 20000) {
		var sl *smf.SMF
		var lerr error
		lg := &nullLogger{}
		if !c.Guard("panic:ReadFrom+Log", in, func() { sl, lerr = smf.ReadFrom(bytes.NewReader(b), smf.Log(lg)) }) {
			c.Count("reads_with_log_option", 1)
			if lerr != nil {
				c.Violation("read-error-log", fmt.Sprintf("ReadFrom with the Log option rejects a spec-valid file (%s): %v", label, lerr), in, "value", lerr.Error())
			} else if diff := ref.EqualFiles(truth, fromLib(sl)); diff != "" {
				c.Violation("content-log", "ReadFrom with the Log option differs from the specification decoder: "+diff, in, nil, nil)
			}
		}
	}
	// sources that hand out their last bytes together with io.EOF (as decompressors, HTTP bodies with a known
	// length and iotest.DataErrReader do): every second file is read that way once more
	if len(b)%2 == 0 {
		var se *smf.SMF
		var eerr error
		src := &chunkReader{b: b, eofWithLast: true}
		if len(b)%4 == 0 {
			src.chunks = []int{len(b) - 1, 1} // the very last byte comes alone, together with EOF
		}
		if !c.Guard("panic:ReadFrom(eager EOF)", in, func() { se, eerr = smf.ReadFrom(src) }) {
			c.Count("reads_with_eof_delivered_with_data", 1)
			if eerr != nil {
				c.Violation("read-error-eager-eof", fmt.Sprintf("ReadFrom rejects a spec-valid file (%s) when the source returns its last bytes together with io.EOF: %v", label, eerr), in, "value", eerr.Error())
			} else if diff := ref.EqualFiles(truth, fromLib(se)); diff != "" {
				c.Violation("content-eager-eof", "ReadFrom differs from the specification decoder when the source returns its last bytes together with io.EOF: "+diff, in, nil, nil)
			}
		}
	}
	// files above 4 KiB are also read through a real pipe (an *os.File that cannot seek)
	if len(b) > 4200 {
		pr, pw, e := os.Pipe()
		if e == nil {
			go func() { pw.Write(b); pw.Close() }()
			var sp *smf.SMF
			var perr error
			if !c.Guard("panic:ReadFrom(pipe)", in, func() { sp, perr = smf.ReadFrom(pr) }) {
				c.Count("pipe_reads", 1)
				if perr != nil {
					c.Violation("read-error-pipe", fmt.Sprintf("ReadFrom rejects a spec-valid file (%s) when it comes through a pipe: %v", label, perr), in, "value", perr.Error())
				} else if diff := ref.EqualFiles(truth, fromLib(sp)); diff != "" {
					c.Violation("content-pipe", "ReadFrom through a pipe differs from the specification decoder: "+diff, in, nil, nil)
				}
			}
			pr.Close()
		}
	}
	c.Count("events_compared", int64(nev+len(truth.Tracks)))
	// every message the reader produced is also classified (C08 hook)
	n := 0
	for _, tr := range got.Tracks {
		for _, e := range tr {
			if n < 40 {
				classifySMF(c, e.Msg)
				n++
			}
		}
	}
	c.Count("messages_classified", int64(n))
}

// c02CheckLarge is the core of c02Check for files too large to carry around as hex: read, compare with the ground truth.
// yieldingReader hands out one or a few bytes per call and yields the processor before it returns.
type yieldingReader struct {
	b []byte
	p int
}

func (y *yieldingReader) Read(p []byte) (int, error) {
	if y.p >= len(y.b) {
		return 0, io.EOF
	}
	n := copy(p, y.b[y.p:])
	y.p += n
	runtime.Gosched()
	return n, nil
}

func c02CheckLarge(c *mon.Ctx, f *ref.EncFile, label string) {
	b := f.Bytes(nil)
	truth := f.Truth()
	in := map[string]any{"case": label, "len": len(b), "first bytes": mon.Hex(head(b, 200))}
	s, err, panicked := readLib(c, "panic:ReadFrom", in, b)
	if panicked {
		return
	}
	c.Count("files", 1)
	c.Eval(1)
	c.DistinctBytes(b)
	if err != nil {
		c.Violation("read-error", fmt.Sprintf("ReadFrom rejects a spec-valid file (%s): %v", label, err), in, "value", err.Error())
		return
	}
	if diff := ref.EqualFiles(truth, fromLib(s)); diff != "" {
		c.Violation("content", fmt.Sprintf("ReadFrom differs from the specification decoder (%s): %s", label, diff), in, nil, nil)
		return
	}
	for _, tr := range truth.Tracks {
		c.Count("events_compared", int64(len(tr)))
	}
}

func ev(delta uint32, msg ...byte) ref.EncEv { return ref.EncEv{Ev: ref.Ev{Delta: delta, Msg: msg}} }
func eot(delta uint32) ref.EncEv             { return ref.EncEv{Ev: ref.Ev{Delta: delta, Msg: ref.EOT}} }

func c02Core() (out []struct {
	label string
	f     *ref.EncFile
}) {
	add := func(label string, f *ref.EncFile) {
		out = append(out, struct {
			label string
			f     *ref.EncFile
		}{label, f})
	}
	one := func(format uint16, div uint16, tracks ...[]ref.EncEv) *ref.EncFile {
		return &ref.EncFile{Format: format, Division: div, NTracks: -1, Tracks: tracks}
	}
	rs := func(e ref.EncEv) ref.EncEv { e.RS = true; return e }
	// running status in every legal position, incl. 1-data kinds
	for _, st := range []byte{0x80, 0x95, 0xA3, 0xB0, 0xCF, 0xD1, 0xE7} {
		var tr []ref.EncEv
		n := ref.DataLen(st)
		mk := func(d uint32, x byte) ref.EncEv {
			m := []byte{st, x}
			if n == 2 {
				m = append(m, x^0x55&0x7F)
			}
			return ev(d, m...)
		}
		tr = append(tr, mk(0, 1), rs(mk(10, 2)), rs(mk(0, 3)), ev(0, 0xFF, 0x06, 0x01, 'm'), mk(5, 4), rs(mk(128, 5)), eot(0))
		add(fmt.Sprintf("running-status %02X", st), one(0, 96, tr))
	}
	// padded VLQs 2..4 bytes for deltas and lengths
	for w := 2; w <= 4; w++ {
		a := ev(5, 0x90, 60, 100)
		a.DeltaW = w
		m := ev(0, 0xFF, 0x01, 0x03, 'a', 'b', 'c')
		m.LenW = w
		sx := ev(1, 0xF0, 0x7E, 0x7F, 0xF7)
		sx.LenW = w
		e := eot(0)
		e.DeltaW = w
		add(fmt.Sprintf("padded-vlq width %d", w), one(1, 480, []ref.EncEv{a, m, sx, e}))
	}
	// sysex shapes
	add("F0 without F7 + F7 continuation", one(0, 96, []ref.EncEv{ev(0, 0xF0, 0x43, 0x12, 0x00), ev(200, 0xF7, 0x43, 0x12, 0x00, 0x43), ev(100, 0xF7, 0x12, 0x00, 0xF7), eot(0)}))
	add("F7 escape", one(0, 96, []ref.EncEv{ev(0, 0xF7, 0xF3, 0x01), ev(0, 0xF7), ev(3, 0x90, 1, 2), eot(9)}))
	add("empty F0", one(0, 96, []ref.EncEv{ev(0, 0xF0), eot(0)}))
	// unknown meta types
	var um []ref.EncEv
	for _, t := range gen.UnknownMetaTypes {
		um = append(um, ev(1, ref.Meta(t, []byte{t, 1, 2})...), ev(0, ref.Meta(t, nil)...))
	}
	um = append(um, eot(0))
	add("all unknown meta types", one(1, 960, um))
	// payload lengths
	for _, n := range []int{0, 1, 127, 128, 129, 16383, 16384, 70000} {
		p := make([]byte, n)
		for i := range p {
			p[i] = byte(i*7) & 0x7F
		}
		add(fmt.Sprintf("payload length %d", n), one(1, 96, []ref.EncEv{ev(0, ref.Meta(0x01, p)...), ev(0, ref.Meta(0x7F, p)...), ev(0, append(append([]byte{0xF0}, p...), 0xF7)...), ev(0, 0x90, 1, 1), eot(0)}))
	}
	// alien chunks
	t1 := []ref.EncEv{ev(0, 0x90, 60, 1), eot(10)}
	t2 := []ref.EncEv{ev(3, 0xC1, 5), rs(ev(0, 0xC1, 6)), eot(0)}
	for _, size := range []int{0, 1, 5, 300, 4095, 4096, 4097, 70001} {
		d := make([]byte, size)
		for i := range d {
			d[i] = byte(0x4D + i)
		}
		for pos := 0; pos <= 2; pos++ {
			f := one(1, 96, t1, t2)
			f.Aliens = []ref.Alien{{Before: pos, Type: [4]byte{'X', 'F', 'I', 'H'}, Data: d}}
			add(fmt.Sprintf("alien chunk of %d bytes before track %d", size, pos), f)
		}
		f := one(1, 96, t1, t2)
		f.Aliens = []ref.Alien{{Before: 0, Type: [4]byte{'a', 'b', 'c', 'd'}, Data: d}, {Before: 1, Type: [4]byte{0, 0, 0, 0}, Data: d}, {Before: 1, Type: [4]byte{'M', 'T', 'r', 'K'}, Data: d}, {Before: 2, Type: [4]byte{0xFF, 0x2F, 0, 0}, Data: d}}
		add(fmt.Sprintf("alien chunks of %d bytes everywhere", size), f)
	}
	// divisions
	for _, div := range []uint16{1, 96, 32767, 0xE808, 0xE728, 0xE350, 0xE264, 0xE200, 0xE2FF} {
		add(fmt.Sprintf("division %04X", div), one(1, div, t1, t2))
		add(fmt.Sprintf("division %04X format 2", div), one(2, div, t1, t2, t1))
	}
	// tempo and other known metas
	add("known metas", one(1, 96, []ref.EncEv{ev(0, 0xFF, 0x00, 0x02, 0x12, 0x34), ev(0, 0xFF, 0x51, 0x03, 0x07, 0xA1, 0x20), ev(0, 0xFF, 0x58, 0x04, 6, 3, 36, 8), ev(0, 0xFF, 0x59, 0x02, 0xFD, 1),
		ev(0, 0xFF, 0x54, 0x05, 1, 2, 3, 4, 5), ev(0, 0xFF, 0x20, 0x01, 9), ev(0, 0xFF, 0x21, 0x01, 2), ev(960, 0xFF, 0x51, 0x03, 0x00, 0x00, 0x01), eot(1)}))
	// many tiny tracks
	var many [][]ref.EncEv
	for i := 0; i < 300; i++ {
		many = append(many, []ref.EncEv{eot(uint32(i))})
	}
	add("300 empty tracks", one(1, 96, many...))
	return
}

func runC02(c *mon.Ctx) {
	core := c02Core()
	c.Each("core", int64(len(core)), func(i int64, _ *mon.Rand) {
		c02Check(c, core[i].f, core[i].label)
		if i == 0 {
			c.Sample("core-file", map[string]any{"label": core[i].label, "bytes": mon.Hex(core[i].f.Bytes(nil))})
		}
	})
	c.Each("random", c.N(20_000, 2_000_000), func(i int64, r *mon.Rand) {
		me := 60
		if i%8 == 3 {
			// tracks of a few hundred events next to short ones
			me = r.Pick(129, 200, 300, 700)
			c.Count("files_with_tracks_of_hundreds_of_events", 1)
		}
		f := gen.SMFFile(r, gen.FileOpts{MaxTracks: 8, MaxEvents: me, AllowBig: i%16 == 0, Aliens: true, PaddedVLQ: true, Running: true})
		if i%16 == 0 {
			// the program has just been refused a file that ended early (an interrupted transfer of the same file, cut at
			// seven places, most of them inside the long payload): that is over and must not show in the next read
			b := f.Bytes(nil)
			for k := 1; k < 8 && len(b) > 5000; k++ {
				cut := len(b) * k / 8
				c.Guard("panic:ReadFrom", map[string]any{"case": "prefix read before the file", "cut": cut}, func() {
					if _, err := smf.ReadFrom(bytes.NewReader(b[:cut])); err != nil {
						c.Count("reads_right_after_a_refused_read_of_a_cut_file_with_long_payloads", 1)
					}
				})
			}
		}
		c02Check(c, f, fmt.Sprintf("random %d", i))
		if i < 1 {
			c.Sample("random-file", mon.Hex(head(f.Bytes(nil), 120)))
		}
	})
	// many unknown chunks in a row (before the first track, between two tracks, after the last): the count
	// must not matter. The goroutine stack limit of the worker is lowered to 16 MiB (Go's default is 1 GB),
	// so that work per skipped chunk that is kept on the stack shows after about a million chunks instead
	// of tens of millions; a fatal stack overflow kills the worker and is attributed to this case.
	// big files at byte level: hundreds of thousands of events of mixed sizes with running status here and there
	c.Each("many-events", c.N(6, 60), func(i int64, r *mon.Rand) {
		nt := r.Pick(1, 1, 2, 4)
		total := r.Pick(70_000, 120_000, 300_000)
		lead := int(i) % 7
		f := &ref.EncFile{Format: 1, Division: 480, NTracks: -1}
		for t := 0; t < nt; t++ {
			var tr []ref.EncEv
			for k := 0; k < lead && t == 0; k++ {
				tr = append(tr, ref.EncEv{Ev: ref.Ev{Delta: 0, Msg: []byte{0xC0 | byte(k), byte(k + 1)}}})
			}
			var prev byte
			for k := 0; k < total/nt; k++ {
				var m []byte
				switch x := r.Intn(40); {
				case x == 0:
					m = []byte{0xC0 | byte(r.Intn(16)), byte(r.Intn(128))}
				case x == 1:
					m = []byte{0xD0 | byte(r.Intn(16)), byte(r.Intn(128))}
				case x == 2 && k%50 == 0:
					m = ref.Meta(0x06, []byte{byte(k), byte(k >> 8)})
				default:
					m = []byte{0x90 | byte(k>>3&15), byte(k & 127), byte(k >> 7 & 127)}
				}
				rs := m[0] == prev && m[0] < 0xF0 && r.Bool()
				tr = append(tr, ref.EncEv{Ev: ref.Ev{Delta: uint32(k & 3), Msg: m}, RS: rs})
				prev = m[0]
			}
			tr = append(tr, ref.EncEv{Ev: ref.Ev{Delta: uint32(t), Msg: ref.EOT}})
			f.Tracks = append(f.Tracks, tr)
		}
		c02CheckLarge(c, f, fmt.Sprintf("many-events %d: %d tracks, %d events, %d program changes first", i, nt, total, lead))
		c.Count("files_with_more_than_65536_events", 1)
	})

	// several files read at the same time (a program that loads a folder with one goroutine per file): every read gives
	// what the same file gives alone. The sources yield the processor inside Read, between handing over the bytes and
	// returning, so that the reads really interleave byte by byte.
	c.Each("concurrent-reads", c.N(60, 3000), func(i int64, r *mon.Rand) {
		const G = 8
		type job struct {
			b     []byte
			truth *ref.File
			got   *smf.SMF
			err   error
			pan   any
		}
		jobs := make([]*job, G)
		for k := range jobs {
			f := gen.SMFFile(r, gen.FileOpts{MaxTracks: 3, MaxEvents: 40, Aliens: true, PaddedVLQ: true, Running: true})
			jobs[k] = &job{b: f.Bytes(nil), truth: f.Truth()}
		}
		var wg sync.WaitGroup
		for _, j := range jobs {
			wg.Add(1)
			go func(j *job) {
				defer wg.Done()
				defer func() { j.pan = recover() }()
				j.got, j.err = smf.ReadFrom(&yieldingReader{b: j.b})
			}(j)
		}
		wg.Wait()
		c.Count("concurrent_reads", G)
		c.Eval(G)
		for k, j := range jobs {
			in := map[string]any{"case": fmt.Sprintf("concurrent-reads %d, reader %d of %d", i, k, G), "bytes": mon.Hex(head(j.b, 300)), "len": len(j.b)}
			switch {
			case j.pan != nil:
				c.Violation("panic:ReadFrom", fmt.Sprintf("ReadFrom run concurrently with %d others panicked: %v", G-1, j.pan), in, "no panic", fmt.Sprint(j.pan))
			case j.err != nil:
				c.Violation("read-error-concurrent", fmt.Sprintf("ReadFrom of a spec-valid file run concurrently with %d other reads fails: %v", G-1, j.err), in, "value", j.err.Error())
			default:
				if diff := ref.EqualFiles(j.truth, fromLib(j.got)); diff != "" {
					c.Violation("content-concurrent", fmt.Sprintf("ReadFrom run concurrently with %d other reads differs from the specification decoder: %s", G-1, diff), in, nil, nil)
				}
			}
		}
		c.DistinctBytes(jobs[0].b)
	})

	c.Each("many-unknown-chunks", c.N(3, 6), func(i int64, r *mon.Rand) {
		old := debug.SetMaxStack(16 << 20)
		defer debug.SetMaxStack(old)
		n := int(c.N(700_000, 3_000_000))
		var out bytes.Buffer
		out.Write([]byte{'M', 'T', 'h', 'd', 0, 0, 0, 6, 0, 1, 0, 2, 0, 96})
		aliens := func(k int) {
			for j := 0; j < k; j++ {
				out.Write([]byte{'x', 'T', byte('a' + j%26), byte('0' + j%10), 0, 0, 0, byte(j % 3)})
				out.Write([]byte{1, 2, 3}[:j%3])
			}
		}
		track := func(key byte) {
			out.Write([]byte{'M', 'T', 'r', 'k', 0, 0, 0, 8, 0, 0x90, key, 0x40, 0, 0xFF, 0x2F, 0})
		}
		where := []string{"before the first track", "between the two tracks", "after the last track"}[i%3]
		switch i % 3 {
		case 0:
			aliens(n)
			track(1)
			track(2)
		case 1:
			track(1)
			aliens(n)
			track(2)
		default:
			track(1)
			track(2)
			aliens(n)
		}
		in := map[string]any{"unknown_chunks_in_a_row": n, "where": where, "file_size": out.Len(), "goroutine_stack_limit": "16 MiB"}
		c.CurPayload([]byte(fmt.Sprint(in)))
		var sm *smf.SMF
		var err error
		if c.Guard("panic:ReadFrom", in, func() { sm, err = smf.ReadFrom(bytes.NewReader(out.Bytes())) }) {
			return
		}
		c.Count("many_unknown_chunk_files", 1)
		if err != nil {
			c.Violation("read-error", fmt.Sprintf("ReadFrom rejects a spec-valid file with %d unknown chunks %s: %v", n, where, err), in, "value", err.Error())
			return
		}
		want := &ref.File{Format: 1, Division: 96, Tracks: [][]ref.Ev{{{Delta: 0, Msg: []byte{0x90, 1, 0x40}}, {Delta: 0, Msg: ref.EOT}}, {{Delta: 0, Msg: []byte{0x90, 2, 0x40}}, {Delta: 0, Msg: ref.EOT}}}}
		if diff := ref.EqualFiles(want, fromLib(sm)); diff != "" {
			c.Violation("content", fmt.Sprintf("file with %d unknown chunks %s: %s", n, where, diff), in, nil, nil)
		}
		c.DistinctBytes([]byte(fmt.Sprint("many-unknown", i, n)))
	})
	// one unknown chunk of 2 GiB and more (its length field has the top bit set), streamed from a synthetic
	// source that never holds it in memory: before the first track and between two tracks
	hugeLens := []uint32{1<<31 - 1, 1 << 31, 1<<31 + 1, 1<<32 - 1}
	c.Each("huge-unknown-chunk", int64(len(hugeLens)*2), func(i int64, r *mon.Rand) {
		ln := hugeLens[int(i)%len(hugeLens)]
		between := int(i)/len(hugeLens) == 1
		track := func(key byte) []byte {
			return []byte{'M', 'T', 'r', 'k', 0, 0, 0, 8, 0, 0x90, key, 0x40, 0, 0xFF, 0x2F, 0}
		}
		alienHdr := []byte{'j', 'u', 'n', 'k', byte(ln >> 24), byte(ln >> 16), byte(ln >> 8), byte(ln)}
		var segs []segment
		segs = append(segs, segment{data: []byte{'M', 'T', 'h', 'd', 0, 0, 0, 6, 0, 1, 0, 2, 0, 96}})
		if between {
			segs = append(segs, segment{data: track(1)}, segment{data: alienHdr}, segment{zeros: int64(ln)}, segment{data: track(2)})
		} else {
			segs = append(segs, segment{data: alienHdr}, segment{zeros: int64(ln)}, segment{data: track(1)}, segment{data: track(2)})
		}
		src := &segmentReader{segs: segs}
		in := map[string]any{"unknown_chunk_length": ln, "between_the_tracks": between, "source": "synthetic stream (zeros generated on the fly)"}
		c.CurPayload([]byte(fmt.Sprint(in)))
		var sm *smf.SMF
		var err error
		if c.Guard("panic:ReadFrom", in, func() { sm, err = smf.ReadFrom(src) }) {
			return
		}
		c.Count("huge_unknown_chunk_files", 1)
		if err != nil {
			c.Violation("read-error", fmt.Sprintf("ReadFrom rejects a spec-valid file with one unknown chunk of %d bytes (between the tracks: %v): %v", ln, between, err), in, "value", err.Error())
			return
		}
		want := &ref.File{Format: 1, Division: 96, Tracks: [][]ref.Ev{{{Delta: 0, Msg: []byte{0x90, 1, 0x40}}, {Delta: 0, Msg: ref.EOT}}, {{Delta: 0, Msg: []byte{0x90, 2, 0x40}}, {Delta: 0, Msg: ref.EOT}}}}
		if diff := ref.EqualFiles(want, fromLib(sm)); diff != "" {
			c.Violation("content", fmt.Sprintf("file with one unknown chunk of %d bytes: %s", ln, diff), in, nil, nil)
		}
		c.DistinctBytes([]byte(fmt.Sprint("huge-unknown", i)))
	})
	if c.Thorough() {
		c.Each("huge", 3, func(i int64, r *mon.Rand) {
			switch i {
			case 0: // 40 000 tracks
				var many [][]ref.EncEv
				for k := 0; k < 40000; k++ {
					many = append(many, []ref.EncEv{ev(uint32(k), 0x90|byte(k&15), byte(k&127), 1), eot(0)})
				}
				c02Check(c, &ref.EncFile{Format: 1, Division: 96, NTracks: -1, Tracks: many}, "40000 tracks")
			case 1: // 65 535 tracks
				var many [][]ref.EncEv
				for k := 0; k < 65535; k++ {
					many = append(many, []ref.EncEv{eot(uint32(k & 3))})
				}
				c02Check(c, &ref.EncFile{Format: 1, Division: 96, NTracks: -1, Tracks: many}, "65535 tracks")
			default: // 2 MiB payloads
				p := r.Bytes7(2 << 20)
				c02Check(c, &ref.EncFile{Format: 0, Division: 96, NTracks: -1, Tracks: [][]ref.EncEv{{ev(0, ref.Meta(0x01, p)...), ev(0, append(append([]byte{0xF0}, p...), 0xF7)...), eot(0)}}}, "2 MiB payloads")
			}
		})
	}
}

// segmentReader streams a sequence of byte segments and runs of zeros that are generated on the fly.
type segment struct {
	data  []byte
	zeros int64
}

type segmentReader struct {
	segs []segment
	off  int64 // offset inside the current segment
}

func (r *segmentReader) Read(p []byte) (int, error) {
	for len(r.segs) > 0 {
		s := &r.segs[0]
		if s.data != nil {
			if r.off < int64(len(s.data)) {
				n := copy(p, s.data[r.off:])
				r.off += int64(n)
				return n, nil
			}
		} else if r.off < s.zeros {
			n := int64(len(p))
			if n > s.zeros-r.off {
				n = s.zeros - r.off
			}
			for k := int64(0); k < n; k++ {
				p[k] = 0
			}
			r.off += n
			return int(n), nil
		}
		r.segs, r.off = r.segs[1:], 0
	}
	return 0, io.EOF
}
