package ref

import "fmt"

// Receiver is a MIDI 1.0 receiver state machine written from the specification:
//   - real-time bytes F8..FF are delivered at once and do not touch any state;
//   - a status byte abandons any incomplete message (and aborts a sysex, except F7 which ends it);
//   - channel status bytes set the running status; F0..F7 clear it;
//   - data bytes without (running) status are ignored;
//   - undefined status bytes F4, F5 are skipped (they clear running status);
//   - a sysex whose total length (F0 .. F7) exceeds BufSize is dropped;
//   - an F7 outside a sysex delivers nothing (EvStrayF7 is reported so that the
//     level-1 monitor can check the library's internal notification).
type Receiver struct {
	BufSize     int  // sysex buffer size (total message length incl. F0 and F7)
	HandleSysex bool // deliver sysex messages

	state   recvState
	status  byte // status of the message being collected
	running byte // running status (0 = none)
	need    int
	data    []byte
	sysex   []byte
	sxLen   int // total length so far (counts also bytes that did not fit)
	sxStart int64

	now int64
	Out []Delivery

	// Cover, if non-nil, receives "<state>/<byte class>" for every byte consumed.
	Cover func(pair string)
}

type recvState int

const (
	stIdle recvState = iota
	stChan1of1
	stChan1of2
	stChan2of2
	stF1
	stF2a
	stF2b
	stF3
	stSysex
)

var stateNames = []string{"idle", "chan-1data-await", "chan-2data-await-1", "chan-2data-await-2", "F1-await", "F2-await-1", "F2-await-2", "F3-await", "in-sysex"}

// Delivery kinds.
const (
	EvMsg = iota
	EvStrayF7
)

// Delivery is one event the receiver hands to its user.
type Delivery struct {
	Kind  int
	Msg   []byte
	Time  int64 // time of the chunk carrying the completing byte
	Start int64 // sysex: time of the chunk carrying F0 (else == Time)
}

// ByteClass names the class of a byte for coverage purposes.
func ByteClass(b byte) string {
	switch {
	case b < 0x80:
		return "data"
	case b < 0xF0:
		return fmt.Sprintf("%X0", b>>4)
	default:
		return fmt.Sprintf("%X", b)
	}
}

func (r *Receiver) stateName() string {
	s := stateNames[r.state]
	if r.state == stIdle {
		if r.running != 0 {
			return "idle+running"
		}
		return "idle"
	}
	if r.state == stSysex && r.sxLen >= r.BufSize {
		return "in-sysex-full"
	}
	return s
}

// Feed consumes one delivery chunk that arrives delta time units after the previous one.
func (r *Receiver) Feed(chunk []byte, delta int64) {
	r.now += delta
	for _, b := range chunk {
		r.Byte(b)
	}
}

func (r *Receiver) emit(m []byte) {
	r.Out = append(r.Out, Delivery{Kind: EvMsg, Msg: m, Time: r.now, Start: r.now})
}

// Byte consumes one byte.
func (r *Receiver) Byte(b byte) {
	if r.Cover != nil {
		r.Cover(r.stateName() + "/" + ByteClass(b))
	}
	if b >= 0xF8 {
		r.emit([]byte{b})
		return
	}
	if b >= 0x80 {
		if r.state == stSysex {
			if b == 0xF7 {
				total := r.sxLen + 1
				if r.HandleSysex && total <= r.BufSize {
					m := append(append([]byte(nil), r.sysex...), 0xF7)
					r.Out = append(r.Out, Delivery{Kind: EvMsg, Msg: m, Time: r.now, Start: r.sxStart})
				}
				r.state = stIdle
				r.sysex = nil
				return
			}
			// any other status aborts the sysex and is processed normally
			r.sysex = nil
		}
		// a new status abandons whatever was incomplete
		r.state = stIdle
		r.data = r.data[:0]
		switch {
		case b < 0xF0:
			r.running = b
			r.status = b
			if DataLen(b) == 1 {
				r.state = stChan1of1
			} else {
				r.state = stChan1of2
			}
		case b == 0xF0:
			r.running = 0
			r.state = stSysex
			r.sysex = []byte{0xF0}
			r.sxLen = 1
			r.sxStart = r.now
		case b == 0xF1:
			r.running = 0
			r.status = b
			r.state = stF1
		case b == 0xF2:
			r.running = 0
			r.status = b
			r.state = stF2a
		case b == 0xF3:
			r.running = 0
			r.status = b
			r.state = stF3
		case b == 0xF6:
			r.running = 0
			r.emit([]byte{0xF6})
		case b == 0xF7:
			r.running = 0
			r.Out = append(r.Out, Delivery{Kind: EvStrayF7, Msg: []byte{0xF7}, Time: r.now, Start: r.now})
		default: // F4, F5: undefined, skipped
			r.running = 0
		}
		return
	}
	// data byte
	switch r.state {
	case stSysex:
		if r.sxLen < r.BufSize {
			r.sysex = append(r.sysex, b)
		}
		r.sxLen++
	case stIdle:
		if r.running == 0 {
			return // data without status: ignored
		}
		r.status = r.running
		if DataLen(r.status) == 1 {
			r.emit([]byte{r.status, b})
			return
		}
		r.data = append(r.data[:0], b)
		r.state = stChan2of2
	case stChan1of1:
		r.emit([]byte{r.status, b})
		r.state = stIdle
	case stChan1of2:
		r.data = append(r.data[:0], b)
		r.state = stChan2of2
	case stChan2of2:
		r.emit([]byte{r.status, r.data[0], b})
		r.state = stIdle
	case stF1, stF3:
		r.emit([]byte{r.status, b})
		r.state = stIdle
	case stF2a:
		r.data = append(r.data[:0], b)
		r.state = stF2b
	case stF2b:
		r.emit([]byte{0xF2, r.data[0], b})
		r.state = stIdle
	}
}

// ReachablePairs walks the reference machine breadth-first over one representative
// byte per class and returns every (state, byte class) pair that can occur.
func ReachablePairs(bufSize int, handleSysex bool, alphabet []byte) map[string]bool {
	type key struct {
		st      recvState
		running bool
		full    bool
		r1      bool // running status is a 1-data kind
		sx      int  // sysex length so far (capped at the buffer size)
	}
	pairs := map[string]bool{}
	seen := map[key]bool{}
	type node struct{ prefix []byte }
	queue := []node{{nil}}
	mk := func(prefix []byte) *Receiver {
		r := &Receiver{BufSize: bufSize, HandleSysex: handleSysex}
		for _, b := range prefix {
			r.Byte(b)
		}
		return r
	}
	for len(queue) > 0 {
		n := queue[0]
		queue = queue[1:]
		r := mk(n.prefix)
		k := key{r.state, r.running != 0, r.state == stSysex && r.sxLen >= r.BufSize, r.running != 0 && DataLen(r.running) == 1, 0}
		if r.state == stSysex {
			k.sx = r.sxLen
			if k.sx > r.BufSize {
				k.sx = r.BufSize
			}
		}
		if seen[k] {
			continue
		}
		seen[k] = true
		for _, b := range alphabet {
			pairs[r.stateName()+"/"+ByteClass(b)] = true
			queue = append(queue, node{append(append([]byte(nil), n.prefix...), b)})
		}
	}
	return pairs
}
