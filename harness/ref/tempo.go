package ref

import (
	"math/big"
	"sort"
)

// TempoEv is a tempo event: from AbsTick on, a quarter note lasts USPerQuarter microseconds.
type TempoEv struct {
	AbsTick      int64
	USPerQuarter uint32
}

// TempoMap is the exact integral of a tempo map (120 BPM = 500000 us per quarter before the
// first event; each tempo valid from its tick until the next; of several events on one tick the
// last one in file order wins).
type TempoMap struct {
	Resolution int64
	Events     []TempoEv // in file order, ticks non-decreasing

	// prefix sums for large maps (built on first use, rebuilt when Events has changed in length or place):
	// the state of the loop in Exact before event i
	idxFor []TempoEv
	idxPos []int64
	idxNum []*big.Int
	idxSeg []int
	idxCur []int64
}

func (m *TempoMap) index() {
	if len(m.idxFor) == len(m.Events) && len(m.Events) > 0 && &m.idxFor[0] == &m.Events[0] {
		return
	}
	n := len(m.Events)
	m.idxFor = m.Events
	m.idxPos, m.idxNum, m.idxSeg, m.idxCur = make([]int64, n+1), make([]*big.Int, n+1), make([]int, n+1), make([]int64, n+1)
	num := new(big.Int)
	cur, pos, seg := int64(500000), int64(0), 0
	for i, e := range m.Events {
		m.idxPos[i], m.idxNum[i], m.idxSeg[i], m.idxCur[i] = pos, new(big.Int).Set(num), seg, cur
		if e.AbsTick > pos {
			num.Add(num, new(big.Int).Mul(big.NewInt(e.AbsTick-pos), big.NewInt(cur)))
			seg++
			pos = e.AbsTick
		}
		cur = int64(e.USPerQuarter)
	}
	m.idxPos[n], m.idxNum[n], m.idxSeg[n], m.idxCur[n] = pos, num, seg, cur
}

// Exact returns the numerator of the exact time of tick t in microseconds over the
// denominator Resolution, and the number of tempo segments of non-zero length traversed.
func (m *TempoMap) Exact(t int64) (num *big.Int, segments int) {
	if len(m.Events) > 256 {
		// same result as the loop below: state before the first event whose tick is >= t, then the rest up to t
		m.index()
		i := sort.Search(len(m.Events), func(k int) bool { return m.Events[k].AbsTick >= t })
		num = new(big.Int).Set(m.idxNum[i])
		segments = m.idxSeg[i]
		if t > m.idxPos[i] {
			num.Add(num, new(big.Int).Mul(big.NewInt(t-m.idxPos[i]), big.NewInt(m.idxCur[i])))
			segments++
		}
		return
	}
	num = new(big.Int)
	cur := int64(500000)
	var pos int64
	add := func(upto int64) {
		if upto > pos {
			d := new(big.Int).Mul(big.NewInt(upto-pos), big.NewInt(cur))
			num.Add(num, d)
			segments++
			pos = upto
		}
	}
	for _, e := range m.Events {
		if e.AbsTick >= t {
			break
		}
		add(e.AbsTick)
		cur = int64(e.USPerQuarter)
	}
	add(t)
	return
}

// Within reports whether got (microseconds) is within tol microseconds of the exact value num/Resolution.
func (m *TempoMap) Within(got int64, num *big.Int, tol int64) bool {
	g := new(big.Int).Mul(big.NewInt(got), big.NewInt(m.Resolution))
	d := g.Sub(g, num)
	d.Abs(d)
	lim := new(big.Int).Mul(big.NewInt(tol), big.NewInt(m.Resolution))
	return d.Cmp(lim) <= 0
}

// Micros returns the exact value rounded down, for messages.
func (m *TempoMap) Micros(num *big.Int) int64 {
	q := new(big.Int).Div(num, big.NewInt(m.Resolution))
	return q.Int64()
}
