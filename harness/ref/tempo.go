package ref

import "math/big"

// TempoEv is a tempo event: from AbsTick on, a quarter note lasts USPerQuarter microseconds.
type TempoEv struct {
	AbsTick      int64
	USPerQuarter uint32
}

// TempoMap is the exact integral of a tempo map (120 BPM = 500000 us per quarter before the
// first event; each tempo valid from its tick until the next; of several events on one tick the
// last one in file order wins).
type TempoMap struct {
	Resolution int64
	Events     []TempoEv // in file order, ticks non-decreasing
}

// Exact returns the numerator of the exact time of tick t in microseconds over the
// denominator Resolution, and the number of tempo segments of non-zero length traversed.
func (m *TempoMap) Exact(t int64) (num *big.Int, segments int) {
	num = new(big.Int)
	cur := int64(500000)
	var pos int64
	add := func(upto int64) {
		if upto > pos {
			d := new(big.Int).Mul(big.NewInt(upto-pos), big.NewInt(cur))
			num.Add(num, d)
			segments++
			pos = upto
		}
	}
	for _, e := range m.Events {
		if e.AbsTick >= t {
			break
		}
		add(e.AbsTick)
		cur = int64(e.USPerQuarter)
	}
	add(t)
	return
}

// Within reports whether got (microseconds) is within tol microseconds of the exact value num/Resolution.
func (m *TempoMap) Within(got int64, num *big.Int, tol int64) bool {
	g := new(big.Int).Mul(big.NewInt(got), big.NewInt(m.Resolution))
	d := g.Sub(g, num)
	d.Abs(d)
	lim := new(big.Int).Mul(big.NewInt(tol), big.NewInt(m.Resolution))
	return d.Cmp(lim) <= 0
}

// Micros returns the exact value rounded down, for messages.
func (m *TempoMap) Micros(num *big.Int) int64 {
	q := new(big.Int).Div(num, big.NewInt(m.Resolution))
	return q.Int64()
}
