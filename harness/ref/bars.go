package ref

// BarLen32 is the length of a bar in thirty-second notes: numerator * 32 / denominator (int64, no wrap-around).
func BarLen32(num, den int) int64 { return int64(num) * 32 / int64(den) }

// Log2 of a power-of-two time signature denominator.
func Log2(den int) byte {
	var n byte
	for den > 1 {
		den >>= 1
		n++
	}
	return n
}
