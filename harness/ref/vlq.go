package ref

// VLQEncode returns the shortest variable-length quantity encoding of n (SMF 1.0).
func VLQEncode(n uint32) []byte {
	var tmp [5]byte
	i := 4
	tmp[i] = byte(n & 0x7F)
	n >>= 7
	for n > 0 {
		i--
		tmp[i] = byte(n&0x7F) | 0x80
		n >>= 7
	}
	return append([]byte(nil), tmp[i:]...)
}

// VLQEncodeWidth encodes n in exactly width bytes (non-minimal padding with 0x80 bytes
// in front); width must be at least the minimal width.
func VLQEncodeWidth(n uint32, width int) []byte {
	min := VLQEncode(n)
	for len(min) < width {
		min = append([]byte{0x80}, min...)
	}
	return min
}

// VLQDecode decodes a quantity at the start of b. ok is false if b ends inside it.
func VLQDecode(b []byte) (v uint32, n int, ok bool) {
	for n < len(b) {
		c := b[n]
		v = v<<7 | uint32(c&0x7F)
		n++
		if c&0x80 == 0 {
			return v, n, true
		}
	}
	return 0, n, false
}

// VLQLen is the length of the shortest encoding.
func VLQLen(n uint32) int {
	switch {
	case n < 1<<7:
		return 1
	case n < 1<<14:
		return 2
	case n < 1<<21:
		return 3
	case n < 1<<28:
		return 4
	}
	return 5
}

// Meta builds the canonical meta event message FF type VLQ(len) payload.
func Meta(typ byte, payload []byte) []byte {
	out := []byte{0xFF, typ}
	out = append(out, VLQEncode(uint32(len(payload)))...)
	return append(out, payload...)
}

// ParseMeta splits FF type VLQ(len) payload; ok only if the VLQ is canonical and the
// payload length matches exactly.
func ParseMeta(m []byte) (typ byte, payload []byte, ok bool) {
	if len(m) < 3 || m[0] != 0xFF {
		return 0, nil, false
	}
	v, n, vok := VLQDecode(m[2:])
	if !vok || n != VLQLen(v) || len(m) != 2+n+int(v) {
		return 0, nil, false
	}
	return m[1], m[2+n:], true
}

// ParseMetaLenient accepts a non-minimal length VLQ.
func ParseMetaLenient(m []byte) (typ byte, payload []byte, ok bool) {
	if len(m) < 3 || m[0] != 0xFF {
		return 0, nil, false
	}
	v, n, vok := VLQDecode(m[2:])
	if !vok || len(m) != 2+n+int(v) {
		return 0, nil, false
	}
	return m[1], m[2+n:], true
}

// Key signature reference: tonic pitch class for n accidentals (circle of fifths).
var majorSharps = [8]uint8{0, 7, 2, 9, 4, 11, 6, 1}  // C G D A E B F# C#
var majorFlats = [8]uint8{0, 5, 10, 3, 8, 1, 6, 11}  // C F Bb Eb Ab Db Gb Cb

// KeyTonic returns the tonic pitch class (0 = C) of the key with num sharps or flats.
func KeyTonic(num int, flat, major bool) uint8 {
	var t uint8
	if flat {
		t = majorFlats[num]
	} else {
		t = majorSharps[num]
	}
	if !major {
		t = (t + 9) % 12 // relative minor: a minor third below
	}
	return t
}
