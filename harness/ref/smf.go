package ref

import (
	"bytes"
	"encoding/binary"
	"fmt"
)

// Ev is one track event in the canonical message form the library uses for
// smf.Message: channel messages fully expanded (status + data), meta events as
// FF type VLQ(len) payload with the shortest length VLQ, sysex/escape events as
// F0|F7 followed by the payload bytes (no length).
type Ev struct {
	Delta uint32
	Msg   []byte
}

// File is the content of an SMF.
type File struct {
	Format   uint16
	Division uint16 // raw 16-bit division word
	Tracks   [][]Ev
}

// EOT is the canonical end-of-track message.
var EOT = []byte{0xFF, 0x2F, 0x00}

// IsEOT reports whether m is an end-of-track meta event.
func IsEOT(m []byte) bool { return len(m) >= 2 && m[0] == 0xFF && m[1] == 0x2F }

// EncEv is an event plus the encoding choices the byte-level serialiser takes.
type EncEv struct {
	Ev
	RS     bool // use running status if it is legal here
	DeltaW int  // width of the delta VLQ (0 = shortest)
	LenW   int  // width of the length VLQ of meta/sysex events (0 = shortest)
}

// Alien is a chunk of unknown type; Before is the index of the track chunk it
// precedes (== number of tracks: after the last track).
type Alien struct {
	Before int
	Type   [4]byte
	Data   []byte
}

// EncFile is a file with encoding choices.
type EncFile struct {
	Format   uint16
	Division uint16
	NTracks  int // declared track count; -1 = actual number of tracks
	Tracks   [][]EncEv
	Aliens   []Alien
}

// Features counts the grammar features present in an encoded file.
type Features struct {
	RunningStatus, PaddedVLQ, F0NoF7, F7Escape, UnknownMeta, LongPayload, AlienBefore, AlienBetween, AlienAfter int
}

func putChunk(out *bytes.Buffer, typ []byte, body []byte) {
	out.Write(typ)
	var l [4]byte
	binary.BigEndian.PutUint32(l[:], uint32(len(body)))
	out.Write(l[:])
	out.Write(body)
}

func vlqW(n uint32, w int) []byte {
	if w <= VLQLen(n) {
		return VLQEncode(n)
	}
	return VLQEncodeWidth(n, w)
}

// EncodeTrackBody serialises the events of one track.
func EncodeTrackBody(evs []EncEv, ft *Features) []byte {
	var b bytes.Buffer
	var running byte
	for _, e := range evs {
		dv := vlqW(e.Delta, e.DeltaW)
		if ft != nil && len(dv) > VLQLen(e.Delta) {
			ft.PaddedVLQ++
		}
		b.Write(dv)
		m := e.Msg
		switch {
		case m[0] == 0xFF:
			typ, payload, _ := ParseMetaLenient(m)
			b.WriteByte(0xFF)
			b.WriteByte(typ)
			lv := vlqW(uint32(len(payload)), e.LenW)
			if ft != nil && len(lv) > VLQLen(uint32(len(payload))) {
				ft.PaddedVLQ++
			}
			b.Write(lv)
			b.Write(payload)
			running = 0
			if ft != nil && len(payload) > 127 {
				ft.LongPayload++
			}
		case m[0] == 0xF0 || m[0] == 0xF7:
			b.WriteByte(m[0])
			lv := vlqW(uint32(len(m)-1), e.LenW)
			if ft != nil && len(lv) > VLQLen(uint32(len(m)-1)) {
				ft.PaddedVLQ++
			}
			b.Write(lv)
			b.Write(m[1:])
			running = 0
			if ft != nil {
				if m[0] == 0xF7 {
					ft.F7Escape++
				} else if m[len(m)-1] != 0xF7 {
					ft.F0NoF7++
				}
				if len(m)-1 > 127 {
					ft.LongPayload++
				}
			}
		default:
			if e.RS && running == m[0] {
				b.Write(m[1:])
				if ft != nil {
					ft.RunningStatus++
				}
			} else {
				b.Write(m)
			}
			running = m[0]
		}
	}
	return b.Bytes()
}

// Bytes serialises the file; ft (optional) receives the feature counts.
func (f *EncFile) Bytes(ft *Features) []byte {
	var out bytes.Buffer
	n := f.NTracks
	if n < 0 {
		n = len(f.Tracks)
	}
	hdr := make([]byte, 6)
	binary.BigEndian.PutUint16(hdr[0:], f.Format)
	binary.BigEndian.PutUint16(hdr[2:], uint16(n))
	binary.BigEndian.PutUint16(hdr[4:], f.Division)
	putChunk(&out, []byte("MThd"), hdr)
	for ti := 0; ti <= len(f.Tracks); ti++ {
		for _, a := range f.Aliens {
			if a.Before == ti {
				putChunk(&out, a.Type[:], a.Data)
				if ft != nil {
					switch {
					case ti == 0:
						ft.AlienBefore++
					case ti == len(f.Tracks):
						ft.AlienAfter++
					default:
						ft.AlienBetween++
					}
				}
			}
		}
		if ti < len(f.Tracks) {
			putChunk(&out, []byte("MTrk"), EncodeTrackBody(f.Tracks[ti], ft))
		}
	}
	return out.Bytes()
}

// Truth returns the content a conforming reader must report.
func (f *EncFile) Truth() *File {
	t := &File{Format: f.Format, Division: f.Division}
	for _, tr := range f.Tracks {
		var evs []Ev
		for _, e := range tr {
			m := e.Msg
			if m[0] == 0xFF {
				typ, payload, _ := ParseMetaLenient(m)
				m = Meta(typ, payload) // canonical length
			}
			evs = append(evs, Ev{e.Delta, append([]byte(nil), m...)})
		}
		t.Tracks = append(t.Tracks, evs)
	}
	return t
}

// DecodeOpts selects strictness of Decode.
type DecodeOpts struct {
	Strict bool
}

// Decode parses SMF bytes according to the specification.
// Lenient mode: honours chunk lengths, skips alien chunks, accepts non-minimal VLQs,
// stops after the declared number of tracks. Strict mode additionally requires: header
// length 6, ntrks == number of MTrk chunks, no alien chunks, every track body parses to
// exactly the chunk end, exactly one end-of-track and it is last, canonical VLQs of at
// most 4 bytes, data bytes < 0x80, no trailing bytes.
func Decode(b []byte, o DecodeOpts) (*File, error) {
	if len(b) < 14 || string(b[0:4]) != "MThd" {
		return nil, fmt.Errorf("no MThd header")
	}
	hl := binary.BigEndian.Uint32(b[4:8])
	if hl < 6 || (o.Strict && hl != 6) {
		return nil, fmt.Errorf("header length %d", hl)
	}
	if uint64(len(b)) < 8+uint64(hl) {
		return nil, fmt.Errorf("truncated header")
	}
	f := &File{Format: binary.BigEndian.Uint16(b[8:10]), Division: binary.BigEndian.Uint16(b[12:14])}
	ntrks := int(binary.BigEndian.Uint16(b[10:12]))
	if f.Format > 2 {
		return nil, fmt.Errorf("format %d", f.Format)
	}
	pos := 8 + int(hl)
	for {
		if !o.Strict && len(f.Tracks) == ntrks {
			break
		}
		if pos == len(b) {
			break
		}
		if pos+8 > len(b) {
			return nil, fmt.Errorf("truncated chunk header at %d", pos)
		}
		typ := string(b[pos : pos+4])
		cl := int(binary.BigEndian.Uint32(b[pos+4 : pos+8]))
		pos += 8
		if cl < 0 || pos+cl > len(b) {
			return nil, fmt.Errorf("chunk %q at %d: length %d exceeds the data", typ, pos-8, cl)
		}
		body := b[pos : pos+cl]
		pos += cl
		if typ != "MTrk" {
			if o.Strict {
				return nil, fmt.Errorf("alien chunk %q", typ)
			}
			continue
		}
		evs, err := decodeTrack(body, o.Strict)
		if err != nil {
			return nil, fmt.Errorf("track %d: %v", len(f.Tracks), err)
		}
		f.Tracks = append(f.Tracks, evs)
	}
	if len(f.Tracks) != ntrks {
		return nil, fmt.Errorf("header declares %d tracks, file has %d MTrk chunks", ntrks, len(f.Tracks))
	}
	if o.Strict && pos != len(b) {
		return nil, fmt.Errorf("%d trailing bytes", len(b)-pos)
	}
	return f, nil
}

func decodeTrack(body []byte, strict bool) ([]Ev, error) {
	var evs []Ev
	var running byte
	p := 0
	vlq := func(what string) (uint32, error) {
		v, n, ok := VLQDecode(body[p:])
		if !ok {
			return 0, fmt.Errorf("%s at %d: VLQ runs past the chunk end", what, p)
		}
		if n > 4 && strict {
			return 0, fmt.Errorf("%s at %d: VLQ of %d bytes", what, p, n)
		}
		if strict && n != VLQLen(v) {
			return 0, fmt.Errorf("%s at %d: non-canonical VLQ (%d bytes for %d)", what, p, n, v)
		}
		p += n
		return v, nil
	}
	for p < len(body) {
		d, err := vlq("delta")
		if err != nil {
			return nil, err
		}
		if p >= len(body) {
			return nil, fmt.Errorf("event at %d: no status", p)
		}
		s := body[p]
		switch {
		case s == 0xFF:
			if p+2 > len(body) {
				return nil, fmt.Errorf("meta at %d truncated", p)
			}
			typ := body[p+1]
			p += 2
			l, err := vlq("meta length")
			if err != nil {
				return nil, err
			}
			if p+int(l) > len(body) {
				return nil, fmt.Errorf("meta payload at %d exceeds the chunk", p)
			}
			evs = append(evs, Ev{d, Meta(typ, body[p:p+int(l)])})
			p += int(l)
			running = 0
			if typ == 0x2F {
				if strict && (l != 0 || p != len(body)) {
					return nil, fmt.Errorf("end of track at %d is not the last event of the chunk or has a payload", p)
				}
				return evs, nil
			}
		case s == 0xF0 || s == 0xF7:
			p++
			l, err := vlq("sysex length")
			if err != nil {
				return nil, err
			}
			if p+int(l) > len(body) {
				return nil, fmt.Errorf("sysex payload at %d exceeds the chunk", p)
			}
			evs = append(evs, Ev{d, append([]byte{s}, body[p:p+int(l)]...)})
			p += int(l)
			running = 0
		case s >= 0xF1:
			return nil, fmt.Errorf("status %02X at %d is not allowed in a track", s, p)
		default:
			st := s
			if s < 0x80 {
				if running == 0 {
					return nil, fmt.Errorf("data byte %02X at %d without running status", s, p)
				}
				st = running
			} else {
				p++
				running = s
			}
			n := DataLen(st)
			if p+n > len(body) {
				return nil, fmt.Errorf("channel message at %d truncated", p)
			}
			m := append([]byte{st}, body[p:p+n]...)
			for _, x := range m[1:] {
				if x >= 0x80 && strict {
					return nil, fmt.Errorf("data byte %02X >= 80 at %d", x, p)
				}
			}
			p += n
			evs = append(evs, Ev{d, m})
		}
	}
	if strict {
		return nil, fmt.Errorf("track has no end-of-track event")
	}
	return evs, nil
}

// EqualFiles compares two contents; returns "" if equal.
func EqualFiles(want, got *File) string {
	if want.Format != got.Format {
		return fmt.Sprintf("format: want %d got %d", want.Format, got.Format)
	}
	if want.Division != got.Division {
		return fmt.Sprintf("division: want %04X got %04X", want.Division, got.Division)
	}
	if len(want.Tracks) != len(got.Tracks) {
		return fmt.Sprintf("track count: want %d got %d", len(want.Tracks), len(got.Tracks))
	}
	for ti := range want.Tracks {
		w, g := want.Tracks[ti], got.Tracks[ti]
		for i := 0; i < len(w) || i < len(g); i++ {
			switch {
			case i >= len(g):
				return fmt.Sprintf("track %d: event %d (delta %d, % X) missing (%d of %d events)", ti, i, w[i].Delta, clip(w[i].Msg), len(g), len(w))
			case i >= len(w):
				return fmt.Sprintf("track %d: extra event %d (delta %d, % X)", ti, i, g[i].Delta, clip(g[i].Msg))
			case w[i].Delta != g[i].Delta || !bytes.Equal(w[i].Msg, g[i].Msg):
				return fmt.Sprintf("track %d event %d: want (delta %d, % X) got (delta %d, % X)", ti, i, w[i].Delta, clip(w[i].Msg), g[i].Delta, clip(g[i].Msg))
			}
		}
	}
	return ""
}

func clip(b []byte) []byte {
	if len(b) > 24 {
		return b[:24]
	}
	return b
}
