// Package ref holds the independent references the monitors compare the library
// against. They are written from the MIDI 1.0 and SMF 1.0 specifications and
// import nothing from the library under test.
package ref

// DataLen returns the number of data bytes that follow a status byte on the wire.
// Special values: -1 sysex start (F0), -2 undefined system common (F4, F5),
// -3 end of exclusive (F7).
func DataLen(status byte) int {
	switch {
	case status < 0x80:
		panic("not a status byte")
	case status < 0xC0:
		return 2
	case status < 0xE0:
		return 1
	case status < 0xF0:
		return 2
	}
	switch status {
	case 0xF0:
		return -1
	case 0xF1, 0xF3:
		return 1
	case 0xF2:
		return 2
	case 0xF4, 0xF5:
		return -2
	case 0xF6:
		return 0
	case 0xF7:
		return -3
	}
	return 0 // F8..FF real time
}

func clamp7(v int) byte {
	if v > 127 {
		return 127
	}
	if v < 0 {
		return 0
	}
	return byte(v)
}

func clampCh(ch int) byte {
	if ch > 15 {
		return 15
	}
	return byte(ch)
}

// Channel2 is the spec encoding of a two-data-byte channel voice message with
// out-of-range arguments clamped to the nearest legal value.
func Channel2(kind byte, ch, d1, d2 int) []byte {
	return []byte{kind<<4 | clampCh(ch), clamp7(d1), clamp7(d2)}
}

// Channel1 is the spec encoding of a one-data-byte channel voice message.
func Channel1(kind byte, ch, d1 int) []byte {
	return []byte{kind<<4 | clampCh(ch), clamp7(d1)}
}

// PitchBend is the spec encoding: 14-bit value = rel+8192, least significant 7 bits first.
func PitchBend(ch int, rel int) []byte {
	if rel > 8191 {
		rel = 8191
	}
	if rel < -8192 {
		rel = -8192
	}
	abs := rel + 8192
	return []byte{0xE0 | clampCh(ch), byte(abs & 0x7F), byte(abs >> 7 & 0x7F)}
}

// SPP is the spec encoding of a song position pointer (14 bit, LSB first).
func SPP(v int) []byte { return []byte{0xF2, byte(v & 0x7F), byte(v >> 7 & 0x7F)} }

// WellFormed reports whether m is one complete wire message: status byte first,
// then exactly the number of data bytes the status prescribes, all below 0x80
// (sysex: F0, data bytes, F7).
func WellFormed(m []byte) bool {
	if len(m) == 0 || m[0] < 0x80 {
		return false
	}
	n := DataLen(m[0])
	switch n {
	case -1:
		if len(m) < 2 || m[len(m)-1] != 0xF7 {
			return false
		}
		for _, b := range m[1 : len(m)-1] {
			if b >= 0x80 {
				return false
			}
		}
		return true
	case -2, -3:
		return false
	}
	if len(m) != 1+n {
		return false
	}
	for _, b := range m[1:] {
		if b >= 0x80 {
			return false
		}
	}
	return true
}
