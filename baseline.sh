#!/bin/bash
# Runs the repository's pinned test suite with the verif build tag OFF and checks that all
# 66 stable baseline tests (baseline_tests.txt, copied from /root/.vp/BASELINE.json) pass.
cd "$(dirname "$0")"
export GOFLAGS=-mod=mod GOPROXY=off GOSUMDB=off GOTOOLCHAIN=local
REPO="${VERIF_REPO:-/repo}"
OUT=$(mktemp)
(cd "$REPO/v2" && go test -mod=mod -json -vet=off -count=1 -timeout 25m ./... 2>/dev/null) > "$OUT"
python3 - "$OUT" baseline_tests.txt <<'PY'
import json,sys
passed=set()
for l in open(sys.argv[1]):
    try: e=json.loads(l)
    except Exception: continue
    if e.get('Action')=='pass' and e.get('Test'):
        passed.add(e['Package']+'::'+e['Test'])
want=[l.strip() for l in open(sys.argv[2]) if l.strip()]
missing=[t for t in want if t not in passed]
print(f"baseline: {len(want)-len(missing)}/{len(want)} stable tests pass")
for t in missing: print("MISSING/FAILED:",t)
sys.exit(1 if missing else 0)
PY
rc=$?
rm -f "$OUT"
exit $rc
