#!/bin/bash
# selftest/reconfirm.sh <Cxx-L> [ID ...]
# Re-confirms a change already stored under /verif/seeded/<Cxx-L>/ (patch.diff + demo/) against the
# current /repo HEAD and the current checks: fresh scratch worktree, demonstration without the change
# (must pass), patch applied, compiles, demonstration with the change (must fail), baseline 66/66 with
# the change, then the quick checks of the given properties (default: the property the change breaks)
# against the changed copy. meta.json is updated: checks that were run are replaced in the fired list,
# results of checks that were not run are kept. Scratch worktree and build output are removed.
set -u
cd "$(dirname "$0")/.."
CID="$1"; shift
D=seeded/$CID
[ -f "$D/patch.diff" ] || { echo "no $D/patch.diff"; exit 3; }
P=${CID%%-*}
IDS="${*:-$P}"
[ "$IDS" = ALL ] && IDS="C01 C02 C03 C04 C05 C06 C07 C08 C09 C10 C11 C12 C13 C14 C15 C16 C17 C18 C19 C20"
TIER="${RECONFIRM_TIER:-quick}"
export GOFLAGS=-mod=mod GOPROXY=off GOSUMDB=off GOTOOLCHAIN=local
WT=$(mktemp -d /tmp/reconf.XXXXXX)
git -C /repo worktree add -q --detach "$WT/repo" HEAD || exit 3
cleanup() {
  tag=$(echo "$WT/repo" | md5sum | cut -c1-8)
  rm -rf ".build/bin-$tag" ".build/alt-$tag.mod" ".build/alt-$tag.sum"
  git -C /repo worktree remove --force "$WT/repo" 2>/dev/null
  rm -rf "$WT"
}
trap cleanup EXIT
DEMO=$(python3 -c "import json,sys;print(json.load(open('$D/meta.json'))['demo_command'].split('&&',1)[1].strip())")
# demonstrations of the process-backed driver need some `midicat` in PATH for the package init: the agents' stand-in lived in
# their scratch worktree (/tmp/wt/C17/seeded/B/bin); the harness's own stand-in (.build/bin/midicat, built by setup.sh) does the same
STANDIN="$PWD/.build/bin"; [ -d "$D/bin" ] && STANDIN="$PWD/$D/bin"   # a change may bring its own stand-in (seeded/<id>/bin)
DEMO=$(echo "$DEMO" | sed -E "s#/tmp/wt[0-9]?/C[0-9]+/seeded/[A-Z]/bin#$STANDIN#g")
DEMOFILES=$(cd "$D/demo" && find . -type f | sed 's#^\./##')
for f in $DEMOFILES; do mkdir -p "$WT/repo/$(dirname "$f")"; cp "$D/demo/$f" "$WT/repo/$f"; done
run_demo() { (cd "$WT/repo/v2" && timeout 900 bash -c "$DEMO") > "$WT/demo.$1.log" 2>&1; echo $?; }
rc_clean=$(run_demo clean)
if ! git -C "$WT/repo" apply "$PWD/$D/patch.diff"; then echo "RESULT $CID PATCH-DOES-NOT-APPLY"; exit 3; fi
if ! (cd "$WT/repo/v2" && go build . ./smf/... ./drivers/testdrv/... ./drivers/midicat/... ./drivers/midicatdrv/... ./internal/... ./sequencer/... ./sysex/... ./mmc/...) 2> "$WT/build.log"; then echo "RESULT $CID DOES-NOT-COMPILE"; cat "$WT/build.log"; exit 3; fi
rc_mut=$(run_demo mutant)
for f in $DEMOFILES; do mv "$WT/repo/$f" "$WT/repo/$f.away"; done
if [ "${RECONFIRM_SKIP_BASELINE:-0}" = 1 ]; then base=skipped
elif VERIF_REPO="$WT/repo" ./baseline.sh > "$WT/base.log" 2>&1; then base=pass; else base=FAIL; fi
echo "$CID: demo without change rc=$rc_clean (want 0), with change rc=$rc_mut (want != 0), baseline with change: $base"
if [ "$rc_clean" != 0 ] || [ "$rc_mut" = 0 ] || [ "$base" = FAIL ]; then
  echo "RESULT $CID NOT-CONFIRMED"; tail -5 "$WT/demo.clean.log" "$WT/demo.mutant.log" "$WT/base.log" 2>/dev/null; exit 4
fi
fired=""; detail=""
for id in $IDS; do
  out=$(VERIF_REPO="$WT/repo" VERIF_EVIDENCE_DIR="$WT/evidence" ./run.sh "$id" "$TIER" ${RECONFIRM_FLAGS:-} 2>&1); rc=$?
  first=$(echo "$out" | grep -A1 '^VIOLATION' | sed -n 2p | cut -c1-220 | tr '"' "'")
  echo "  $id rc=$rc $first"
  if [ $rc -eq 1 ]; then fired="$fired $id"; detail="$detail$id:$first | "; fi
  if [ $rc -eq 2 ]; then detail="$detail$id:INCONCLUSIVE | "; fi
done
if [ "$TIER" = quick ] && [ -z "${RECONFIRM_FLAGS:-}" ]; then
python3 - "$D/meta.json" "$IDS" "$fired" "$detail" "$(git rev-parse --short HEAD)" "$(git -C /repo rev-parse --short HEAD)" <<'PY'
import json,sys
f,ids,fired,detail,vcommit,head=sys.argv[1:7]
m=json.load(open(f)); ids=ids.split(); fired=fired.split()
old=[x for x in m.get("quick_checks_that_fired",[]) if x not in ids]
m["quick_checks_that_fired"]=sorted(set(old+fired))
m["quick_checks_run"]=sorted(set(m.get("quick_checks_run",[])+ids))
olddet=[d for d in m.get("first_violation_per_check","").split(" | ") if d.strip() and d.split(":")[0].strip() not in ids]
m["first_violation_per_check"]=" | ".join(olddet+[d for d in detail.split(" | ") if d.strip()])+" | "
m["verif_commit"]=vcommit
m.setdefault("confirmed",{})["repo_head"]=head
m["reconfirmed"]=f"selftest/reconfirm.sh at /verif {vcommit}: checks {' '.join(ids)} re-run against the changed copy"
json.dump(m,open(f,"w"),indent=1)
PY
fi
echo "RESULT $CID CONFIRMED fired:$fired"
