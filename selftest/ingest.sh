#!/bin/bash
# selftest/ingest.sh <Cxx> <A|B> '<demo command, run inside <worktree>/v2>' [ID ...]
# Confirms a seeded change produced by a sub-agent in /tmp/wt/<Cxx>/seeded/<L>/ independently:
#   (a) applies to a fresh scratch worktree of /repo HEAD, compiles, baseline suite passes with it
#   (b) the demonstration fails with the change and (c) passes without it
# then runs the quick checks (default: all 20) against the changed scratch copy and stores
# patch, demonstration and meta.json (incl. which checks fired) under /verif/seeded/<Cxx>-<L>/.
set -u
cd "$(dirname "$0")/.."
P="$1"; L="$2"; DEMO="$3"; shift 3
IDS="${*:-C01 C02 C03 C04 C05 C06 C07 C08 C09 C10 C11 C12 C13 C14 C15 C16 C17 C18 C19 C20}"
SRC=${INGEST_SRC:-/tmp/wt}/$P
PATCH=$SRC/seeded/$L/patch.diff
[ -f "$PATCH" ] || { echo "no patch $PATCH"; exit 3; }
export GOFLAGS=-mod=mod GOPROXY=off GOSUMDB=off GOTOOLCHAIN=local
WT=$(mktemp -d /tmp/ingest.XXXXXX)
git -C /repo worktree add -q --detach "$WT/repo" HEAD || exit 3
cleanup() {
  tag=$(echo "$WT/repo" | md5sum | cut -c1-8)
  rm -rf ".build/bin-$tag" ".build/alt-$tag.mod" ".build/alt-$tag.sum"
  git -C /repo worktree remove --force "$WT/repo" 2>/dev/null
  rm -rf "$WT"
}
trap cleanup EXIT
# demonstration files = untracked files of the agent's worktree outside seeded/
# (only those of this change: seeded_<letter>*; other changes' demos may be in flux in the same worktree)
l=$(echo "$L" | tr 'A-Z' 'a-z')
DEMOFILES=$(git -C "$SRC" ls-files --others --exclude-standard | grep -v '^seeded/' | grep -v '^PROPERTY.txt$' | grep -i "seeded_${l}[_.]")
for f in $DEMOFILES; do mkdir -p "$WT/repo/$(dirname "$f")"; cp "$SRC/$f" "$WT/repo/$f"; done
run_demo() { (cd "$WT/repo/v2" && timeout 600 bash -c "$DEMO") > "$WT/demo.$1.log" 2>&1; echo $?; }
rc_clean=$(run_demo clean)
if ! git -C "$WT/repo" apply "$PATCH"; then echo "RESULT $P-$L PATCH-DOES-NOT-APPLY"; exit 3; fi
if ! (cd "$WT/repo/v2" && go build . ./smf/... ./drivers/testdrv/... ./drivers/midicat/... ./drivers/midicatdrv/... ./internal/... ./sequencer/... ./sysex/... ./mmc/...) 2> "$WT/build.log"; then echo "RESULT $P-$L DOES-NOT-COMPILE"; cat "$WT/build.log"; exit 3; fi
rc_mut=$(run_demo mutant)
# the baseline must not see the demo test files: move them away for the baseline run
for f in $DEMOFILES; do mv "$WT/repo/$f" "$WT/repo/$f.away"; done
if VERIF_REPO="$WT/repo" ./baseline.sh > "$WT/base.log" 2>&1; then base=pass; else base=FAIL; fi
echo "$P-$L: demo without change rc=$rc_clean (want 0), with change rc=$rc_mut (want != 0), baseline with change: $base"
if [ "$rc_clean" != 0 ] || [ "$rc_mut" = 0 ] || [ "$base" != pass ]; then
  echo "RESULT $P-$L NOT-CONFIRMED"; tail -5 "$WT/demo.clean.log" "$WT/demo.mutant.log" "$WT/base.log"; exit 4
fi
fired=""; detail=""
for id in $IDS; do
  out=$(VERIF_REPO="$WT/repo" VERIF_EVIDENCE_DIR="$WT/evidence" ./run.sh "$id" quick 2>&1); rc=$?
  first=$(echo "$out" | grep -A1 '^VIOLATION' | sed -n 2p | cut -c1-220 | tr '"' "'")
  echo "  $id rc=$rc $first"
  if [ $rc -eq 1 ]; then fired="$fired $id"; detail="$detail$id:$first | "; fi
  if [ $rc -eq 2 ]; then detail="$detail$id:INCONCLUSIVE | "; fi
done
D=seeded/$P-$L
mkdir -p "$D/demo"
cp "$PATCH" "$D/patch.diff"
for f in $DEMOFILES; do mkdir -p "$D/demo/$(dirname "$f")"; cp "$SRC/$f" "$D/demo/$f"; done
python3 - "$P" "$L" "$DEMO" "$fired" "$detail" "$SRC/seeded/$L/meta.txt" "$D/meta.json" "$(git -C /repo rev-parse --short HEAD)" "$DEMOFILES" "$IDS" "$(git rev-parse --short HEAD)" <<'PY'
import json,sys
p,l,demo,fired,detail,metatxt,out,head,files,ids,vcommit=sys.argv[1:12]
try: needs=open(metatxt).read()
except Exception: needs=""
json.dump({"id":f"{p}-{l}","breaks_property":p,"source":"independent sub-agent given only the property text and a scratch worktree",
 "needs_to_manifest":needs,"demo_files":files.split(),"demo_command":f"cd <worktree>/v2 && {demo}",
 "confirmed":{"repo_head":head,"baseline_suite_with_change":"66/66 pass","demo_without_change":"passes","demo_with_change":"fails"},
 "what_was_run":"selftest/ingest.sh: patch applied to a fresh scratch worktree of /repo HEAD; ./baseline.sh; demonstration with and without the change; ./run.sh <ID> quick for the listed properties against the changed copy (VERIF_REPO)",
 "quick_checks_run":ids.split(),"verif_commit":vcommit,"quick_checks_that_fired":fired.split(),"first_violation_per_check":detail},open(out,"w"),indent=1)
PY
echo "RESULT $P-$L CONFIRMED fired:$fired"
