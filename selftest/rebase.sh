#!/bin/bash
# selftest/rebase.sh <id>...  - rebases stored seeded patches that no longer apply to /repo HEAD (after a fix: commit touched
# the same lines) with `git apply --3way` in a scratch worktree; the original is kept as patch.orig.diff. Patches that
# cannot be merged automatically are reported (CONFLICT) and left alone for a manual rebase.
cd "$(dirname "$0")/.."
for id in "$@"; do
  D=seeded/$id
  WT=$(mktemp -d /tmp/rebase.XXXXXX)
  git -C /repo worktree add -q --detach "$WT/repo" HEAD || exit 3
  if (cd "$WT/repo" && git apply --3way "$OLDPWD/$D/patch.diff" >/dev/null 2>&1) && ! (cd "$WT/repo" && git diff --name-only --diff-filter=U | grep -q .); then
    [ -f $D/patch.orig.diff ] || cp $D/patch.diff $D/patch.orig.diff
    (cd "$WT/repo" && git diff HEAD) > $D/patch.diff
    echo "REBASED $id"
  else
    echo "CONFLICT $id"
  fi
  git -C /repo worktree remove --force "$WT/repo"; rm -rf "$WT"
done
