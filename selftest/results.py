#!/usr/bin/env python3
"""Builds selftest/RESULTS.md from seeded/*/meta.json: which quick checks caught which seeded change."""
import json, glob, os
here = os.path.dirname(os.path.abspath(__file__))
rows = []
for f in sorted(glob.glob(os.path.join(here, "..", "seeded", "*", "meta.json"))):
    m = json.load(open(f))
    needs = " ".join(m.get("needs_to_manifest", "").split())
    rows.append((m["id"], m["breaks_property"], m.get("quick_checks_that_fired", []), needs[:230], m.get("origin", "sub-agent")))
out = ["# Seeded property-breaking changes and the checks that catch them", "",
       "Every change below compiles, passes the 66 pinned tests, comes with a demonstration that fails with it and passes without it",
       "(all confirmed independently by selftest/ingest.sh in a scratch worktree), and was then run against the quick checks.", "",
       "| change | breaks | caught by (quick) | target caught | what it needs to manifest |", "|---|---|---|---|---|"]
missed = []
for id_, prop, fired, needs, origin in rows:
    ok = prop in fired
    if not ok:
        missed.append(id_)
    out.append(f"| {id_} | {prop} | {' '.join(fired) or '-'} | {'yes' if ok else 'NO'} | {needs} |")
out += ["", f"{len(rows)} changes, {len(rows) - len(missed)} caught by the check of the property they were written against" + (f"; not caught by their target check: {', '.join(missed)}" if missed else "") + "."]
open(os.path.join(here, "RESULTS.md"), "w").write("\n".join(out) + "\n")
print("\n".join(out[-1:]))
