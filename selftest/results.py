#!/usr/bin/env python3
"""Builds selftest/RESULTS.md from seeded/*/meta.json: which quick checks caught which seeded change.
Prints a short summary (per wave) that DESIGN.md section 8 quotes."""
import json, glob, os, collections
here = os.path.dirname(os.path.abspath(__file__))

# changes whose target check does not fire in the quick tier, and why (kept here, not in meta.json,
# because ingest.sh rewrites meta.json)
NOTES = {
    "C08-E": "thorough tier only: needs a text meta whose declared length is the top of the 32-bit range; the unchanged library allocates the declared 4 GB per call (C08 'wrapping-text-lengths', confirmed against the change)",
    "C16-F": "thorough tier only: needs one track with more than 2^24 events (C16 'beyond-2^24-events', confirmed against the change)",
    "C14-A": "manifests only on streams outside C14's stated domain (aborted / oversized sysex); caught by C06, which quantifies over all byte streams",
    "C14-C": "manifests only on streams outside C14's stated domain; caught by C06",
    "C06-H": "thorough tier only: needs one sysex with more than 2^32 data bytes (about 20 s of CPU; C06 'sysex-beyond-2^32-bytes', confirmed against the change)",
    "C19-G": "a package-level scratch buffer shared by the Send of two out-ports of the process-backed driver: outside C19's domain (the line format and its reader); caught by C17 (race detector report and torn lines)",
    "C14-I": "manifests only on streams outside C14's stated domain (running-status data bytes directly behind a sysex: not a legal elision); caught by C06, which quantifies over all byte streams",
    "C06-N": "thorough tier only: needs one sysex with more than 2^32 data bytes (same group as C06-H, 'sysex-beyond-2^32-bytes')",
    "C17-N": "the reader of the in-port dies on a line of more than 64 KiB; nothing arrives any more, so the run ends 'inconclusive' (sentinel never observed), never 'held': an asynchronous pipeline gives no proof of loss",
    "C14-P": "manifests only on streams outside C14's stated domain (data bytes without status directly behind a sysex: the sysex has cancelled the running status, so this is no legal elision); caught by C06, which quantifies over all byte streams",
    "C14-R": "the same mechanism as C14-P (a sysex the listener did not ask for no longer cancels the running status): shows only on streams outside C14's stated domain; caught by C06",
    "C04-R": "a single real-time byte that the listener's options filter out swallows the time that had passed (testdrv): the listener of C04 asks for every class, so nothing is filtered there; what a switched-off class may not do to the time stamps of the others is C14's statement, and C14 (l1-filter-timestamp) and C13 (delta) catch it",
    "C14-S": "the same mechanism as C14-P and C14-R (a skipped sysex no longer cancels the running status): shows only on streams outside C14's stated domain; caught by C06",
    "C17-S": "a real-time byte inside a sysex that arrives in one Send is swallowed: a defect of the decoder (C04's statement: real-time bytes inside sysex), not of the port lifecycle; the lifecycle histories send whole messages; caught by C04 (l1-count, pairs)",
    "C03-T": "NOT CAUGHT, by construction: WriteTo writes a track as a copy of an earlier one when event count, byte count and a CRC-32 over the events agree; two different tracks collide with probability 2^-32 (the demonstration's pair came from a birthday search). No workload short of a search for collisions of that particular hash reaches it; a runtime monitor observes executions, it does not invert hash functions",
    "C18-T": "NOT CAUGHT, a needle: manufacturer 41, model 16, one of eight particular addresses (04 00 00 + k*246) and a payload of 1..9 bytes at the same time (about 1e-7 per value even for a generator that knows Roland); the corner values of the three-byte fields do not contain these addresses. A device dictionary would, but would say nothing about the next device",
    "C20-T": "NOT CAUGHT, a blind spot left open: a song imported with FromSMF from a file whose events lie off the 32nd grid keeps a hidden absolute position per event that the changed export prefers to Pos; the C20 songs are built from bars and events (AddBar), imported songs are not driven. Closing it needs an export check on Song objects the check did not build itself (expected layout from the object's exported fields)",
    "C17-F": "detection depends on which helper process dies first: violated (Send fails) in most runs, otherwise inconclusive (probe never observed), never 'held'",
}

rows = []
superseded = []
for f in sorted(glob.glob(os.path.join(here, "..", "seeded", "*", "meta.json"))):
    m = json.load(open(f))
    if m.get("superseded"):
        superseded.append((m["id"], m["superseded"]["by_fix_commit"], m["superseded"]["reason"]))
        continue
    needs = " ".join(m.get("needs_to_manifest", "").split())
    rows.append(dict(id=m["id"], prop=m["breaks_property"], fired=m.get("quick_checks_that_fired", []), run=m.get("quick_checks_run", []),
                     needs=needs[:230], commit=m.get("verif_commit", "?"), detail=m.get("first_violation_per_check", "")))

out = ["# Seeded property-breaking changes and the checks that catch them", "",
       "Every change below compiles, passes the 66 pinned tests, comes with a demonstration that fails with it and passes without it",
       "(all confirmed independently by selftest/ingest.sh in a scratch worktree of /repo HEAD), and was then run against the quick checks",
       "(column 'run': ALL = all 20 quick checks, otherwise the listed ones: the target property's check plus the checks that fired in an earlier full run).", "",
       "Waves: A, B realistic changes; C 'hard'; D-H 'as hard to detect as possible, knowing the defences built so far' (each wave was told the workload dimensions added after the previous ones); I, J, K, L and M, N: agents given nothing but the property text and a worktree, two changes each (I/J: two different mechanisms; K: the violation depends on a sequence or on the surroundings, L: it is confined to a narrow region of the input space that is no format boundary; M: the change sits in a lower layer or a neighbour of the code the property names, N: the violation shows only at scale or after accumulation). The table shows the state after the workload dimensions that the misses prompted were added; 'first pass' in the summary is what the checks caught when a wave was first ingested.", "",
       "| change | breaks | run | caught by (quick) | target caught | what it needs to manifest |", "|---|---|---|---|---|---|"]
missed = []
per_wave = collections.OrderedDict()
for r in rows:
    ok = r["prop"] in r["fired"]
    wave = r["id"].split("-")[1]
    w = per_wave.setdefault(wave, [0, 0, []])
    w[0] += 1
    if ok:
        w[1] += 1
    else:
        w[2].append(r["id"])
        missed.append(r["id"])
    runs = "ALL" if len(r["run"]) >= 20 or not r["run"] else " ".join(r["run"])
    tgt = "yes" if ok else "NO"
    if not ok and r["id"] in NOTES:
        tgt = "no: " + NOTES[r["id"]]
    if "INCONCLUSIVE" in r["detail"] and not ok:
        tgt += " (this run: inconclusive)"
    out.append(f"| {r['id']} | {r['prop']} | {runs} | {' '.join(r['fired']) or '-'} | {tgt} | {r['needs']} |")

# changes that the check of their own property did NOT catch when the wave was first ingested (before the dimension they prompted was added)
FIRST_PASS_MISSES = {
    "G": ["C07-G", "C08-G", "C11-G", "C14-G", "C18-G", "C19-G", "C20-G"],
    "H": ["C01-H", "C02-H", "C03-H", "C04-H", "C05-H", "C06-H", "C09-H", "C10-H", "C12-H", "C13-H", "C16-H", "C17-H"],
    "I": ["C14-I", "C17-I"],
    "J": ["C03-J", "C05-J", "C07-J", "C10-J", "C12-J", "C14-J", "C16-J", "C18-J", "C19-J"],
    "K": ["C05-K", "C07-K", "C08-K", "C10-K", "C17-K"],
    "L": ["C17-L"],
    "M": ["C07-M", "C19-M"],
    "N": ["C01-N", "C02-N", "C05-N", "C06-N", "C08-N", "C09-N", "C10-N", "C11-N", "C12-N", "C13-N", "C14-N", "C17-N", "C18-N", "C19-N", "C20-N"],
    "O": ["C01-O", "C02-O", "C12-O", "C13-O", "C18-O"],
    "P": ["C01-P", "C02-P", "C07-P", "C14-P", "C17-P"],
    "Q": ["C08-Q", "C09-Q", "C14-Q"],
    "R": ["C01-R", "C02-R", "C04-R", "C07-R", "C11-R", "C12-R", "C14-R", "C15-R"],
    "S": ["C02-S", "C07-S", "C14-S", "C15-S", "C17-S"],
    "T": ["C01-T", "C02-T", "C03-T", "C05-T", "C08-T", "C09-T", "C11-T", "C14-T", "C17-T", "C18-T", "C20-T"],
}
summary = ["| wave | changes | caught by the quick check of their own property | not caught by it |", "|---|---|---|---|"]
for wave, (n, okn, miss) in per_wave.items():
    summary.append(f"| {wave} | {n} | {okn} | {', '.join(miss) or '-'} |")
tot = len(rows)
summary.append(f"| all | {tot} | {tot - len(missed)} | {len(missed)} |")
out += ["", "## Summary", ""] + summary + [""]
for k in missed:
    out.append(f"* {k}: {NOTES.get(k, 'NOT EXPLAINED - a blind spot to close')}")
out += ["", "## Changes that a later fix: commit neutralized (kept for the record, not counted above)", ""]
for k, c, why in superseded:
    out.append(f"* {k} (since /repo {c}): {why}")
open(os.path.join(here, "RESULTS.md"), "w").write("\n".join(out) + "\n")
open(os.path.join(here, "RESULTS-summary.md"), "w").write("\n".join(summary) + "\n")
print("\n".join(summary))
for k in missed:
    print("*", k, ":", NOTES.get(k, "NOT EXPLAINED"))
print("neutralized by later fixes (not counted):", ", ".join(k for k, _, _ in superseded))
