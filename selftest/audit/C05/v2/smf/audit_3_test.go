package smf

import (
	"bytes"
	"runtime"
	"testing"
)

// audit 3: ReadHeader (reader.go:116-118) appends one Track value for every track that the header
// declares, before a single byte of track data has been seen. A 14 byte input (nothing but a header
// with ntrks = 0xFFFF) makes ReadFrom allocate about 8 MB (65535 * 24 bytes, times the growth of
// append), and then return ErrMissing. This is the same pattern as the declared length that was
// allocated up front in utils.ReadNBytes (now limited to maxPrealloc = 4096 bytes): a count taken
// from untrusted data is allocated in advance. Input that really carries events costs about
// 270 bytes of allocation per input byte (measured with the densest event stream, two bytes per
// event), so the bound below (1 MiB + 1024 bytes per input byte) is generous.

func audit3Alloc(fn func()) uint64 {
	var a, b runtime.MemStats
	runtime.GC()
	runtime.ReadMemStats(&a)
	fn()
	runtime.ReadMemStats(&b)
	return b.TotalAlloc - a.TotalAlloc
}

func TestAudit3DeclaredTrackCountAllocatedUpFront(t *testing.T) {
	headerOnly := []byte{'M', 'T', 'h', 'd', 0, 0, 0, 6, 0, 1, 0xFF, 0xFF, 0, 96}
	withChunk := append(append([]byte{}, headerOnly...), 'M', 'T', 'r', 'k', 0, 0, 0, 4, 0x00, 0xFF, 0x2F, 0x00)

	// for comparison: the same with 2 declared tracks
	small := []byte{'M', 'T', 'h', 'd', 0, 0, 0, 6, 0, 1, 0, 2, 0, 96}

	for _, in := range [][]byte{small, headerOnly, withChunk} {
		var err error
		in := in
		d := audit3Alloc(func() { _, err = ReadFrom(bytes.NewReader(in)) })
		bound := uint64(1<<20 + 1024*len(in))
		t.Logf("input of %d bytes (ntrks=%d): err=%v, TotalAlloc delta %d bytes = %d bytes per input byte", len(in), int(in[10])<<8|int(in[11]), err, d, d/uint64(len(in)))
		if d > bound {
			t.Errorf("input of %d bytes: ReadFrom allocated %d bytes (bound 1 MiB + 1024 per input byte = %d)", len(in), d, bound)
		}
	}
}
