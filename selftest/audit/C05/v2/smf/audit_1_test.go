package smf

import (
	"bytes"
	"fmt"
	"os"
	"os/exec"
	"strconv"
	"strings"
	"testing"
)

// audit 1: on platforms where int has 32 bits (GOARCH=386, arm, mips, ...) a length prefix of a
// meta or sysex event that is >= 2^31 makes ReadFrom panic (makeslice: len out of range), because
// the uint32 length is converted with int(ln) (reader.go:340, reader.go:363) and the negative value
// passes the "n > maxPrealloc" guard of utils.ReadNBytes (utils.go:147) and reaches make([]byte, n)
// (utils.go:156).
//
// The inputs are 31 bytes long. On a 64 bit platform the test re-runs itself with GOARCH=386
// (the 386 test binary runs on a linux/amd64 kernel); on a 32 bit platform it runs directly.

func audit1Inputs() map[string][]byte {
	head := []byte{'M', 'T', 'h', 'd', 0, 0, 0, 6, 0, 0, 0, 1, 0, 96, 'M', 'T', 'r', 'k', 0, 0, 0, 9}
	// delta 0, meta text, length 8F FF FF FF 7F = 0xFFFFFFFF, one byte of data
	meta := append(append([]byte{}, head...), 0x00, 0xFF, 0x01, 0x8F, 0xFF, 0xFF, 0xFF, 0x7F, 0x41)
	// delta 0, sysex, length 88 80 80 80 00 = 0x80000000, one byte of data
	sysex := append(append([]byte{}, head...), 0x00, 0xF0, 0x88, 0x80, 0x80, 0x80, 0x00, 0x41, 0xF7)
	return map[string][]byte{"meta length 0xFFFFFFFF": meta, "sysex length 0x80000000": sysex}
}

func audit1Read(b []byte) (res string) {
	defer func() {
		if r := recover(); r != nil {
			res = fmt.Sprintf("PANIC: %v", r)
		}
	}()
	s, err := ReadFrom(bytes.NewReader(b))
	return fmt.Sprintf("value=%v err=%v", s != nil, err)
}

func TestAudit1NegativeLengthPanicsOn32Bit(t *testing.T) {
	if strconv.IntSize == 32 {
		for name, b := range audit1Inputs() {
			res := audit1Read(b)
			t.Logf("%s: % X -> %s", name, b, res)
			if strings.HasPrefix(res, "PANIC") {
				t.Errorf("%s: ReadFrom panicked on a %d byte input: %s", name, len(b), res)
			}
		}
		return
	}

	// 64 bit: run the same test as a 386 binary
	cmd := exec.Command("go", "test", "-vet=off", "-count=1", "-run", "^TestAudit1NegativeLengthPanicsOn32Bit$", "-v", ".")
	cmd.Env = append(os.Environ(), "GOARCH=386", "CGO_ENABLED=0")
	out, err := cmd.CombinedOutput()
	t.Logf("GOARCH=386 go test output:\n%s", out)
	if err == nil {
		return
	}
	if bytes.Contains(out, []byte("ReadFrom panicked")) {
		t.Errorf("smf.ReadFrom panics when built for a 32 bit platform (GOARCH=386): see output above")
		return
	}
	t.Skipf("could not build or run a 386 test binary here: %v", err)
}
