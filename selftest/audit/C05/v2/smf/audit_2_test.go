package smf

import (
	"bytes"
	"testing"
)

// audit 2: the length field of the MThd chunk is read and dropped (reader.go:257, chunk.ReadHeader
// returns it, readMThd assigns it to _) and parseHeaderData (reader.go:466) always consumes exactly
// 6 bytes. The SMF 1.0 specification allows a header chunk that is longer than 6 bytes and demands
// that readers honor the length ("it is important to read and honor the length, even if it is
// longer than 6 bytes"). For such a valid file the reader takes the extra header bytes for the next
// chunk. If they happen to look like a track, ReadFrom returns - without error, for the complete
// file and for every prefix that is long enough - a track that is not in the file, and the real
// track is never looked at.

func TestAudit2HeaderLengthIgnoredInventsTrack(t *testing.T) {
	// extension of the header chunk (12 bytes that belong to MThd according to its length field)
	ext := []byte{'M', 'T', 'r', 'k', 0, 0, 0, 4, 0x00, 0xFF, 0x2F, 0x00}

	file := []byte{'M', 'T', 'h', 'd', 0, 0, 0, byte(6 + len(ext)), 0, 0, 0, 1, 0, 96}
	file = append(file, ext...)
	// the one and only track of the file
	trackData := []byte{
		0x00, 0x90, 0x3C, 0x40, // delta 0 note on
		0x60, 0x80, 0x3C, 0x00, // delta 96 note off
		0x00, 0xFF, 0x2F, 0x00, // end of track
	}
	file = append(file, 'M', 'T', 'r', 'k', 0, 0, 0, byte(len(trackData)))
	file = append(file, trackData...)

	original := Track{
		{Delta: 0, Message: Message{0x90, 0x3C, 0x40}},
		{Delta: 0x60, Message: Message{0x80, 0x3C, 0x00}},
		{Delta: 0, Message: Message{0xFF, 0x2F, 0x00}},
	}

	var badCuts []int
	var badTrack Track
	for cut := 0; cut <= len(file); cut++ {
		s, err := ReadFrom(bytes.NewReader(file[:cut]))
		if err != nil {
			continue // an error is fine
		}
		if len(s.Tracks) != 1 {
			t.Errorf("cut %d of %d: %d tracks", cut, len(file), len(s.Tracks))
			continue
		}
		got := s.Tracks[0]
		ok := len(got) <= len(original)
		for i := 0; ok && i < len(got); i++ {
			ok = got[i].Delta == original[i].Delta && bytes.Equal(got[i].Message, original[i].Message)
		}
		if !ok {
			badCuts = append(badCuts, cut)
			badTrack = got
		}
	}
	if len(badCuts) > 0 {
		t.Errorf("file of %d bytes, first n bytes read for n in %v (n = %d is the complete file): no error, and track 0 is not a prefix of the track in the file:\n got          %v\n the file has %v", len(file), badCuts, len(file), badTrack, original)
	}
}
