package smf

// Audit finding 1 (property C12): tempo changes that share a tick are put in an arbitrary
// order by the unstable sort.Sort in (*SMF).finishTempoChanges (smf.go), so an earlier tempo
// event of a tick can override the later one of the same track. Every message behind that
// tick is then scheduled with the wrong tempo and - if the wrong tempo is the faster one -
// sent (long) before its scheduled time.

import (
	"bytes"

	"gitlab.com/gomidi/midi/v2/drivers"
	"sort"
	"sync"
	"testing"
	"time"
)

type audit1Ev struct {
	delta uint32
	msg   []byte // complete event bytes as they stand in the file (no running status)
}

func audit1Vlq(v uint32) []byte {
	out := []byte{byte(v & 0x7F)}
	v >>= 7
	for v > 0 {
		out = append([]byte{byte(v&0x7F) | 0x80}, out...)
		v >>= 7
	}
	return out
}

func audit1Tempo(mpq uint32) []byte {
	return []byte{0xFF, 0x51, 0x03, byte(mpq >> 16), byte(mpq >> 8), byte(mpq)}
}

// audit1File assembles a format 1 file by hand (so that nothing but the reader and the player is involved)
func audit1File(resolution uint16, tracks ...[]audit1Ev) []byte {
	var bf bytes.Buffer
	bf.WriteString("MThd")
	bf.Write([]byte{0, 0, 0, 6, 0, 1, byte(len(tracks) >> 8), byte(len(tracks)), byte(resolution >> 8), byte(resolution)})
	for _, tr := range tracks {
		var body bytes.Buffer
		for _, ev := range tr {
			body.Write(audit1Vlq(ev.delta))
			body.Write(ev.msg)
		}
		body.Write([]byte{0x00, 0xFF, 0x2F, 0x00})
		bf.WriteString("MTrk")
		l := body.Len()
		bf.Write([]byte{byte(l >> 24), byte(l >> 16), byte(l >> 8), byte(l)})
		bf.Write(body.Bytes())
	}
	return bf.Bytes()
}

type audit1Sent struct {
	at   time.Duration
	data []byte
}

type audit1Out struct {
	mx    sync.Mutex
	start *time.Time
	sent  []audit1Sent
}

func (o *audit1Out) Open() error             { return nil }
func (o *audit1Out) Close() error            { return nil }
func (o *audit1Out) IsOpen() bool            { return true }
func (o *audit1Out) Number() int             { return 0 }
func (o *audit1Out) String() string          { return "audit1" }
func (o *audit1Out) Underlying() interface{} { return nil }
func (o *audit1Out) Send(b []byte) error {
	at := time.Since(*o.start)
	o.mx.Lock()
	o.sent = append(o.sent, audit1Sent{at, append([]byte(nil), b...)})
	o.mx.Unlock()
	return nil
}

// audit1Schedule is an independent oracle: the exact time (in nanoseconds) of every tick of interest,
// computed with the SMF rules: a tempo event is in force from its tick on, of several tempo events
// on one tick the last one (in file order) counts.
func audit1Schedule(resolution uint16, tracks [][]audit1Ev) func(tick int64) float64 {
	type tch struct {
		tick     int64
		trk, idx int
		mpq      int64
	}
	var tcs []tch
	for tn, tr := range tracks {
		var abs int64
		for i, ev := range tr {
			abs += int64(ev.delta)
			if len(ev.msg) == 6 && ev.msg[0] == 0xFF && ev.msg[1] == 0x51 {
				tcs = append(tcs, tch{abs, tn, i, int64(ev.msg[3])<<16 | int64(ev.msg[4])<<8 | int64(ev.msg[5])})
			}
		}
	}
	sort.SliceStable(tcs, func(a, b int) bool {
		if tcs[a].tick != tcs[b].tick {
			return tcs[a].tick < tcs[b].tick
		}
		if tcs[a].trk != tcs[b].trk {
			return tcs[a].trk < tcs[b].trk
		}
		return tcs[a].idx < tcs[b].idx
	})
	return func(tick int64) float64 {
		var ns float64
		var last int64
		mpq := int64(500000)
		for _, tc := range tcs {
			if tc.tick >= tick {
				break
			}
			ns += float64((tc.tick-last)*mpq) * 1000 / float64(resolution)
			last = tc.tick
			mpq = tc.mpq
		}
		// tempo events on the tick itself do not matter for the time of the tick, but the loop above
		// stops at the first of them; the ones before are all consumed
		ns += float64((tick-last)*mpq) * 1000 / float64(resolution)
		return ns
	}
}

func audit1Play(t *testing.T, res uint16, tracks [][]audit1Ev) (o0, o1 *audit1Out) {
	rd := ReadTracksFrom(bytes.NewReader(audit1File(res, tracks...)))
	if rd.Error() != nil {
		t.Fatal(rd.Error())
	}
	var start time.Time
	o0, o1 = &audit1Out{start: &start}, &audit1Out{start: &start}
	start = time.Now()
	if err := rd.MultiPlay(map[int]drivers.Out{0: o0, 1: o1}); err != nil {
		t.Fatal(err)
	}
	return
}

func TestAudit1TempoChangesOnOneTickAreReordered(t *testing.T) {
	const res = 960
	fast := audit1Tempo(10000)    // 6000 BPM
	slow := audit1Tempo(1000000)  // 60 BPM
	normal := audit1Tempo(500000) // 120 BPM

	// track 0 (the tempo track): at tick 0 first 6000 BPM and then - same tick, later in the file - 60 BPM,
	// a note at tick 0, four more tempo events far behind the region that is played
	tr0 := []audit1Ev{
		{0, fast},
		{0, slow}, // <- this one is in force from tick 0 on
		{0, []byte{0x90, 60, 100}},
		{9600, normal}, {28800, normal}, {28800, normal}, {9600, normal},
	}
	// track 1: a note at tick 480 and seven tempo events, all of them far behind the note
	tr1 := []audit1Ev{
		{480, []byte{0x91, 61, 100}},
		{28420, slow}, {9700, slow}, {19300, slow}, {9700, slow}, {9700, slow}, {19300, slow}, {19300, slow},
	}
	tracks := [][]audit1Ev{tr0, tr1}
	sched := audit1Schedule(res, tracks)

	// scheduled: 480 ticks = half a quarter note at 60 BPM = 500ms
	if got := sched(480); got != 500e6 {
		t.Fatalf("oracle is wrong: %v", got)
	}

	// control: the same file without the tempo events of track 1 (less than 13 tempo events, already in order):
	// the note of track 1 is on time
	_, c1 := audit1Play(t, res, [][]audit1Ev{tr0, tr1[:1]})
	if len(c1.sent) != 1 || c1.sent[0].at < 500*time.Millisecond {
		t.Fatalf("control: unexpected %v", c1.sent)
	}
	t.Logf("control (no tempo events in track 1): note of track 1 scheduled at 500ms, sent at %v", c1.sent[0].at)

	o0, o1 := audit1Play(t, res, tracks)
	if len(o0.sent) != 1 || len(o1.sent) != 1 {
		t.Fatalf("expected one message per port, got %d and %d", len(o0.sent), len(o1.sent))
	}
	want := time.Duration(sched(480))
	got := o1.sent[0].at
	t.Logf("note of track 1 (tick 480): scheduled at %v, sent at %v", want, got)
	if got < want {
		t.Errorf("message % X of track 1 was sent %v after the start of the playback, that is %v BEFORE its scheduled time %v "+
			"(the 6000 BPM tempo event of tick 0 overrode the 60 BPM tempo event that follows it on the same tick in the same track)",
			o1.sent[0].data, got, want-got, want)
	}
}
