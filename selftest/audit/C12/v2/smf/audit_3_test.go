package smf

// Audit finding 3 (property C12): the absolute time of every tempo change is cut down to whole microseconds
// ((*SMF).calculateAbsTimes, smf.go: prevTime + mt.duration(...).Microseconds()), and the next one is computed
// on top of the cut value. Every tempo change therefore moves all later messages up to one microsecond
// towards the start; the error accumulates without bound over the tempo changes of a file, while the
// sleep-then-send pacing only guarantees "not before the time the library computed".

import (
	"bytes"
	"sync"
	"testing"
	"time"

	"gitlab.com/gomidi/midi/v2/drivers"
)

type audit3Ev struct {
	delta uint32
	msg   []byte // complete event bytes as they stand in the file (no running status)
}

func audit3Vlq(v uint32) []byte {
	out := []byte{byte(v & 0x7F)}
	v >>= 7
	for v > 0 {
		out = append([]byte{byte(v&0x7F) | 0x80}, out...)
		v >>= 7
	}
	return out
}

// audit3File assembles a format 1 file by hand (so that nothing but the reader and the player is involved)
func audit3File(resolution uint16, tracks ...[]audit3Ev) []byte {
	var bf bytes.Buffer
	bf.WriteString("MThd")
	bf.Write([]byte{0, 0, 0, 6, 0, 1, byte(len(tracks) >> 8), byte(len(tracks)), byte(resolution >> 8), byte(resolution)})
	for _, tr := range tracks {
		var body bytes.Buffer
		for _, ev := range tr {
			body.Write(audit3Vlq(ev.delta))
			body.Write(ev.msg)
		}
		body.Write([]byte{0x00, 0xFF, 0x2F, 0x00})
		bf.WriteString("MTrk")
		l := body.Len()
		bf.Write([]byte{byte(l >> 24), byte(l >> 16), byte(l >> 8), byte(l)})
		bf.Write(body.Bytes())
	}
	return bf.Bytes()
}

type audit3Out struct {
	mx    sync.Mutex
	start *time.Time
	at    []time.Duration
	data  [][]byte
}

func (o *audit3Out) Open() error             { return nil }
func (o *audit3Out) Close() error            { return nil }
func (o *audit3Out) IsOpen() bool            { return true }
func (o *audit3Out) Number() int             { return 0 }
func (o *audit3Out) String() string          { return "audit3" }
func (o *audit3Out) Underlying() interface{} { return nil }
func (o *audit3Out) Send(b []byte) error {
	at := time.Since(*o.start)
	o.mx.Lock()
	o.at = append(o.at, at)
	o.data = append(o.data, append([]byte(nil), b...))
	o.mx.Unlock()
	return nil
}

func TestAudit3TempoChangeTimesAreTruncated(t *testing.T) {
	const (
		res = 1000  // ticks per quarter note
		mpq = 1999  // microseconds per quarter note => one tick lasts 1.999 microseconds
		n   = 20000 // number of ticks / tempo events
	)
	tempo := []byte{0xFF, 0x51, 0x03, byte(mpq >> 16), byte(mpq >> 8 & 0xFF), byte(mpq & 0xFF)}

	// track 0: the tempo track: the same tempo set again on every tick (a tempo "ramp" that happens to be flat,
	// to keep the oracle trivial)
	tr0 := []audit3Ev{{0, tempo}}
	for i := 0; i < n; i++ {
		tr0 = append(tr0, audit3Ev{1, tempo})
	}
	// track 1: a note at tick 0 and a note at tick n
	tr1 := []audit3Ev{{0, []byte{0x91, 60, 100}}, {n, []byte{0x81, 60, 0}}}

	// the tempo never changes its value: tick n is scheduled exactly n*mpq/res microseconds after the start
	want := time.Duration(n*mpq*1000/res) * time.Nanosecond // 39.98ms

	// only track 1 is selected (the tempo events of track 0 are in force nevertheless) and mapped to a port
	rd := ReadTracksFrom(bytes.NewReader(audit3File(res, tr0, tr1)), 1)
	if rd.Error() != nil {
		t.Fatal(rd.Error())
	}
	var start time.Time
	o := &audit3Out{start: &start}
	start = time.Now()
	if err := rd.MultiPlay(map[int]drivers.Out{1: o}); err != nil {
		t.Fatal(err)
	}
	if len(o.at) != 2 {
		t.Fatalf("expected 2 messages, got %d", len(o.at))
	}
	t.Logf("message % X (tick %d): scheduled at %v, sent at %v", o.data[1], n, want, o.at[1])
	if o.at[1] < want {
		t.Errorf("message % X of track 1 was sent %v after the start of the playback, that is %v BEFORE its scheduled time %v",
			o.data[1], o.at[1], want-o.at[1], want)
	}
}
