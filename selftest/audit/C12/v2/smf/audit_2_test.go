package smf

// Audit finding 2 (property C12): a time that cannot be represented becomes hugely NEGATIVE.
//
// MetricTicks.duration (timeformat.go) converts a float64 to int64 without a range check. The float64 is
//   - +Inf or NaN, when the tempo is 0 BPM: that is what the reader records for a tempo meta event whose
//     data is shorter than three bytes (reader.go: the return value of GetMetaTempo is ignored), and
//   - larger than MaxInt64 nanoseconds for very slow and very long (but perfectly valid) files.
// On amd64 the conversion yields MinInt64. SMF.TimeAt therefore reports about -9.2e12 microseconds for every
// tick behind that point, the stable sort of MultiPlay moves these messages in front of all other ones, they
// are sent at once (negative sleep) and after them the player sleeps for 292 years.

import (
	"bytes"
	"fmt"
	"strings"
	"sync"
	"testing"
	"time"

	"gitlab.com/gomidi/midi/v2/drivers"
)

type audit2Ev struct {
	delta uint32
	msg   []byte // complete event bytes as they stand in the file (no running status)
}

func audit2Vlq(v uint32) []byte {
	out := []byte{byte(v & 0x7F)}
	v >>= 7
	for v > 0 {
		out = append([]byte{byte(v&0x7F) | 0x80}, out...)
		v >>= 7
	}
	return out
}

// audit2File assembles a format 1 file by hand (so that nothing but the reader and the player is involved)
func audit2File(resolution uint16, tracks ...[]audit2Ev) []byte {
	var bf bytes.Buffer
	bf.WriteString("MThd")
	bf.Write([]byte{0, 0, 0, 6, 0, 1, byte(len(tracks) >> 8), byte(len(tracks)), byte(resolution >> 8), byte(resolution)})
	for _, tr := range tracks {
		var body bytes.Buffer
		for _, ev := range tr {
			body.Write(audit2Vlq(ev.delta))
			body.Write(ev.msg)
		}
		body.Write([]byte{0x00, 0xFF, 0x2F, 0x00})
		bf.WriteString("MTrk")
		l := body.Len()
		bf.Write([]byte{byte(l >> 24), byte(l >> 16), byte(l >> 8), byte(l)})
		bf.Write(body.Bytes())
	}
	return bf.Bytes()
}

// audit2Rec records the global order of the Send calls of all ports
type audit2Rec struct {
	mx    sync.Mutex
	start time.Time
	sent  []string // "<port>:<bytes>"
	at    []time.Duration
}

type audit2Out struct {
	name string
	rec  *audit2Rec
}

func (o *audit2Out) Open() error             { return nil }
func (o *audit2Out) Close() error            { return nil }
func (o *audit2Out) IsOpen() bool            { return true }
func (o *audit2Out) Number() int             { return 0 }
func (o *audit2Out) String() string          { return o.name }
func (o *audit2Out) Underlying() interface{} { return nil }
func (o *audit2Out) Send(b []byte) error {
	at := time.Since(o.rec.start)
	o.rec.mx.Lock()
	o.rec.sent = append(o.rec.sent, fmt.Sprintf("%s:% X", o.name, b))
	o.rec.at = append(o.rec.at, at)
	o.rec.mx.Unlock()
	return nil
}

// audit2Play plays the file (track 0 -> port A, track 1 -> port B) and returns what has been sent
// until the playback ended or the given time has passed
func audit2Play(t *testing.T, file []byte, wait time.Duration) (sent []string, at []time.Duration, finished bool) {
	rd := ReadTracksFrom(bytes.NewReader(file))
	if rd.Error() != nil {
		t.Fatal(rd.Error())
	}
	rec := &audit2Rec{}
	a, b := &audit2Out{"A", rec}, &audit2Out{"B", rec}
	rec.start = time.Now()
	done := make(chan error, 1)
	go func() { done <- rd.MultiPlay(map[int]drivers.Out{0: a, 1: b}) }()
	select {
	case err := <-done:
		if err != nil {
			t.Fatal(err)
		}
		finished = true
	case <-time.After(wait):
	}
	rec.mx.Lock()
	sent = append(sent, rec.sent...)
	at = append(at, rec.at...)
	rec.mx.Unlock()
	return
}

func audit2Check(t *testing.T, sent []string, at []time.Duration, finished bool, wantA, wantB []string) {
	t.Helper()
	for i := range sent {
		t.Logf("  sent %-12s %v after start", sent[i], at[i])
	}
	if !finished {
		t.Errorf("the playback has not ended (the player sleeps for MaxInt64 nanoseconds)")
	}
	var gotA, gotB []string
	for _, s := range sent {
		if strings.HasPrefix(s, "A:") {
			gotA = append(gotA, s)
		} else {
			gotB = append(gotB, s)
		}
	}
	if fmt.Sprint(gotA) != fmt.Sprint(wantA) {
		t.Errorf("track 0 / port A: messages were not sent once each in file order:\n got  %v\n want %v", gotA, wantA)
	}
	if fmt.Sprint(gotB) != fmt.Sprint(wantB) {
		t.Errorf("track 1 / port B: messages were not sent once each in file order:\n got  %v\n want %v", gotB, wantB)
	}
}

// a tempo meta event with a data length other than 3 (here 2 and 0) is accepted by the reader;
// behind it the messages of ALL tracks get a negative time
func TestAudit2TempoEventWithShortData(t *testing.T) {
	for _, bad := range [][]byte{{0xFF, 0x51, 0x02, 0x07, 0xA1}, {0xFF, 0x51, 0x00}} {
		t.Logf("tempo event % X", bad)
		tr0 := []audit2Ev{
			{0, []byte{0xFF, 0x51, 0x03, 0x07, 0xA1, 0x20}}, // 120 BPM
			{0, []byte{0x90, 60, 100}},                      // tick 0
			{96, []byte{0x90, 61, 100}},                     // tick 96
			{96, bad},                                       // tick 192
			{96, []byte{0x90, 62, 100}},                     // tick 288
			{96, []byte{0x90, 63, 100}},                     // tick 384
		}
		tr1 := []audit2Ev{
			{0, []byte{0x91, 60, 100}},   // tick 0
			{96, []byte{0x91, 61, 100}},  // tick 96
			{192, []byte{0x91, 62, 100}}, // tick 288
			{96, []byte{0x91, 63, 100}},  // tick 384
		}
		// at 120 BPM and 960 ticks per quarter note the whole file lasts 200ms
		sent, at, finished := audit2Play(t, audit2File(960, tr0, tr1), 2*time.Second)
		audit2Check(t, sent, at, finished,
			[]string{"A:90 3C 64", "A:90 3D 64", "A:90 3E 64", "A:90 3F 64"},
			[]string{"B:91 3C 64", "B:91 3D 64", "B:91 3E 64", "B:91 3F 64"},
		)
	}
}

// a completely valid file: one tick per quarter note, 0xFFFFFF microseconds per quarter note,
// three deltas of 0x0FFFFFFF ticks (the largest delta of the SMF specification): the third message is
// scheduled 1.35e19 nanoseconds after the start, which is more than MaxInt64. It is sent FIRST, at once.
func TestAudit2TimeBeyondMaxInt64(t *testing.T) {
	tr0 := []audit2Ev{
		{0, []byte{0xFF, 0x51, 0x03, 0xFF, 0xFF, 0xFF}},
		{0, []byte{0x90, 60, 100}},
	}
	tr1 := []audit2Ev{
		{0, []byte{0x91, 60, 100}},
		{0x0FFFFFFF, []byte{0x91, 61, 100}},
		{0x0FFFFFFF, []byte{0x91, 62, 100}},
		{0x0FFFFFFF, []byte{0x91, 63, 100}},
	}
	sent, at, _ := audit2Play(t, audit2File(1, tr0, tr1), time.Second)
	for i := range sent {
		t.Logf("  sent %-12s %v after start", sent[i], at[i])
	}
	// within the first second nothing but the messages of tick 0 may leave (the next one is due after 142 years)
	if len(sent) == 0 || sent[0] != "A:90 3C 64" {
		t.Errorf("first message sent is %v, want A:90 3C 64 (tick 0 of track 0)", sent)
	}
	for _, s := range sent {
		if s == "B:91 3F 64" {
			t.Errorf("the last message of track 1 (scheduled 1.35e10 seconds after the start) was sent within the first second and before the messages that precede it in its track")
		}
	}
}
