package midicatdrv

// Shared support for the audit demonstrations (audit_N_test.go) in this package.
//
// Stand-in for the external `midicat` program: the package runs `midicat version -s` in its init()
// and panics when the program is missing. The package-level variable below is initialised before
// that init() runs: it symlinks the test binary as `midicat` into a temporary directory, puts that
// directory first in PATH, and, when the binary is started under the name `midicat`, plays the
// helper and exits.
//
// Loopback transport of the stand-in: `midicat in --index=N` listens on the unix socket
// $AUDIT_MIDICAT_DIR/in-N.sock and prints every line it receives on stdout, in the order of arrival;
// `midicat out --index=N` reads lines "<ts> <HEX>\n" from stdin and forwards each of them over a
// fresh connection to that socket (the line is dropped when no in-helper listens). Nothing is ever
// duplicated or reordered by the stand-in.

import (
	"bufio"
	"fmt"
	"io"
	"net"
	"os"
	"path/filepath"
	"strconv"
	"strings"
	"sync"
	"testing"
	"time"

	"gitlab.com/gomidi/midi/v2/drivers"
)

var auditStandInDir = auditSetupStandIn()

func auditSetupStandIn() string {
	if filepath.Base(os.Args[0]) == "midicat" {
		auditPlayMidicat(os.Args[1:])
		os.Exit(0)
	}
	dir, err := os.MkdirTemp("", "auditmidicat")
	if err != nil {
		panic(err)
	}
	exe, err := os.Executable()
	if err != nil {
		panic(err)
	}
	if err = os.Symlink(exe, filepath.Join(dir, "midicat")); err != nil {
		panic(err)
	}
	os.Setenv("AUDIT_MIDICAT_DIR", dir)
	os.Setenv("PATH", dir+string(os.PathListSeparator)+os.Getenv("PATH"))
	return dir
}

func TestMain(m *testing.M) {
	code := m.Run()
	os.RemoveAll(auditStandInDir)
	os.Exit(code)
}

func auditPlayMidicat(args []string) {
	dir := os.Getenv("AUDIT_MIDICAT_DIR")
	if len(args) == 0 {
		os.Exit(2)
	}
	// do not outlive the test process
	go func(parent int) {
		for {
			time.Sleep(300 * time.Millisecond)
			if os.Getppid() != parent {
				os.Exit(0)
			}
		}
	}(os.Getppid())
	index := "0"
	for _, a := range args[1:] {
		if strings.HasPrefix(a, "--index=") {
			index = strings.TrimPrefix(a, "--index=")
		}
	}
	sock := filepath.Join(dir, "in-"+index+".sock")
	switch args[0] {
	case "version":
		fmt.Print("0.6.8")
	case "ins", "outs":
		fmt.Print(`{"0":"loop"}`)
	case "out":
		rd := bufio.NewReader(os.Stdin)
		for {
			line, err := rd.ReadString('\n')
			if strings.HasSuffix(line, "\n") {
				if c, derr := net.Dial("unix", sock); derr == nil {
					io.WriteString(c, line)
					c.Close()
				}
			}
			if err != nil {
				return
			}
		}
	case "in":
		os.Remove(sock)
		l, err := net.Listen("unix", sock)
		if err != nil {
			os.Exit(3)
		}
		for {
			c, err := l.Accept()
			if err != nil {
				return
			}
			b, _ := io.ReadAll(c)
			c.Close()
			os.Stdout.Write(b)
		}
	default:
		os.Exit(2)
	}
}

// auditRec records what a listener receives.
type auditRec struct {
	sync.Mutex
	got []string
}

func (r *auditRec) cb(b []byte, ms int32) {
	r.Lock()
	r.got = append(r.got, fmt.Sprintf("%X", b))
	r.Unlock()
}

func (r *auditRec) n() int {
	r.Lock()
	defer r.Unlock()
	return len(r.got)
}

func (r *auditRec) count(hex string) (n int) {
	r.Lock()
	defer r.Unlock()
	for _, g := range r.got {
		if g == hex {
			n++
		}
	}
	return n
}

// auditPorts returns the port pair "loop" of a fresh driver.
func auditPorts(t *testing.T) (drivers.In, drivers.Out, *Driver) {
	t.Helper()
	drv, err := New()
	if err != nil {
		t.Fatal(err)
	}
	ins, err := drv.Ins()
	if err != nil {
		t.Fatal(err)
	}
	outs, err := drv.Outs()
	if err != nil {
		t.Fatal(err)
	}
	return ins[0], outs[0], drv
}

// auditWaitLoop sends probes (realtime start, FA) until one of them has passed through both
// helper processes, then lets the remaining probes drain: afterwards the loop is up and empty.
func auditWaitLoop(t *testing.T, out drivers.Out, r *auditRec) {
	t.Helper()
	base := r.n()
	dead := time.Now().Add(20 * time.Second)
	for r.n() == base {
		if time.Now().After(dead) {
			t.Fatal("the loopback through the stand-in helpers did not come up")
		}
		if err := out.Send([]byte{0xFA}); err != nil {
			t.Fatal(err)
		}
		time.Sleep(20 * time.Millisecond)
	}
	for {
		n := r.n()
		time.Sleep(150 * time.Millisecond)
		if r.n() == n {
			return
		}
	}
}

// auditZombieChildren counts the terminated, not reaped children of this process.
func auditZombieChildren() (n int) {
	ents, _ := os.ReadDir("/proc")
	me := strconv.Itoa(os.Getpid())
	for _, e := range ents {
		b, err := os.ReadFile("/proc/" + e.Name() + "/stat")
		if err != nil {
			continue
		}
		s := string(b)
		f := strings.Fields(s[strings.LastIndex(s, ")")+1:])
		if len(f) > 2 && f[0] == "Z" && f[1] == me {
			n++
		}
	}
	return n
}
