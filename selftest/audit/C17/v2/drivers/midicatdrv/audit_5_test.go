package midicatdrv

import (
	"testing"
	"time"

	"gitlab.com/gomidi/midi/v2/drivers"
)

// History: open in, open out, listen A, stop A, listen B, stop A (the same stop function a second
// time), send M. C17: M is sent while the output is open and listener B is active (B was never
// stopped), so it reaches B exactly once. The stop function is not bound to its listener: it asks
// the control goroutine to remove whatever listener the port has now (in.go:168-174, 88-92).
func TestAudit5SecondCallOfAStopFunctionSilencesTheNextListener(t *testing.T) {
	in, out, drv := auditPorts(t)
	defer drv.Close()
	if err := in.Open(); err != nil {
		t.Fatal(err)
	}
	if err := out.Open(); err != nil {
		t.Fatal(err)
	}
	var a, b auditRec
	stopA, err := in.Listen(a.cb, drivers.ListenConfig{})
	if err != nil {
		t.Fatal(err)
	}
	auditWaitLoop(t, out, &a)
	stopA()
	stopB, err := in.Listen(b.cb, drivers.ListenConfig{})
	if err != nil {
		t.Fatal(err)
	}
	stopA() // has already returned once: listener A is gone, this call has nothing left to stop
	if err := out.Send([]byte{0x90, 2, 2}); err != nil {
		t.Fatal(err)
	}
	dead := time.Now().Add(3 * time.Second)
	for b.count("900202") == 0 && time.Now().Before(dead) {
		time.Sleep(10 * time.Millisecond)
	}
	if c := b.count("900202"); c != 1 {
		t.Errorf("listener B is active (its stop function was never called) and the out port is open, but the message 90 02 02 was delivered %d times to it", c)
	}
	stopB()
}
