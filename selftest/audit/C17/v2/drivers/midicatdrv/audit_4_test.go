package midicatdrv

import (
	"bytes"
	"fmt"
	"os"
	"os/exec"
	"runtime"
	"strings"
	"syscall"
	"testing"
	"time"

	"gitlab.com/gomidi/midi/v2/drivers"
)

// in.Close() kills the helper process of the in port (in.go:81) but nobody ever waits for it
// (the out port does: out.go:49-52). Every open/close cycle of an in port therefore leaves a
// zombie behind that keeps its process id until the program ends.

// History: [open in, listen, stop, close in]*: the number of terminated, never reaped helper
// processes grows by one per cycle.
func TestAudit4ClosedInPortsLeaveZombies(t *testing.T) {
	if runtime.GOOS != "linux" {
		t.Skip("reads /proc")
	}
	in, _, drv := auditPorts(t)
	defer drv.Close()
	before := auditZombieChildren()
	const cycles = 25
	for i := 0; i < cycles; i++ {
		auditInCycle(t, in, i)
	}
	time.Sleep(500 * time.Millisecond)
	if z := auditZombieChildren() - before; z != 0 {
		t.Errorf("%d open/listen/stop/close cycles of the in port left %d zombie processes behind", cycles, z)
	}
}

func auditInCycle(t *testing.T, in drivers.In, i int) {
	if err := in.Open(); err != nil {
		t.Fatalf("cycle %d: in.Open: %v", i, err)
	}
	stop, err := in.Listen(func([]byte, int32) {}, drivers.ListenConfig{})
	if err != nil {
		t.Fatalf("cycle %d: in.Listen: %v", i, err)
	}
	stop()
	if err := in.Close(); err != nil {
		t.Fatalf("cycle %d: in.Close: %v", i, err)
	}
}

// The same history, long enough: C17 requires that after stop (and close) "listening again
// afterwards works", for every protocol-respecting history. Once the zombies have used up the
// process ids, in.Open fails for good. To show this without disturbing the machine, the history
// runs in a child process inside a fresh PID namespace whose pid_max is lowered to 400
// (Linux >= 6.14, root); without that possibility the test is skipped. With reaped helpers
// the 2000 cycles pass, because the ids are recycled.
func TestAudit4ListeningAgainFailsOnceZombiesUsedUpThePids(t *testing.T) {
	if runtime.GOOS != "linux" {
		t.Skip("needs Linux PID namespaces")
	}
	cmd := exec.Command(os.Args[0], "-test.run=^TestAudit4Inner$", "-test.v", "-test.count=1")
	cmd.Env = append(os.Environ(), "AUDIT4_INNER=1")
	cmd.SysProcAttr = &syscall.SysProcAttr{Cloneflags: syscall.CLONE_NEWPID | syscall.CLONE_NEWNS}
	var bf bytes.Buffer
	cmd.Stdout = &bf
	cmd.Stderr = &bf
	if err := cmd.Start(); err != nil {
		t.Skipf("can't start a child in a new PID namespace: %v", err)
	}
	done := make(chan error, 1)
	go func() { done <- cmd.Wait() }()
	select {
	case <-done:
	case <-time.After(100 * time.Second):
		cmd.Process.Kill()
		<-done
		t.Fatalf("child did not finish:\n%s", bf.String())
	}
	outp := bf.String()
	switch {
	case strings.Contains(outp, "AUDIT4-SKIP"):
		t.Skipf("no private pid_max available:\n%s", outp)
	case strings.Contains(outp, "AUDIT4-FAIL"), strings.Contains(outp, "failed to create new OS thread"):
		for _, l := range strings.Split(outp, "\n") {
			if strings.Contains(l, "AUDIT4-CONTROL") {
				t.Log(strings.TrimSpace(l))
			} else if strings.Contains(l, "AUDIT4") || strings.Contains(l, "failed to create") {
				t.Error(strings.TrimSpace(l))
			}
		}
	case strings.Contains(outp, "AUDIT4-OK"):
		t.Log("all cycles passed")
	default:
		t.Fatalf("unexpected output of the child:\n%s", outp)
	}
}

func TestAudit4Inner(t *testing.T) {
	if os.Getenv("AUDIT4_INNER") == "" {
		t.Skip("only runs as child of TestAudit4ListeningAgainFailsOnceZombiesUsedUpThePids")
	}
	// a private /proc of the new PID namespace, and a small private pid_max
	if err := syscall.Mount("", "/", "", syscall.MS_REC|syscall.MS_PRIVATE, ""); err != nil {
		fmt.Println("AUDIT4-SKIP: make / private:", err)
		return
	}
	if err := syscall.Mount("proc", "/proc", "proc", 0, ""); err != nil {
		fmt.Println("AUDIT4-SKIP: mount /proc:", err)
		return
	}
	if os.Getpid() != 1 {
		fmt.Println("AUDIT4-SKIP: not in a new PID namespace")
		return
	}
	if err := os.WriteFile("/proc/sys/kernel/pid_max", []byte("400\n"), 0644); err != nil {
		fmt.Println("AUDIT4-SKIP: set pid_max:", err)
		return
	}
	b, _ := os.ReadFile("/proc/sys/kernel/pid_max")
	if strings.TrimSpace(string(b)) != "400" {
		fmt.Println("AUDIT4-SKIP: pid_max is", string(b))
		return
	}
	in, out, _ := auditPorts(t)
	// control: the helpers of the out port are reaped, far more cycles than pids pass
	for i := 0; i < 1000; i++ {
		if err := out.Open(); err != nil {
			fmt.Printf("AUDIT4-SKIP: control cycle %d: out.Open: %v\n", i, err)
			return
		}
		out.Close()
	}
	fmt.Println("AUDIT4-CONTROL: 1000 open/close cycles of the out port passed with pid_max 400")
	for i := 0; i < 2000; i++ {
		if err := in.Open(); err != nil {
			fmt.Printf("AUDIT4-FAIL: cycle %d of open in/listen/stop/close in (pid_max 400, %d zombie children): in.Open: %v\n", i, auditZombieChildren(), err)
			return
		}
		stop, err := in.Listen(func([]byte, int32) {}, drivers.ListenConfig{})
		if err != nil {
			fmt.Printf("AUDIT4-FAIL: cycle %d: in.Listen: %v\n", i, err)
			return
		}
		stop()
		in.Close()
	}
	fmt.Println("AUDIT4-OK")
}
