package midicatdrv

import (
	"os"
	"runtime"
	"strconv"
	"syscall"
	"testing"
	"time"
	"unsafe"
)

// auditPinToOneCPU confines all threads of this process (and the threads created later, which
// inherit the mask) to one CPU: the schedule of a one-CPU machine / a container with one CPU.
func auditPinToOneCPU() error {
	var mask [128]byte
	mask[0] = 1
	ents, err := os.ReadDir("/proc/self/task")
	if err != nil {
		return err
	}
	for _, e := range ents {
		tid, _ := strconv.Atoi(e.Name())
		_, _, errno := syscall.RawSyscall(syscall.SYS_SCHED_SETAFFINITY, uintptr(tid), uintptr(len(mask)), uintptr(unsafe.Pointer(&mask[0])))
		if errno != 0 {
			return errno
		}
	}
	return nil
}

// History: [open out, close out]* from one goroutine, nothing else.
// C17: close is idempotent and a plain open/close history reports no failure (port.go:20-22).
// out.Close() closes the stdin of the helper and then kills it (out.go:108-109). When the helper
// notices the end of its stdin, exits and is reaped by the goroutine of out.go:49-52 before the
// Kill call is reached, Kill returns os.ErrProcessDone and Close reports "os: process already
// finished" for a perfectly regular close. It depends on the schedule; on one CPU (the woken
// goroutines preempt the closing one) it happens about once in 200 closes.
func TestAudit3CloseOutReportsErrorForRegularClose(t *testing.T) {
	if runtime.GOOS != "linux" {
		t.Skip("uses sched_setaffinity")
	}
	_, out, drv := auditPorts(t)
	defer drv.Close()
	if err := auditPinToOneCPU(); err != nil {
		t.Logf("could not pin to one CPU (%v), going on unpinned", err)
	}
	start := time.Now()
	cycles, failures := 0, 0
	for time.Since(start) < 60*time.Second && failures < 3 {
		cycles++
		if err := out.Open(); err != nil {
			t.Fatalf("cycle %d: Open: %v", cycles, err)
		}
		time.Sleep(5 * time.Millisecond) // let the helper come up and block on its stdin
		if err := out.Close(); err != nil {
			failures++
			t.Errorf("cycle %d: out.Close() of an open port, called once: %v", cycles, err)
		}
		if out.IsOpen() {
			t.Fatalf("cycle %d: still open", cycles)
		}
	}
	t.Logf("%d failing closes in %d open/close cycles (%v)", failures, cycles, time.Since(start).Round(time.Millisecond))
}
