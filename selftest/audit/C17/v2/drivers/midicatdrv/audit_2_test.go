package midicatdrv

import (
	"testing"
	"time"

	"gitlab.com/gomidi/midi/v2/drivers"
)

// History: open in, open out, listen, send M, stop - where the stop call is made by the listener
// itself when it receives M (the usual way to "listen until message X arrives").
// C17 requires that no call blocks forever. The listener runs under the read lock of the in port
// (in.go:55-64), the stop function waits for the control goroutine (in.go:172-173), which needs the
// write lock to remove the listener (in.go:88-92): the stop call never returns, and from then on
// the in port is dead (no further delivery, Close blocks as well).
func TestAudit2StopCalledByListenerBlocksForever(t *testing.T) {
	in, out, _ := auditPorts(t)
	if err := in.Open(); err != nil {
		t.Fatal(err)
	}
	if err := out.Open(); err != nil {
		t.Fatal(err)
	}
	var r auditRec
	var stop func()
	haveStop := make(chan struct{})
	returned := make(chan struct{})
	stop, err := in.Listen(func(b []byte, ms int32) {
		r.cb(b, ms)
		if b[0] == 0x90 {
			<-haveStop
			stop()
			close(returned)
		}
	}, drivers.ListenConfig{})
	if err != nil {
		t.Fatal(err)
	}
	close(haveStop)
	auditWaitLoop(t, out, &r)

	if err := out.Send([]byte{0x90, 0x3C, 0x40}); err != nil {
		t.Fatal(err)
	}

	select {
	case <-returned:
	case <-time.After(10 * time.Second):
		t.Errorf("the stop function, called by the listener on receipt of a message, has not returned after 10s")
		// the port is unusable from here on: closing it blocks, too
		closed := make(chan struct{})
		go func() { in.Close(); close(closed) }()
		select {
		case <-closed:
		case <-time.After(3 * time.Second):
			t.Errorf("in.Close() afterwards has not returned after 3s either")
		}
		return
	}
	in.Close()
	out.Close()
}
