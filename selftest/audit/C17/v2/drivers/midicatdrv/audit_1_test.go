package midicatdrv

import (
	"fmt"
	"testing"
	"time"

	"gitlab.com/gomidi/midi/v2/drivers"
)

// History: open in, open out, listen, [send M, close out, open out]*.
// Every M is sent while the output is open and the listener is active, Send returns nil, and the
// listener stays active until the end. C17 requires that M reaches the listener exactly once.
// out.Close() sends SIGKILL to the helper process right after closing its stdin (out.go:108-109),
// so that the helper dies before it has consumed what Send already handed over: M is lost.
func TestAudit1SendThenCloseOutLosesMessage(t *testing.T) {
	in, out, drv := auditPorts(t)
	defer drv.Close()
	if err := in.Open(); err != nil {
		t.Fatal(err)
	}
	if err := out.Open(); err != nil {
		t.Fatal(err)
	}
	var r auditRec
	stop, err := in.Listen(r.cb, drivers.ListenConfig{})
	if err != nil {
		t.Fatal(err)
	}
	defer stop()

	const rounds = 4

	// control: the same history with a pause before the close delivers everything
	for round := 0; round < rounds; round++ {
		auditWaitLoop(t, out, &r)
		msg := []byte{0x80, byte(round), 0x40}
		if err := out.Send(msg); err != nil {
			t.Fatalf("control round %d: Send: %v", round, err)
		}
		time.Sleep(500 * time.Millisecond)
		if err := out.Close(); err != nil {
			t.Logf("control round %d: Close: %v", round, err)
		}
		if c := r.count(fmt.Sprintf("%X", msg)); c != 1 {
			t.Fatalf("control round %d: message delivered %d times (stand-in broken?)", round, c)
		}
		if err := out.Open(); err != nil {
			t.Fatal(err)
		}
	}

	lost := 0
	for round := 0; round < rounds; round++ {
		auditWaitLoop(t, out, &r) // the helper of the (re)opened out port is up and the loop is empty
		msg := []byte{0x90, byte(round), 0x40}
		if !out.IsOpen() || !in.IsOpen() {
			t.Fatal("ports not open")
		}
		if err := out.Send(msg); err != nil {
			t.Fatalf("round %d: Send: %v", round, err)
		}
		if err := out.Close(); err != nil {
			t.Logf("round %d: Close: %v", round, err)
		}
		hex := fmt.Sprintf("%X", msg)
		dead := time.Now().Add(3 * time.Second)
		for r.count(hex) == 0 && time.Now().Before(dead) {
			time.Sleep(10 * time.Millisecond)
		}
		if c := r.count(hex); c != 1 {
			lost++
			t.Errorf("round %d: message %s was sent with Send()==nil while the out port was open and the listener active, out.Close() followed: delivered %d times, want 1", round, hex, c)
		}
		if err := out.Open(); err != nil {
			t.Fatal(err)
		}
	}
	t.Logf("%d of %d messages lost", lost, rounds)
}
