package testdrv

import (
	"fmt"
	"testing"

	"gitlab.com/gomidi/midi/v2/drivers"
)

// History: open in, open out, listen A, stop A, listen B, stop A (the same stop function a second
// time, e.g. a deferred stop after an explicit one), send M.
// C17: after stop A returned, "listening again afterwards works", and M, sent while the output is
// open and listener B is active (B was never stopped), reaches B exactly once.
// The stop function does not belong to its listener, it sets the flag of the driver
// (driver.go:80-82) that Listen B had just cleared (driver.go:78): the stale call silences B.
func TestAudit5SecondCallOfAStopFunctionSilencesTheNextListener(t *testing.T) {
	drv := New("audit")
	ins, _ := drv.Ins()
	outs, _ := drv.Outs()
	in, out := ins[0], outs[0]
	if err := in.Open(); err != nil {
		t.Fatal(err)
	}
	if err := out.Open(); err != nil {
		t.Fatal(err)
	}
	var gotA, gotB []string
	stopA, err := in.Listen(func(b []byte, ms int32) { gotA = append(gotA, fmt.Sprintf("% X", b)) }, drivers.ListenConfig{})
	if err != nil {
		t.Fatal(err)
	}
	if err := out.Send([]byte{0x90, 1, 1}); err != nil {
		t.Fatal(err)
	}
	stopA()
	stopB, err := in.Listen(func(b []byte, ms int32) { gotB = append(gotB, fmt.Sprintf("% X", b)) }, drivers.ListenConfig{})
	if err != nil {
		t.Fatal(err)
	}
	stopA() // has already returned once: listener A is gone, this call has nothing left to stop
	if err := out.Send([]byte{0x90, 2, 2}); err != nil {
		t.Fatal(err)
	}
	if len(gotA) != 1 {
		t.Errorf("listener A got %q", gotA)
	}
	if len(gotB) != 1 {
		t.Errorf("listener B is active (its stop function was never called) and the out port is open, but the message 90 02 02 was not delivered to it: B got %q", gotB)
	}
	stopB()
}
