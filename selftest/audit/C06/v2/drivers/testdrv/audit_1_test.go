package testdrv

import (
	"fmt"
	"testing"

	"gitlab.com/gomidi/midi/v2"
	"gitlab.com/gomidi/midi/v2/drivers"
)

// Property C06: "undefined status bytes are skipped" and "every delivered message is ... well formed".
//
// 0xFD is an undefined (reserved) status byte in MIDI 1.0; the library itself classifies it as
// undefined (v2/realtime.go: byteUndefined4 -> UnknownMsg) and the decoder has a branch that is
// meant to skip it (v2/drivers/reader.go:166-169 "0xF4, 0xF5, or 0xFD"). That branch is dead:
// eachByte hands every byte >= 0xF8 to the callback first (reader.go:189-193).

// stream: note on with an undefined status byte 0xFD between its data bytes
var audit1Stream = []byte{0x90, 0x40, 0xFD, 0x50}

func TestAudit1ReaderDeliversUndefinedStatusFD(t *testing.T) {
	var got []string
	rd := drivers.NewReader(drivers.ListenConfig{}, func(m []byte, ts int32) {
		got = append(got, fmt.Sprintf("% X", m))
	})
	for _, b := range audit1Stream { // one byte per chunk; any chunking gives the same result
		rd.EachMessage([]byte{b}, 0)
	}
	want := []string{"90 40 50"}
	if fmt.Sprint(got) != fmt.Sprint(want) {
		t.Fatalf("stream % X: delivered %q, the statement requires %q (undefined status byte 0xFD skipped)", audit1Stream, got, want)
	}
}

func TestAudit1ListenToDeliversUnknownMessage(t *testing.T) {
	drv := New("audit1")
	ins, _ := drv.Ins()
	outs, _ := drv.Outs()

	var got []midi.Message
	stop, err := midi.ListenTo(ins[0], func(m midi.Message, ts int32) {
		got = append(got, append(midi.Message{}, m...))
	})
	if err != nil {
		t.Fatal(err)
	}
	defer stop()
	if err := outs[0].Open(); err != nil {
		t.Fatal(err)
	}
	if err := outs[0].Send(audit1Stream); err != nil {
		t.Fatal(err)
	}

	for _, m := range got {
		if m.Type() == midi.UnknownMsg {
			t.Errorf("stream % X: ListenTo delivered % X, which the library itself types as %s", audit1Stream, []byte(m), m.Type())
		}
	}
	if len(got) != 1 || !got[0].Is(midi.NoteOnMsg) {
		t.Errorf("stream % X: delivered %v, the statement requires exactly the note on 90 40 50", audit1Stream, got)
	}
}
