package smf

import (
	"bytes"
	"io"
	"testing"
)

// audit2Source delivers data[:k] and then fails with err on every further Read (sticky).
type audit2Source struct {
	data []byte
	pos  int
	k    int
	err  error
}

func (s *audit2Source) Read(p []byte) (int, error) {
	if len(p) == 0 {
		return 0, nil
	}
	if s.pos >= s.k {
		return 0, s.err
	}
	n := copy(p, s.data[s.pos:s.k])
	s.pos += n
	return n, nil
}

var _ io.Reader = &audit2Source{}

// TestAudit2SourceFailsWithErrFinished: the source fails with a non-EOF error whose value is the
// exported sentinel smf.ErrFinished. ReadFrom must return an error, not a shortened file.
func TestAudit2SourceFailsWithErrFinished(t *testing.T) {
	s := New()
	var t1 Track
	t1.Add(0, MetaTempo(120))
	t1.Close(0)
	s.Add(t1)
	var t2 Track
	t2.Add(0, Message{0x90, 60, 100})
	t2.Add(10, Message{0x80, 60, 0})
	t2.Add(10, MetaText("the end"))
	t2.Close(0)
	s.Add(t2)

	var full bytes.Buffer
	if _, err := s.WriteTo(&full); err != nil {
		t.Fatal(err)
	}
	data := full.Bytes()

	ref, err := ReadFrom(bytes.NewReader(data))
	if err != nil {
		t.Fatal(err)
	}
	count := func(f *SMF) (n int) {
		for _, tr := range f.Tracks {
			n += len(tr)
		}
		return
	}

	var bad int
	for k := 0; k < len(data); k++ {
		got, err := ReadFrom(&audit2Source{data: data, k: k, err: ErrFinished})
		if err == nil {
			bad++
			t.Errorf("source failed at offset %d of %d with %q: ReadFrom returned a nil error and a file with %d events (complete file: %d events)",
				k, len(data), ErrFinished, count(got), count(ref))
		}
	}
	if bad > 0 {
		t.Errorf("%d offsets at which the failure of the source was swallowed", bad)
	}
}
