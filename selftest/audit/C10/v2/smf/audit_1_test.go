package smf

import (
	"bytes"
	"testing"
)

// audit1File is an ordinary two track file (closed tracks, channel, sysex and meta messages).
func audit1File() *SMF {
	s := New()
	var t1 Track
	t1.Add(0, MetaTempo(120))
	t1.Add(10, Message{0x90, 60, 100})
	t1.Add(10, Message{0x90, 62, 100})
	t1.Add(10, Message{0xF0, 1, 2, 3, 0xF7})
	t1.Add(5, MetaText("hello"))
	t1.Add(300, Message{0xE1, 5, 6})
	t1.Close(7)
	s.Add(t1)
	var t2 Track
	t2.Add(0, Message{0x80, 60, 0})
	t2.Close(0)
	s.Add(t2)
	return s
}

// audit1ShortWriter is a destination that has room for limit bytes. The Write call that crosses the
// limit is a short write: it takes what fits and reports the (short) count, without an error value.
// If recover is set, the destination has room again afterwards (a single short write, then recovery),
// otherwise it stays full (every further Write reports 0 bytes).
type audit1ShortWriter struct {
	limit    int
	recover  bool
	hit      bool
	accepted bytes.Buffer
	offered  int
}

func (w *audit1ShortWriter) Write(p []byte) (int, error) {
	w.offered += len(p)
	if w.hit && w.recover {
		w.accepted.Write(p)
		return len(p), nil
	}
	room := w.limit - w.accepted.Len()
	if room < 0 {
		room = 0
	}
	if len(p) > room {
		w.hit = true
		w.accepted.Write(p[:room])
		return room, nil
	}
	w.accepted.Write(p)
	return len(p), nil
}

// TestAudit1ShortWriteReturnsNil: a short write (the destination takes fewer bytes than offered)
// at every byte offset of the output stream. WriteTo must not return nil unless every byte was accepted.
func TestAudit1ShortWriteReturnsNil(t *testing.T) {
	var full bytes.Buffer
	size, err := audit1File().WriteTo(&full)
	if err != nil || int(size) != full.Len() {
		t.Fatalf("reference write failed: size %v err %v", size, err)
	}

	var bad int
	for _, recover := range []bool{false, true} {
		for k := 0; k < full.Len(); k++ {
			w := &audit1ShortWriter{limit: k, recover: recover}
			size, err := audit1File().WriteTo(w)
			if err == nil && !bytes.Equal(w.accepted.Bytes(), full.Bytes()) {
				bad++
				if bad <= 6 {
					t.Errorf("short write at offset %d (recover=%v): WriteTo returned a nil error and size %d, but the destination accepted only %d of the %d bytes of the file",
						k, recover, size, w.accepted.Len(), full.Len())
				}
			}
		}
	}
	if bad > 0 {
		t.Errorf("%d of %d injected short writes ended in a nil error although not every byte was accepted", bad, 2*full.Len())
	}
}
