package smf

import (
	"bytes"
	"testing"

	"gitlab.com/gomidi/midi/v2"
)

// Track.SendTo iterates a track and hands a time stamp in milliseconds ("timestampms") to the receiver.
// File: 960 ticks per quarter note, no tempo event (120 BPM), note on at tick 0, note off at tick 960,
// note on at tick 1920. Exact times: 0ms, 500ms, 1000ms.
func TestAudit2SendToTimestamps(t *testing.T) {
	trk := []byte{
		0x00, 0x90, 0x40, 0x40,
		0x87, 0x40, 0x80, 0x40, 0x00,
		0x87, 0x40, 0x90, 0x40, 0x40,
		0x00, 0xFF, 0x2F, 0x00,
	}
	var f bytes.Buffer
	f.WriteString("MThd")
	f.Write([]byte{0, 0, 0, 6, 0, 0, 0, 1, 0x03, 0xC0})
	f.WriteString("MTrk")
	f.Write([]byte{0, 0, 0, byte(len(trk))})
	f.Write(trk)

	s, err := ReadFrom(&f)
	if err != nil {
		t.Fatal(err)
	}

	mt := s.TimeFormat.(MetricTicks)

	var got []int32
	s.Tracks[0].SendTo(mt, s.TempoChanges(), func(m midi.Message, timestampms int32) {
		got = append(got, timestampms)
	})

	if len(got) != 3 {
		t.Fatalf("expected 3 playable events, got %d", len(got))
	}

	var absTicks = []int64{0, 960, 1920}
	var prev int64
	for i, ts := range got {
		wantAbs := s.TimeAt(absTicks[i]) / 1000 // 0, 500, 1000
		wantDelta := wantAbs - prev             // 0, 500, 500
		prev = wantAbs
		// accept either reading of the undocumented parameter: absolute or relative milliseconds
		if int64(ts) != wantAbs && int64(ts) != wantDelta {
			t.Errorf("event %d at tick %d: SendTo handed out %d, want %dms (absolute) or %dms (since the previous event)", i, absTicks[i], ts, wantAbs, wantDelta)
		}
	}
}

// with an interval of a minute the value does not even fit: it wraps around to a negative number
func TestAudit2SendToOverflow(t *testing.T) {
	var tr Track
	tr.Add(0, []byte{0x90, 0x40, 0x40})
	tr.Add(960*120, []byte{0x80, 0x40, 0x00}) // 120 quarter notes at 120 BPM = 60s
	tr.Close(0)

	var got []int32
	tr.SendTo(MetricTicks(960), nil, func(m midi.Message, timestampms int32) {
		got = append(got, timestampms)
	})
	if len(got) != 2 {
		t.Fatalf("expected 2 events, got %d", len(got))
	}
	if got[1] != 60000 {
		t.Errorf("event at 60s: SendTo handed out %d, want 60000ms", got[1])
	}
}

// Whatever the unit: the intervals do not follow the tempo map either. 96 ticks per quarter note,
// tempo 60 BPM at tick 0, note on at tick 0, note off at tick 96, tempo 240 BPM at tick 96 (after the
// note off), note on at tick 192. The first interval lasts 1000ms, the second 250ms, i.e. a ratio of 4.
func TestAudit2SendToTempo(t *testing.T) {
	s, err := ReadFrom(bytes.NewReader(audit1File()))
	if err != nil {
		t.Fatal(err)
	}
	var got []int32
	s.Tracks[0].SendTo(s.TimeFormat.(MetricTicks), s.TempoChanges(), func(m midi.Message, timestampms int32) {
		got = append(got, timestampms)
	})
	if len(got) != 3 {
		t.Fatalf("expected 3 playable events, got %d", len(got))
	}
	// relative reading: got[1] : got[2] = 4 : 1, absolute reading: got[1] : got[2] = 1000 : 1250
	if int64(got[1]) != 4*int64(got[2]) && 5*int64(got[1]) != 4*int64(got[2]) {
		t.Errorf("SendTo handed out %v for intervals of 1000ms and 250ms (times 0ms, 1000ms, 1250ms)", got)
	}
}
