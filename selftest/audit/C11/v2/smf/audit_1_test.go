package smf

import (
	"bytes"
	"testing"
)

// A format 0 file, 96 ticks per quarter note, one track:
//
//	tick   0: tempo 1000000 us per quarter note (60 BPM)
//	tick   0: note on
//	tick  96: note off
//	tick  96: tempo 250000 us per quarter note (240 BPM)
//	tick 192: note on
//	tick 288: end of track
//
// exact integral of the tempo map: tick 96 = 1000000us, tick 192 = 1250000us, tick 288 = 1500000us
func audit1File() []byte {
	trk := []byte{
		0x00, 0xFF, 0x51, 0x03, 0x0F, 0x42, 0x40,
		0x00, 0x90, 0x40, 0x40,
		0x60, 0x80, 0x40, 0x00,
		0x00, 0xFF, 0x51, 0x03, 0x03, 0xD0, 0x90,
		0x60, 0x90, 0x40, 0x40,
		0x60, 0xFF, 0x2F, 0x00,
	}
	var f bytes.Buffer
	f.WriteString("MThd")
	f.Write([]byte{0, 0, 0, 6, 0, 0, 0, 1, 0, 96})
	f.WriteString("MTrk")
	f.Write([]byte{0, 0, 0, byte(len(trk))})
	f.Write(trk)
	return f.Bytes()
}

var audit1Want = map[int64]int64{0: 0, 48: 500000, 96: 1000000, 192: 1250000, 288: 1500000}

// the file as read reports the exact times (this part passes) ...
func TestAudit1ReadFileIsRight(t *testing.T) {
	s, err := ReadFrom(bytes.NewReader(audit1File()))
	if err != nil {
		t.Fatal(err)
	}
	for _, tick := range []int64{0, 48, 96, 192, 288} {
		if got := s.TimeAt(tick); got != audit1Want[tick] {
			t.Errorf("read file: TimeAt(%d) = %d, want %d", tick, got, audit1Want[tick])
		}
	}
}

// ... but the same file after ConvertToSMF1 (metric time, all tempo events in track 0) reports
// times at a constant 120 BPM: the tempo map is ignored.
func TestAudit1ConvertedFileIgnoresTempoMap(t *testing.T) {
	s, err := ReadFrom(bytes.NewReader(audit1File()))
	if err != nil {
		t.Fatal(err)
	}
	c := s.ConvertToSMF1()

	// the converted file does hold the tempo events, in a single track
	var tempos int
	for i, tr := range c.Tracks {
		for _, ev := range tr {
			if ev.Message.Is(MetaTempoMsg) {
				tempos++
				if i != 0 {
					t.Fatalf("tempo event in track %d", i)
				}
			}
		}
	}
	if tempos != 2 {
		t.Fatalf("expected 2 tempo events in the converted file, got %d", tempos)
	}
	if _, ok := c.TimeFormat.(MetricTicks); !ok {
		t.Fatalf("converted file is not metric")
	}

	for _, tick := range []int64{0, 48, 96, 192, 288} {
		if got := c.TimeAt(tick); got != audit1Want[tick] {
			t.Errorf("converted file: TimeAt(%d) = %d, want %d", tick, got, audit1Want[tick])
		}
	}
}

// The same holds for a file that is built through the API and never read: the tempo events
// of its tracks are never looked at.
func TestAudit1BuiltFileIgnoresTempoMap(t *testing.T) {
	s := New()
	s.TimeFormat = MetricTicks(96)
	var tr Track
	tr.Add(0, MetaTempo(60))
	tr.Add(0, []byte{0x90, 0x40, 0x40})
	tr.Add(96, []byte{0x80, 0x40, 0x00})
	tr.Add(0, MetaTempo(240))
	tr.Add(96, []byte{0x90, 0x40, 0x40})
	tr.Close(96)
	if err := s.Add(tr); err != nil {
		t.Fatal(err)
	}

	for _, tick := range []int64{0, 48, 96, 192, 288} {
		if got := s.TimeAt(tick); got != audit1Want[tick] {
			t.Errorf("built file: TimeAt(%d) = %d, want %d", tick, got, audit1Want[tick])
		}
	}

	// written and read back, the very same file reports the right times
	var bf bytes.Buffer
	if _, err := s.WriteTo(&bf); err != nil {
		t.Fatal(err)
	}
	r, err := ReadFrom(&bf)
	if err != nil {
		t.Fatal(err)
	}
	for _, tick := range []int64{0, 48, 96, 192, 288} {
		if got := r.TimeAt(tick); got != audit1Want[tick] {
			t.Errorf("built file written and read back: TimeAt(%d) = %d, want %d", tick, got, audit1Want[tick])
		}
	}
}
