package smf_test

// Audit C03, violation 1: the track count of the header wraps around at 65536,
// so a value with more than 65535 tracks is written, without any error, as a file whose
// header announces len(Tracks) mod 65536 tracks while len(Tracks) MTrk chunks follow.

import (
	"bytes"
	"encoding/binary"
	"errors"
	"fmt"
	"testing"

	"gitlab.com/gomidi/midi/v2/smf"
)

func TestAudit1TrackCountWrapsAround(t *testing.T) {
	for _, n := range []int{65537, 65540, 70000} {
		s := smf.NewSMF1()
		s.TimeFormat = smf.MetricTicks(96)
		for i := 0; i < n; i++ {
			var tr smf.Track
			tr.Add(0, smf.Message{0x90, byte(i % 128), 100})
			tr.Close(uint32(i % 1000))
			if err := s.Add(tr); err != nil {
				t.Fatal(err)
			}
		}

		var bf bytes.Buffer
		size, err := s.WriteTo(&bf)
		if err != nil {
			// refusing the value would be fine: nothing invalid is emitted then
			t.Logf("%d tracks: refused with error %v", n, err)
			continue
		}
		if size != int64(bf.Len()) {
			t.Errorf("%d tracks: reported size %d, emitted %d", n, size, bf.Len())
		}
		f, perr := audit1Parse(bf.Bytes())
		if perr != nil {
			t.Errorf("%d tracks: WriteTo returned no error, but the %d bytes it emitted are not a valid SMF: %v (header bytes: % X)",
				n, bf.Len(), perr, bf.Bytes()[:14])
			continue
		}
		if len(f.Tracks) != n {
			t.Errorf("%d tracks written, %d recovered", n, len(f.Tracks))
		}
	}
}

// ---- independent strict SMF 1.0 parser (no library code involved) ----

type audit1Event struct {
	Delta uint32
	Msg   []byte // channel: status+data; meta: FF typ data; sysex: F0/F7 data
}

type audit1File struct {
	Format, NumTracks, Division uint16
	Tracks                      [][]audit1Event
}

// audit1VLQ reads a canonical variable-length quantity of at most four bytes.
func audit1VLQ(b []byte, pos int) (val uint32, n int, err error) {
	for i := 0; i < 4; i++ {
		if pos+i >= len(b) {
			return 0, 0, errors.New("variable-length quantity is truncated")
		}
		c := b[pos+i]
		if i == 0 && c == 0x80 {
			return 0, 0, errors.New("variable-length quantity is not canonical (leading 0x80)")
		}
		val = val<<7 | uint32(c&0x7f)
		if c&0x80 == 0 {
			return val, i + 1, nil
		}
	}
	return 0, 0, fmt.Errorf("variable-length quantity at body offset %d is longer than four bytes (% X ...)", pos, b[pos:pos+5])
}

func audit1Parse(b []byte) (*audit1File, error) {
	if len(b) < 14 || string(b[:4]) != "MThd" || binary.BigEndian.Uint32(b[4:8]) != 6 {
		return nil, errors.New("no 6-byte MThd header")
	}
	f := &audit1File{
		Format:    binary.BigEndian.Uint16(b[8:10]),
		NumTracks: binary.BigEndian.Uint16(b[10:12]),
		Division:  binary.BigEndian.Uint16(b[12:14]),
	}
	if f.Format > 2 {
		return nil, errors.New("format > 2")
	}
	pos := 14
	for pos < len(b) {
		if len(b)-pos < 8 {
			return nil, errors.New("trailing bytes")
		}
		if string(b[pos:pos+4]) != "MTrk" {
			return nil, fmt.Errorf("unexpected chunk type %q", b[pos:pos+4])
		}
		l := int(binary.BigEndian.Uint32(b[pos+4 : pos+8]))
		pos += 8
		if pos+l > len(b) {
			return nil, errors.New("chunk length reaches beyond the end of the file")
		}
		body := b[pos : pos+l]
		pos += l
		tno := len(f.Tracks)
		var evs []audit1Event
		var status byte
		ended := false
		p := 0
		for p < len(body) {
			if ended {
				return nil, fmt.Errorf("track %d: an end-of-track event is followed by further events (body offset %d)", tno, p)
			}
			d, n, err := audit1VLQ(body, p)
			if err != nil {
				return nil, fmt.Errorf("track %d: delta: %v", tno, err)
			}
			p += n
			if p >= len(body) {
				return nil, fmt.Errorf("track %d: event truncated", tno)
			}
			c := body[p]
			switch {
			case c == 0xFF:
				status = 0
				if p+2 > len(body) {
					return nil, fmt.Errorf("track %d: meta event truncated", tno)
				}
				typ := body[p+1]
				ln, n, err := audit1VLQ(body, p+2)
				if err != nil {
					return nil, fmt.Errorf("track %d: meta length: %v", tno, err)
				}
				st := p + 2 + n
				if st+int(ln) > len(body) {
					return nil, fmt.Errorf("track %d: meta data truncated", tno)
				}
				if typ == 0x2F {
					if ln != 0 {
						return nil, fmt.Errorf("track %d: end-of-track event with data", tno)
					}
					ended = true
				}
				msg := make([]byte, 0, 2+int(ln))
				msg = append(append(msg, 0xFF, typ), body[st:st+int(ln)]...)
				evs = append(evs, audit1Event{d, msg})
				p = st + int(ln)
			case c == 0xF0 || c == 0xF7:
				status = 0
				ln, n, err := audit1VLQ(body, p+1)
				if err != nil {
					return nil, fmt.Errorf("track %d: sysex length: %v", tno, err)
				}
				st := p + 1 + n
				if st+int(ln) > len(body) {
					return nil, fmt.Errorf("track %d: sysex data truncated", tno)
				}
				msg := make([]byte, 0, 1+int(ln))
				msg = append(append(msg, c), body[st:st+int(ln)]...)
				evs = append(evs, audit1Event{d, msg})
				p = st + int(ln)
			case c >= 0xF0:
				return nil, fmt.Errorf("track %d: status byte %X is not allowed in a file", tno, c)
			default:
				if c >= 0x80 {
					status = c
					p++
				} else if status == 0 {
					return nil, fmt.Errorf("track %d: running status used where none is in effect", tno)
				}
				nd := 2
				if status&0xF0 == 0xC0 || status&0xF0 == 0xD0 {
					nd = 1
				}
				if p+nd > len(body) {
					return nil, fmt.Errorf("track %d: channel message truncated", tno)
				}
				for _, x := range body[p : p+nd] {
					if x >= 0x80 {
						return nil, fmt.Errorf("track %d: data byte >= 0x80", tno)
					}
				}
				evs = append(evs, audit1Event{d, append([]byte{status}, body[p:p+nd]...)})
				p += nd
			}
		}
		if !ended {
			return nil, fmt.Errorf("track %d: does not end with an end-of-track event", tno)
		}
		f.Tracks = append(f.Tracks, evs)
	}
	if int(f.NumTracks) != len(f.Tracks) {
		return nil, fmt.Errorf("header announces %d tracks, but %d MTrk chunks follow", f.NumTracks, len(f.Tracks))
	}
	return f, nil
}
