package smf_test

// Audit C03, violation 2: when the destination fails while the 14 header bytes are written,
// SMF.WriteTo reports size 0 although up to 13 bytes have been emitted to the destination
// (for a failure anywhere after the header the reported size is exact).

import (
	"errors"
	"testing"

	"gitlab.com/gomidi/midi/v2/smf"
)

// audit2Dest accepts the first `room` bytes and then fails like a full disk:
// it honours the io.Writer contract (n < len(p) comes with a non-nil error).
type audit2Dest struct {
	room    int
	emitted []byte
}

func (d *audit2Dest) Write(p []byte) (int, error) {
	if len(p) <= d.room {
		d.room -= len(p)
		d.emitted = append(d.emitted, p...)
		return len(p), nil
	}
	k := d.room
	d.room = 0
	d.emitted = append(d.emitted, p[:k]...)
	return k, errors.New("no space left on device")
}

func TestAudit2SizeAfterFailureInsideHeader(t *testing.T) {
	for _, noRunning := range []bool{false, true} {
		var wrong []int
		for room := 0; room <= 40; room++ {
			s := smf.New()
			s.NoRunningStatus = noRunning
			var tr smf.Track
			tr.Add(0, smf.Message{0x90, 60, 100})
			tr.Add(10, smf.Message{0x90, 60, 0})
			tr.Close(0)
			s.Add(tr)

			d := &audit2Dest{room: room}
			size, err := s.WriteTo(d)
			if err == nil && room < 14 {
				t.Fatalf("no error although the destination failed")
			}
			if size != int64(len(d.emitted)) {
				wrong = append(wrong, room)
				if len(wrong) == 1 || room == 13 {
					t.Errorf("noRunningStatus=%v, destination fails after %d bytes: WriteTo reported size %d, but %d bytes were emitted (% X), err = %v",
						noRunning, room, size, len(d.emitted), d.emitted, err)
				}
			}
		}
		if len(wrong) > 0 {
			t.Errorf("noRunningStatus=%v: reported size differs from the number of emitted bytes when the destination fails after %v bytes (exact for every other point of failure 0..40)", noRunning, wrong)
		}
	}
}
