package mmc

import (
	"reflect"
	"testing"
)

// A Message value that already parsed a locate message (built by GoTo.SysEx,
// inside the quantifier) is used to parse a plain command (built by
// Message.SysEx, device 1..127, command < 0x40). Message.Parse does not reset
// the Data field on the plain-command path, so the parsed value is not the
// value the bytes were built from: it still carries the locate parameters.
func TestAudit1ReusedReceiverKeepsLocateData(t *testing.T) {
	loc := GoTo{DeviceID: 5, Hour: 1, Minute: 2, Second: 3, Frame: 4, SubFrame: 5}

	for dev := 1; dev <= 127; dev++ {
		for cmd := 0; cmd < 0x40; cmd++ {
			built := Message{DeviceID: byte(dev), Command: Command(cmd)}

			var p Message
			if err := p.Parse(loc.SysEx()); err != nil {
				t.Fatalf("parsing the locate message: %v", err)
			}
			if err := p.Parse(built.SysEx()); err != nil {
				t.Fatalf("parsing the plain command: %v", err)
			}
			if !reflect.DeepEqual(p, built) {
				t.Fatalf("device %d command %#x: parsed %#v, built from %#v", dev, cmd, p, built)
			}
		}
	}
}

// The same with a receiver whose Data field the caller had filled in (the zero
// value is not required by the API: Parse has a pointer receiver and overwrites
// DeviceID, Command and IsResponse).
func TestAudit1PresetReceiverKeepsData(t *testing.T) {
	built := Message{DeviceID: 1, Command: StopCmd}
	p := Message{DeviceID: 9, Command: ShuttleCmd, IsResponse: true, Data: []byte{3, 1, 2, 3}}
	if err := p.Parse(built.SysEx()); err != nil {
		t.Fatal(err)
	}
	if !reflect.DeepEqual(p, built) {
		t.Fatalf("parsed %#v, built from %#v", p, built)
	}
}
