package sequencer

import (
	"testing"

	"gitlab.com/gomidi/midi/v2"
	"gitlab.com/gomidi/midi/v2/smf"
)

// A very ordinary song: one 4/4 bar at the default resolution (960), one track, one channel.
//   - optionally a bass note (key 48) at position 0 that lasts the whole bar (32/32)
//   - eight repeated eighth notes (key 60) at positions 0,4,8,...,28, each lasting 4/32
// The events of the bar are listed in the order of their positions.
func audit1Song(withBass bool) *Song {
	s := New()
	var bar Bar
	bar.TimeSig = [2]uint8{4, 4}
	if withBass {
		bar.Events = append(bar.Events, &Event{TrackNo: 0, Pos: 0, Duration: 32, Message: smf.Message(midi.NoteOn(0, 48, 100))})
	}
	for i := 0; i < 8; i++ {
		bar.Events = append(bar.Events, &Event{TrackNo: 0, Pos: uint8(i * 4), Duration: 4, Message: smf.Message(midi.NoteOn(0, 60, 100))})
	}
	s.AddBar(bar)
	return s
}

// audit1Check reads every exported track the way every MIDI consumer does (a note is ended by the first
// note-off for its channel and key that follows its note-on in the track) and requires that every note
// of the song ends after its duration.
func audit1Check(t *testing.T, name string, s *Song, sm smf.SMF) {
	t32 := int64(s.Ticks.Ticks32th())

	// what the song says: (start tick, key) -> duration in ticks
	type nk struct {
		start int64
		key   uint8
	}
	want := map[nk]int64{}
	for _, b := range s.Bars() {
		for _, ev := range b.Events {
			var ch, key, vel uint8
			if ev.Message.GetNoteStart(&ch, &key, &vel) {
				want[nk{b.AbsTicks + int64(ev.Pos)*t32, key}] = int64(ev.Duration) * t32
			}
		}
	}

	got := map[nk]int64{}
	for ti, tr := range sm.Tracks {
		var abs int64
		sounding := map[[2]uint8]int64{}
		for _, ev := range tr {
			abs += int64(ev.Delta)
			var ch, key, vel uint8
			switch {
			case ev.Message.GetNoteStart(&ch, &key, &vel):
				if st, on := sounding[[2]uint8{ch, key}]; on {
					t.Errorf("%s track %d: tick %d: note-on key %d although the note started at tick %d has not been ended yet", name, ti, abs, key, st)
				}
				sounding[[2]uint8{ch, key}] = abs
			case ev.Message.GetNoteEnd(&ch, &key):
				st, on := sounding[[2]uint8{ch, key}]
				if !on {
					t.Errorf("%s track %d: tick %d: note-off key %d, but no such note is sounding", name, ti, abs, key)
					continue
				}
				got[nk{st, key}] = abs - st
				delete(sounding, [2]uint8{ch, key})
			}
		}
		for k, st := range sounding {
			t.Errorf("%s track %d: note key %d started at tick %d is never ended", name, ti, k[1], st)
		}
	}

	for k, w := range want {
		g, has := got[k]
		if !has {
			t.Errorf("%s: note key %d at tick %d: not ended at all, want duration %d ticks", name, k.key, k.start, w)
			continue
		}
		if g != w {
			t.Errorf("%s: note key %d at tick %d ends after %d ticks, the song says %d ticks", name, k.key, k.start, g, w)
		}
	}
}

// control: without the bass note the export is fine, i.e. the check above is satisfiable
func TestAudit1ControlWithoutBassNote(t *testing.T) {
	s := audit1Song(false)
	audit1Check(t, "ToSMF0", s, s.ToSMF0())
	audit1Check(t, "ToSMF1", s, s.ToSMF1())
}

// the violation: with the bass note, note-offs are placed after the note-on of the next repetition at the same tick
func TestAudit1RepeatedNotesAreCutOff(t *testing.T) {
	s := audit1Song(true)
	audit1Check(t, "ToSMF0", s, s.ToSMF0())
	audit1Check(t, "ToSMF1", s, s.ToSMF1())
}

// the same, seen through the library's own importer: the song that comes back has other durations
func TestAudit1RoundTripThroughImporter(t *testing.T) {
	for _, withBass := range []bool{false, true} {
		s := audit1Song(withBass)
		back := FromSMF(s.ToSMF1())
		var n int
		for _, b := range back.Bars() {
			for _, ev := range b.Events {
				var ch, key, vel uint8
				if ev.Message.GetNoteStart(&ch, &key, &vel) && key == 60 {
					n++
					if ev.Duration != 4 {
						t.Errorf("withBass=%v: FromSMF(ToSMF1()): note key 60 at position %d has duration %d/32, the song says 4/32", withBass, ev.Pos, ev.Duration)
					}
				}
			}
		}
		if n != 8 {
			t.Errorf("withBass=%v: FromSMF(ToSMF1()) has %d notes of key 60, want 8", withBass, n)
		}
	}
}
