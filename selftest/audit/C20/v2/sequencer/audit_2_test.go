package sequencer

import (
	"testing"

	"gitlab.com/gomidi/midi/v2"
	"gitlab.com/gomidi/midi/v2/smf"
)

// A long, sparse song: 4400 bars of 15/2 (240/32 per bar, fits in 255) at resolution 32760 (divisible by 8,
// the largest such resolution a MIDI file can carry), one short note in the first bar and one control change at
// position 7 of the last bar. The song is 4400*240*4095 = 4 324 320 000 ticks long, more than 2^32.
func TestAudit2LongSongWrapsAround(t *testing.T) {
	const (
		res   = 32760
		nbars = 4400
		t32   = res / 8
		blen  = 15 * 32 / 2
	)
	s := New()
	s.Ticks = smf.MetricTicks(res)
	for i := 0; i < nbars; i++ {
		b := Bar{TimeSig: [2]uint8{15, 2}}
		switch i {
		case 0:
			b.Events = Events{{TrackNo: 0, Pos: 0, Duration: 4, Message: smf.Message(midi.NoteOn(0, 60, 100))}}
		case nbars - 1:
			b.Events = Events{{TrackNo: 0, Pos: 7, Message: smf.Message(midi.ControlChange(0, 7, 99))}}
		}
		s.AddBar(b)
	}

	wantEnd := int64(nbars) * blen * t32
	wantCC := int64(nbars-1)*blen*t32 + 7*t32

	check := func(name string, sm smf.SMF) {
		var ccSeen bool
		for ti, tr := range sm.Tracks {
			var abs int64
			for _, ev := range tr {
				abs += int64(ev.Delta)
				var ch, cc, val uint8
				if ev.Message.GetControlChange(&ch, &cc, &val) {
					ccSeen = true
					if abs != wantCC {
						t.Errorf("%s track %d: control change of the last bar is at tick %d, want %d (bar start + position)", name, ti, abs, wantCC)
					}
				}
			}
			if abs != wantEnd {
				t.Errorf("%s track %d ends at tick %d, want %d (end of the last bar)", name, ti, abs, wantEnd)
			}
		}
		if !ccSeen {
			t.Errorf("%s: control change missing", name)
		}
	}
	check("ToSMF0", s.ToSMF0())
	check("ToSMF1", s.ToSMF1())
}
