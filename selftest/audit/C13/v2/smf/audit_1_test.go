package smf_test

// Audit C13, violation 1: a long silence between two channel messages is recorded as a delta
// above 0x0FFFFFFF ticks; SMF.WriteTo then emits a five byte variable length quantity,
// which is not a valid Standard MIDI File.

import (
	"bytes"
	"encoding/binary"
	"fmt"
	"math"
	"reflect"
	"testing"
	"time"

	"gitlab.com/gomidi/midi/v2/drivers/testdrv"
	"gitlab.com/gomidi/midi/v2/smf"
)

// auditStrictVLQ reads a variable length quantity as the SMF specification defines it:
// at most four bytes, i.e. at most 0x0FFFFFFF.
func auditStrictVLQ(b []byte, pos *int, what string) (uint32, error) {
	var v uint32
	for i := 0; ; i++ {
		if *pos >= len(b) {
			return 0, fmt.Errorf("%s: data ends inside a variable length quantity", what)
		}
		if i == 4 {
			return 0, fmt.Errorf("%s at offset %d: variable length quantity is longer than 4 bytes (the largest value allowed in a SMF is 0x0FFFFFFF)", what, *pos-4)
		}
		c := b[*pos]
		*pos++
		v = v<<7 | uint32(c&0x7F)
		if c&0x80 == 0 {
			return v, nil
		}
	}
}

// auditStrictSMF is a small strict parser for Standard MIDI Files with metric time division.
// It returns the (delta, message) pairs of every track.
func auditStrictSMF(b []byte) ([][]smf.Event, error) {
	if len(b) < 14 || string(b[:4]) != "MThd" || binary.BigEndian.Uint32(b[4:8]) != 6 {
		return nil, fmt.Errorf("bad header chunk")
	}
	format := binary.BigEndian.Uint16(b[8:10])
	ntrks := binary.BigEndian.Uint16(b[10:12])
	div := binary.BigEndian.Uint16(b[12:14])
	if format > 2 || ntrks == 0 || (format == 0 && ntrks != 1) || div == 0 || div&0x8000 != 0 {
		return nil, fmt.Errorf("bad header values: format %d, tracks %d, division %#x", format, ntrks, div)
	}
	pos := 14
	var tracks [][]smf.Event
	for tr := 0; tr < int(ntrks); tr++ {
		if pos+8 > len(b) || string(b[pos:pos+4]) != "MTrk" {
			return nil, fmt.Errorf("track %d: expected a MTrk chunk at offset %d", tr, pos)
		}
		ln := int(binary.BigEndian.Uint32(b[pos+4 : pos+8]))
		pos += 8
		if pos+ln > len(b) {
			return nil, fmt.Errorf("track %d: chunk longer than the file", tr)
		}
		body := b[pos : pos+ln]
		pos += ln
		var evs []smf.Event
		var p int
		var running byte
		var closed bool
		for p < len(body) {
			if closed {
				return nil, fmt.Errorf("track %d: data after the end of track event", tr)
			}
			delta, err := auditStrictVLQ(body, &p, fmt.Sprintf("track %d, delta time of event %d", tr, len(evs)))
			if err != nil {
				return nil, err
			}
			if p >= len(body) {
				return nil, fmt.Errorf("track %d: event %d has no status", tr, len(evs))
			}
			st := body[p]
			switch {
			case st == 0xFF:
				if p+2 > len(body) {
					return nil, fmt.Errorf("track %d: truncated meta event", tr)
				}
				typ := body[p+1]
				start := p
				p += 2
				l, err := auditStrictVLQ(body, &p, "meta length")
				if err != nil {
					return nil, err
				}
				if p+int(l) > len(body) {
					return nil, fmt.Errorf("track %d: meta event longer than the track", tr)
				}
				p += int(l)
				running = 0
				evs = append(evs, smf.Event{Delta: delta, Message: append(smf.Message{}, body[start:p]...)})
				if typ == 0x2F {
					if l != 0 {
						return nil, fmt.Errorf("track %d: end of track with data", tr)
					}
					closed = true
				}
			case st == 0xF0 || st == 0xF7:
				p++
				l, err := auditStrictVLQ(body, &p, "sysex length")
				if err != nil {
					return nil, err
				}
				if p+int(l) > len(body) {
					return nil, fmt.Errorf("track %d: sysex event longer than the track", tr)
				}
				evs = append(evs, smf.Event{Delta: delta, Message: append(smf.Message{st}, body[p:p+int(l)]...)})
				p += int(l)
				running = 0
			case st >= 0xF0:
				return nil, fmt.Errorf("track %d: status %#x is not allowed in a SMF", tr, st)
			default:
				if st >= 0x80 {
					running = st
					p++
				}
				if running == 0 {
					return nil, fmt.Errorf("track %d: data byte %#x without running status", tr, st)
				}
				n := 2
				if running&0xF0 == 0xC0 || running&0xF0 == 0xD0 {
					n = 1
				}
				if p+n > len(body) {
					return nil, fmt.Errorf("track %d: truncated channel message", tr)
				}
				for _, d := range body[p : p+n] {
					if d >= 0x80 {
						return nil, fmt.Errorf("track %d: status byte %#x inside a channel message", tr, d)
					}
				}
				evs = append(evs, smf.Event{Delta: delta, Message: append(smf.Message{running}, body[p:p+n]...)})
				p += n
			}
		}
		if !closed {
			return nil, fmt.Errorf("track %d: no end of track event", tr)
		}
		tracks = append(tracks, evs)
	}
	if pos != len(b) {
		return nil, fmt.Errorf("%d bytes after the last track", len(b)-pos)
	}
	return tracks, nil
}

// auditRecordPause records note on, a silence of the given length, note off through a testdrv
// loopback (Driver.Sleep as the clock) and returns the closed track.
func auditRecordPause(t *testing.T, res smf.MetricTicks, bpm float64, pause time.Duration) smf.Track {
	t.Helper()
	drv := testdrv.New("audit")
	ins, _ := drv.Ins()
	outs, _ := drv.Outs()
	in, out := ins[0], outs[0]
	if err := out.Open(); err != nil {
		t.Fatal(err)
	}
	var tr smf.Track
	stop, err := tr.RecordFrom(in, res, bpm)
	if err != nil {
		t.Fatal(err)
	}
	drv.Sleep(time.Second)
	out.Send([]byte{0x90, 60, 100})
	// things that arrive during the silence and are not recorded do not matter
	// (whole milliseconds only: the driver's time stamps are in milliseconds)
	half := (pause / 2).Truncate(time.Millisecond)
	drv.Sleep(half)
	out.Send([]byte{0xFA})
	drv.Sleep(pause - half)
	out.Send([]byte{0x80, 60, 0})
	stop()
	tr.Close(0)
	return tr
}

func TestAudit1LongSilenceWritesInvalidFile(t *testing.T) {
	tests := []struct {
		res   smf.MetricTicks
		bpm   float64
		pause time.Duration
	}{
		// control: the largest silence at the finest resolution and highest tempo that still fits
		{15360, 400, 2621439 * time.Millisecond},
		// one millisecond more: 2621440 ms * 15360 * 400 / 60000 = 0x10000000 ticks
		{15360, 400, 2621440 * time.Millisecond},
		{15360, 400, 44 * time.Minute},
		{15360, 120, 3 * time.Hour},
		{960, 400, 12 * time.Hour},
		// the default resolution of smf.New() and the default tempo
		{960, 120, 40 * time.Hour},
		{96, 120, 17 * 24 * time.Hour},
	}

	for _, test := range tests {
		name := fmt.Sprintf("res=%d bpm=%v silence=%v", test.res, test.bpm, test.pause)
		tr := auditRecordPause(t, test.res, test.bpm, test.pause)

		if len(tr) != 4 {
			t.Errorf("%s: recorded %d events, expected 4", name, len(tr))
			continue
		}

		// what the statement requires: the conversion of the time stamp difference, to within one tick
		want := float64(test.pause.Milliseconds()) * float64(test.res) * test.bpm / 60000
		if math.Abs(float64(tr[2].Delta)-want) > 1 {
			t.Errorf("%s: recorded delta %d, expected %.1f", name, tr[2].Delta, want)
		}

		s := smf.New()
		s.TimeFormat = test.res
		if err := s.Add(tr); err != nil {
			t.Errorf("%s: Add: %v", name, err)
			continue
		}
		var bf bytes.Buffer
		if _, err := s.WriteTo(&bf); err != nil {
			t.Errorf("%s: WriteTo: %v", name, err)
			continue
		}

		tracks, err := auditStrictSMF(bf.Bytes())
		if err != nil {
			t.Errorf("%s: the written file is not a valid SMF: %v\n    recorded delta: %d ticks (%#x)\n    file: % X", name, err, tr[2].Delta, tr[2].Delta, bf.Bytes())
			continue
		}
		if !reflect.DeepEqual(tracks[0], []smf.Event(tr)) {
			t.Errorf("%s: strict parser read %v, recorded %v", name, tracks[0], tr)
		}

		back, err := smf.ReadFrom(bytes.NewReader(bf.Bytes()))
		if err != nil {
			t.Errorf("%s: ReadFrom: %v", name, err)
			continue
		}
		if !reflect.DeepEqual(back.Tracks[0], tr) {
			t.Errorf("%s: read back %v, recorded %v", name, back.Tracks[0], tr)
		}
	}
}
