package smf_test

// Audit C13, violation 2: a silence whose conversion to ticks does not fit into 32 bits is
// recorded as a small, unrelated delta (the value wraps around modulo 2^32 on amd64).
// The file is written and read back without any error, but hours of silence have vanished.

import (
	"bytes"
	"fmt"
	"math"
	"testing"
	"time"

	"gitlab.com/gomidi/midi/v2/drivers/testdrv"
	"gitlab.com/gomidi/midi/v2/smf"
)

func TestAudit2LongSilenceWrapsAround(t *testing.T) {
	tests := []struct {
		res   smf.MetricTicks
		bpm   float64
		pause time.Duration
	}{
		// control: the conversion fits
		{15360, 400, 40 * time.Minute},
		// 12 h * 15360 * 400 / 60000 = 4423680000 ticks > 2^32
		{15360, 400, 12 * time.Hour},
		{15360, 120, 40 * time.Hour},
		{15360, 20, 10 * 24 * time.Hour},
		{960, 400, 8 * 24 * time.Hour},
		// the default resolution of smf.New(), a usual tempo
		{960, 130, 24 * 24 * time.Hour},
	}

	for _, test := range tests {
		name := fmt.Sprintf("res=%d bpm=%v silence=%v", test.res, test.bpm, test.pause)

		drv := testdrv.New("audit2")
		ins, _ := drv.Ins()
		outs, _ := drv.Outs()
		in, out := ins[0], outs[0]
		if err := out.Open(); err != nil {
			t.Fatal(err)
		}
		var tr smf.Track
		stop, err := tr.RecordFrom(in, test.res, test.bpm)
		if err != nil {
			t.Fatal(err)
		}
		drv.Sleep(time.Second)
		out.Send([]byte{0x90, 60, 100})
		drv.Sleep(test.pause)
		out.Send([]byte{0x80, 60, 0})
		stop()
		tr.Close(0)

		if len(tr) != 4 {
			t.Errorf("%s: recorded %d events, expected 4", name, len(tr))
			continue
		}

		s := smf.New()
		s.TimeFormat = test.res
		s.Add(tr)
		var bf bytes.Buffer
		if _, err := s.WriteTo(&bf); err != nil {
			t.Errorf("%s: WriteTo: %v", name, err)
			continue
		}
		back, err := smf.ReadFrom(bytes.NewReader(bf.Bytes()))
		if err != nil {
			t.Errorf("%s: ReadFrom: %v", name, err)
			continue
		}
		got := back.Tracks[0][2].Delta

		// what the statement requires: the conversion of the time stamp difference, to within one tick
		want := float64(test.pause.Milliseconds()) * float64(test.res) * test.bpm / 60000
		if math.Abs(float64(got)-want) > 1 {
			t.Errorf("%s: the time stamps of note on and note off differ by %d ms = %.0f ticks, but the recorded (and written and read back) delta is %d ticks = %v",
				name, test.pause.Milliseconds(), want, got, test.res.Duration(test.bpm, got))
		}
	}
}
