package testdrv_test

// Audit violation 1: a system exclusive message whose first chunk is put on the wire from inside
// the callback that receives the previous system exclusive message is lost.

import (
	"bytes"
	"fmt"
	"testing"

	"gitlab.com/gomidi/midi/v2"
	"gitlab.com/gomidi/midi/v2/drivers"
	"gitlab.com/gomidi/midi/v2/drivers/testdrv"
)

// observation point: callback of drivers.NewReader(...).EachMessage
func TestAudit1Reader(t *testing.T) {
	var got [][]byte
	var rd *drivers.Reader
	replied := false

	rd = drivers.NewReader(drivers.ListenConfig{SysEx: true, SysExBufferSize: 64}, func(b []byte, ts int32) {
		got = append(got, append([]byte(nil), b...))
		if !replied && b[0] == 0xF0 {
			replied = true
			// chunk 2 of the byte stream: the start of the next sysex
			rd.EachMessage([]byte{0xF0, 0x01}, 1)
		}
	})

	// wire: F0 7E F7 | F0 01 | 02 F7 | 90 40 50
	rd.EachMessage([]byte{0xF0, 0x7E, 0xF7}, 0) // chunk 1 (its last byte completes sysex A)
	rd.EachMessage([]byte{0x02, 0xF7}, 1)       // chunk 3 completes sysex B
	rd.EachMessage([]byte{0x90, 0x40, 0x50}, 1) // chunk 4

	want := [][]byte{{0xF0, 0x7E, 0xF7}, {0xF0, 0x01, 0x02, 0xF7}, {0x90, 0x40, 0x50}}
	if !equal(got, want) {
		t.Fatalf("wire F0 7E F7 | F0 01 | 02 F7 | 90 40 50\n got  %s\n want %s", show(got), show(want))
	}
}

// observation point: callback of midi.ListenTo on a testdrv loopback
func TestAudit1ListenTo(t *testing.T) {
	drv := testdrv.New("audit1")
	ins, _ := drv.Ins()
	outs, _ := drv.Outs()
	in, out := ins[0], outs[0]
	if err := out.Open(); err != nil {
		t.Fatal(err)
	}

	var got [][]byte
	replied := false

	stop, err := midi.ListenTo(in, func(m midi.Message, ts int32) {
		got = append(got, append([]byte(nil), m...))
		if !replied && m.Is(midi.SysExMsg) {
			replied = true
			// a responder that answers a request over the same loopback, its answer cut into two chunks
			out.Send([]byte{0xF0, 0x7E, 0x00, 0x06})
		}
	}, midi.UseSysEx(), midi.SysExBufferSize(64))
	if err != nil {
		t.Fatal(err)
	}
	defer stop()

	out.Send([]byte{0xF0, 0x7E, 0x7F, 0x06, 0x01, 0xF7}) // request; the reply's first chunk goes out in the callback
	out.Send([]byte{0x02, 0x41, 0xF7})                   // second chunk of the reply
	out.Send([]byte{0x90, 0x40, 0x50})

	want := [][]byte{
		{0xF0, 0x7E, 0x7F, 0x06, 0x01, 0xF7},
		{0xF0, 0x7E, 0x00, 0x06, 0x02, 0x41, 0xF7},
		{0x90, 0x40, 0x50},
	}
	if !equal(got, want) {
		t.Fatalf("\n got  %s\n want %s", show(got), show(want))
	}
}

func equal(a, b [][]byte) bool {
	if len(a) != len(b) {
		return false
	}
	for i := range a {
		if !bytes.Equal(a[i], b[i]) {
			return false
		}
	}
	return true
}

func show(a [][]byte) string {
	var s string
	for _, m := range a {
		s += fmt.Sprintf("[% X] ", m)
	}
	return s
}
