package testdrv_test

// Audit violation 3: the loopback truncates every delivery delta to whole milliseconds and forgets the
// remainder, so the time stamps are not the accumulated delivery time: they fall behind without bound.

import (
	"testing"
	"time"

	"gitlab.com/gomidi/midi/v2"
	"gitlab.com/gomidi/midi/v2/drivers/testdrv"
)

func TestAudit3SubMillisecondRemainderLost(t *testing.T) {
	drv := testdrv.New("audit3")
	ins, _ := drv.Ins()
	outs, _ := drv.Outs()
	in, out := ins[0], outs[0]
	if err := out.Open(); err != nil {
		t.Fatal(err)
	}

	var stamps []int32
	stop, err := midi.ListenTo(in, func(m midi.Message, ts int32) {
		stamps = append(stamps, ts)
	})
	if err != nil {
		t.Fatal(err)
	}
	defer stop()

	out.Send([]byte{0x90, 0x40, 0x50}) // reference message (delta 0)

	const n = 1000
	for i := 0; i < n; i++ {
		drv.Sleep(1500 * time.Microsecond) // delta 1.5ms
		out.Send([]byte{0x41, 0x50})       // running status
	}

	if len(stamps) != n+1 {
		t.Fatalf("got %d messages, want %d", len(stamps), n+1)
	}

	// accumulated delivery time of the last chunk, relative to the reference message: 1000 * 1.5ms = 1500ms
	got := stamps[n] - stamps[0]
	if got < 1499 || got > 1501 {
		t.Fatalf("1000 chunks, 1.5ms apart: last time stamp is %dms after the first, accumulated delivery time is 1500ms", got)
	}
}

func TestAudit3BelowOneMillisecond(t *testing.T) {
	drv := testdrv.New("audit3b")
	ins, _ := drv.Ins()
	outs, _ := drv.Outs()
	in, out := ins[0], outs[0]
	out.Open()

	var stamps []int32
	stop, err := midi.ListenTo(in, func(m midi.Message, ts int32) {
		stamps = append(stamps, ts)
	})
	if err != nil {
		t.Fatal(err)
	}
	defer stop()

	out.Send([]byte{0x90, 0x40, 0x50})
	for i := 0; i < 1000; i++ {
		drv.Sleep(900 * time.Microsecond)
		out.Send([]byte{0x41, 0x50}) // running status
	}
	got := stamps[len(stamps)-1] - stamps[0]
	if got < 899 || got > 901 {
		t.Fatalf("1000 chunks, 0.9ms apart: last time stamp is %dms after the first, accumulated delivery time is 900ms", got)
	}
}
