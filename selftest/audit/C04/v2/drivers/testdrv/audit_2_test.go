package testdrv_test

// Audit violation 2: the loopback measures the first delivery delta between two different clocks
// (the driver's virtual clock, started in New, and the wall clock read in Listen), so every time stamp
// is shifted by the wall-clock time that passed between New and Listen (and gets negative).

import (
	"testing"
	"time"

	"gitlab.com/gomidi/midi/v2"
	"gitlab.com/gomidi/midi/v2/drivers/testdrv"
)

func audit2Run(t *testing.T, wallBeforeListen time.Duration, virtualBeforeListen time.Duration) []int32 {
	drv := testdrv.New("audit2")
	ins, _ := drv.Ins()
	outs, _ := drv.Outs()
	in, out := ins[0], outs[0]
	if err := out.Open(); err != nil {
		t.Fatal(err)
	}

	if wallBeforeListen > 0 {
		time.Sleep(wallBeforeListen)
	}
	if virtualBeforeListen > 0 {
		drv.Sleep(virtualBeforeListen)
	}

	var stamps []int32
	stop, err := midi.ListenTo(in, func(m midi.Message, ts int32) {
		stamps = append(stamps, ts)
	})
	if err != nil {
		t.Fatal(err)
	}
	defer stop()

	// chunk 1 with delta 10ms, chunk 2 with delta 10ms, chunk 3 with delta 0
	drv.Sleep(10 * time.Millisecond)
	out.Send([]byte{0x90, 0x40, 0x50})
	drv.Sleep(10 * time.Millisecond)
	out.Send([]byte{0x41, 0x50}) // running status
	out.Send([]byte{0xB0, 0x07, 0x64})
	return stamps
}

func audit2Check(t *testing.T, stamps []int32) {
	want := []int32{10, 20, 20}
	if len(stamps) != len(want) {
		t.Fatalf("got %d messages, want %d", len(stamps), len(want))
	}
	for i := range want {
		if stamps[i] != want[i] {
			t.Fatalf("deltas 10ms, 10ms, 0ms: time stamps %v, want %v", stamps, want)
		}
	}
}

// the program did something else for 30ms between creating the driver and listening
func TestAudit2WallClockBeforeListen(t *testing.T) {
	audit2Check(t, audit2Run(t, 30*time.Millisecond, 0))
}

// listening directly after New: still one millisecond is lost (9, 19, 19)
func TestAudit2Immediately(t *testing.T) {
	audit2Check(t, audit2Run(t, 0, 0))
}

// virtual time that passed before listening started is added to every time stamp
func TestAudit2VirtualSleepBeforeListen(t *testing.T) {
	audit2Check(t, audit2Run(t, 0, time.Hour))
}
