package midicat

import (
	"bytes"
	"fmt"
	"io"
	"strings"
	"testing"
	"testing/iotest"
)

// fragmentations used by the audit tests
func auditReaders(s string) map[string]io.Reader {
	return map[string]io.Reader{
		"whole":   strings.NewReader(s),
		"onebyte": iotest.OneByteReader(strings.NewReader(s)),
		"half":    iotest.HalfReader(strings.NewReader(s)),
		"dataerr": iotest.DataErrReader(strings.NewReader(s)),
	}
}

func isHexOrFraming(c byte) bool {
	switch {
	case c >= '0' && c <= '9', c >= 'a' && c <= 'f', c >= 'A' && c <= 'F':
		return true
	case c == ' ', c == '\n':
		return true
	}
	return false
}

// A line whose time stamp field was mutated to contain a non-hex character
// ("12x 903C40", "1\x002 903C40", "\t12 903C40", ...) must yield an error.
// The decoder returns a record with a made-up time stamp and no error instead.
func TestAudit1NonHexCharacterInTimeStampIsAccepted(t *testing.T) {
	const ts = "120"
	const hexmsg = "903C40"
	next := "77 B0\n"

	var accepted []string

	check := func(line string) {
		for name, rd := range auditReaders(line + next) {
			out, d, err := ReadAndConvert(rd)
			if err == nil {
				accepted = append(accepted, fmt.Sprintf("%-8s %q -> record (%d, %X), err=nil", name, line, d, out))
			}
			// the following line must always come out intact
			out2, d2, err2 := ReadAndConvert(rd)
			if err2 != nil || d2 != 77 || !bytes.Equal(out2, []byte{0xB0}) {
				t.Errorf("%s %q: following line decoded as (%d, %X, %v)", name, line, d2, out2, err2)
			}
		}
	}

	for c := 0; c < 256; c++ {
		if isHexOrFraming(byte(c)) {
			continue
		}
		ch := string([]byte{byte(c)})
		for pos := 0; pos < len(ts); pos++ {
			// non-hex character replaces one digit of the time stamp
			check(ts[:pos] + ch + ts[pos+1:] + " " + hexmsg + "\n")
		}
		for pos := 0; pos <= len(ts); pos++ {
			// non-hex character inserted into the time stamp
			check(ts[:pos] + ch + ts[pos:] + " " + hexmsg + "\n")
		}
	}

	if len(accepted) > 0 {
		max := len(accepted)
		if max > 25 {
			max = 25
		}
		t.Errorf("%d malformed lines (non-hex character in the time stamp field) were decoded without error; first %d:\n%s",
			len(accepted), max, strings.Join(accepted[:max], "\n"))
	}
}

// Consequence of the same root cause: a line that lost its separator and its terminator is glued to
// the next line; the glued time stamp field "12B03C407" is obviously not a number, but the decoder
// takes its leading digits and returns a record made up from the two neighbouring lines.
func TestAudit1GluedLinesGiveMadeUpRecord(t *testing.T) {
	// records: (12, B03C40) (7, 903C00) (5, 80)
	// first line lost ' ' and '\n'
	stream := "12B03C40" + "7 903C00\n" + "5 80\n"
	for name, rd := range auditReaders(stream) {
		out, d, err := ReadAndConvert(rd)
		if err == nil {
			t.Errorf("%s: glued line \"12B03C407 903C00\" decoded as record (%d, %X) without error", name, d, out)
		}
		out2, d2, err2 := ReadAndConvert(rd)
		if err2 != nil || d2 != 5 || !bytes.Equal(out2, []byte{0x80}) {
			t.Errorf("%s: following line decoded as (%d, %X, %v)", name, d2, out2, err2)
		}
	}
}
