package midicat

import (
	"bytes"
	"io"
	"testing"
)

// A malformed line whose time stamp field holds no digit ("- 903C40", "+ 903C40": the single digit
// of the time stamp was replaced by a non-hex character) is reported with the error value io.EOF,
// although the stream has not ended: the next call delivers the next record.
// A consumer that ends its loop on io.EOF (the only end-of-stream signal of the decoder, used so by
// tools/midicat) loses every following record; the line protocol is not self-framing for it.
func TestAudit2MalformedLineReportedAsEOF(t *testing.T) {
	for _, bad := range []string{"- 903C40\n", "+ 903C40\n"} {
		stream := "3 B0\n" + bad + "77 903C00\n"
		for name, rd := range auditReaders(stream) {
			var got [][]byte
			// canonical consumer: one record per call, until io.EOF, malformed lines are skipped
			for i := 0; i < 10; i++ {
				out, _, err := ReadAndConvert(rd)
				if err == io.EOF {
					break
				}
				if err != nil {
					continue
				}
				got = append(got, out)
			}
			if len(got) != 2 || !bytes.Equal(got[0], []byte{0xB0}) || !bytes.Equal(got[1], []byte{0x90, 0x3C, 0x00}) {
				t.Errorf("%s %q: consumer got %X, want [B0 903C00]: the malformed line was reported as io.EOF in the middle of the stream", name, bad, got)
			}
		}
	}
}
