package smf

import (
	"bytes"
	"fmt"
	"testing"

	"gitlab.com/gomidi/midi/v2"
)

// Audit finding 1 (property C16): ConvertToSMF1 re-deltas every resulting track with
//
//	delta := uint32(ev.AbsTicks - lastAbs)      (smf.go:123 and smf.go:140)
//
// AbsTicks is an int64 sum of the source deltas. The distance between two neighbours of a
// *resulting* track is the sum of all source deltas in between (the events that went to other
// tracks), and that sum is not bounded by 32 bits even if every single source delta is a legal
// 4-byte variable length quantity (<= 0x0FFFFFFF). The conversion to uint32 silently drops the
// upper bits, so the message (and everything after it on that track) lands 2^32 ticks too early.

type audit1Abs struct {
	abs int64
	msg string
}

func audit1AbsList(t Track) (out []audit1Abs) {
	var abs int64
	for _, ev := range t {
		abs += int64(ev.Delta)
		out = append(out, audit1Abs{abs, fmt.Sprintf("% X", []byte(ev.Message))})
	}
	return
}

// audit1Check compares, per message, the absolute tick in the source track with the absolute
// tick in the converted file (messages are made unique by the callers, so the lookup is exact).
func audit1Check(t *testing.T, src *SMF) {
	t.Helper()
	if src.Format() != 0 || len(src.Tracks) != 1 {
		t.Fatalf("source is not a single-track format 0 file: format %v, %v tracks", src.Format(), len(src.Tracks))
	}
	want := map[string]int64{}
	for _, a := range audit1AbsList(src.Tracks[0]) {
		if a.msg == "FF 2F 00" {
			continue
		}
		if _, dup := want[a.msg]; dup {
			t.Fatalf("test bug: message % v not unique", a.msg)
		}
		want[a.msg] = a.abs
	}

	dest := src.ConvertToSMF1()

	seen := 0
	for trackno, tr := range dest.Tracks {
		if !tr.IsClosed() {
			t.Errorf("track %v is not closed", trackno)
		}
		for _, a := range audit1AbsList(tr) {
			if a.msg == "FF 2F 00" {
				continue
			}
			seen++
			w, has := want[a.msg]
			if !has {
				t.Errorf("track %v: message [% v] is not in the source", trackno, a.msg)
				continue
			}
			if w != a.abs {
				t.Errorf("track %v: message [%v] is at absolute tick %v in the source, but at %v after ConvertToSMF1 (difference %v = %v * 2^32)",
					trackno, a.msg, w, a.abs, w-a.abs, (w-a.abs)>>32)
			}
		}
	}
	if seen != len(want) {
		t.Errorf("source has %v messages, result has %v", len(want), seen)
	}
}

// every delta is a legal 4-byte VLQ (0x0FFFFFFF); the file is written and read back by the
// library itself, so it is a genuine format 0 file. Channel 0 has a note on at tick 0 and the
// note off after 17 meta events.
func TestAudit1ChannelTrackDeltaWraps(t *testing.T) {
	var tr Track
	tr.Add(0, midi.NoteOn(0, 60, 100))
	for i := 0; i < 17; i++ {
		tr.Add(0x0FFFFFFF, MetaText(fmt.Sprintf("marker %02d", i)))
	}
	tr.Add(0, midi.NoteOff(0, 60))
	tr.Close(0)

	s := New()
	s.TimeFormat = MetricTicks(96)
	if err := s.Add(tr); err != nil {
		t.Fatal(err)
	}

	var bf bytes.Buffer
	if _, err := s.WriteTo(&bf); err != nil {
		t.Fatal(err)
	}
	src, err := ReadFrom(bytes.NewReader(bf.Bytes()))
	if err != nil {
		t.Fatal(err)
	}

	audit1Check(t, src)
}

// the same on the first track: a lyric at tick 0, then 17 notes on 16 channels, then a second
// lyric: the delta of the second lyric on the meta track wraps (and so does the end of track).
func TestAudit1MetaTrackDeltaWraps(t *testing.T) {
	var tr Track
	tr.Add(0, MetaLyric("first"))
	for i := 0; i < 17; i++ {
		tr.Add(0x0FFFFFFF, midi.NoteOn(uint8(i%16), uint8(40+i), 100))
	}
	tr.Add(0, MetaLyric("second"))
	tr.Add(0, []byte{0xF0, 0x7E, 0x7F, 0x09, 0x01, 0xF7})
	tr.Close(0)

	s := New()
	if err := s.Add(tr); err != nil {
		t.Fatal(err)
	}
	audit1Check(t, s)
}

// smallest history, in memory only (Event.Delta is a uint32, the reader and the writer of the
// library accept such deltas): 2^32 ticks between two messages of channel 3.
func TestAudit1Smallest(t *testing.T) {
	var tr Track
	tr.Add(0, midi.ControlChange(3, 7, 100))
	tr.Add(0xFFFFFFFF, MetaText("a"))
	tr.Add(1, MetaText("b"))
	tr.Add(0, midi.ControlChange(3, 7, 101))
	tr.Close(0)

	s := New()
	if err := s.Add(tr); err != nil {
		t.Fatal(err)
	}
	audit1Check(t, s)
}
