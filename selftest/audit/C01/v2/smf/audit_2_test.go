package smf_test

import (
	"bytes"
	"fmt"
	"testing"

	"gitlab.com/gomidi/midi/v2"
	"gitlab.com/gomidi/midi/v2/smf"
)

// Violation 2: the track side decides "closed" by reflect.DeepEqual(last.Message, EOT) (bytes FF 2F 00),
// the reader decides "end of track" by the meta TYPE byte 0x2F alone. A meta message of type 0x2F that
// carries data (smf.MetaUndefined(0x2F, data), public API) therefore does not close the track when it is
// added, is written as it is, and on reading (a) ends the track, (b) is replaced by the canonical FF 2F 00.
func TestAudit2MetaType2FWithData(t *testing.T) {
	for _, nrs := range []bool{false, true} {
		s := smf.New()
		s.NoRunningStatus = nrs
		var tr smf.Track
		tr.Add(0, midi.NoteOn(0, 60, 100))
		tr.Add(3, smf.MetaUndefined(0x2F, []byte{0x01}))
		tr.Add(4, midi.NoteOff(0, 60))
		tr.Close(10)
		if err := s.Add(tr); err != nil {
			t.Fatalf("SMF.Add: %v", err)
		}
		audit2RoundTrip(t, s)
	}
}

// as the last message of a track: the message bytes change (FF 2F 01 01 -> FF 2F 00) and the automatically
// added end of track disappears
func TestAudit2MetaType2FWithDataAtEnd(t *testing.T) {
	s := smf.New()
	var tr smf.Track
	tr.Add(0, midi.NoteOn(0, 60, 100))
	tr.Add(3, smf.MetaUndefined(0x2F, []byte{0x01}))
	s.Add(tr) // WriteTo closes the track
	audit2RoundTrip(t, s)
}

// in a track that is not the last one the written file is unreadable
func TestAudit2MetaType2FWithDataFirstTrack(t *testing.T) {
	s := smf.NewSMF1()
	var tr smf.Track
	tr.Add(3, smf.MetaUndefined(0x2F, []byte{0x01}))
	tr.Add(4, midi.NoteOff(0, 60))
	tr.Close(0)
	s.Add(tr)
	var tr2 smf.Track
	tr2.Close(0)
	s.Add(tr2)
	audit2RoundTrip(t, s)
}

// audit2Dump renders everything the round trip property talks about:
// format, time division, number of tracks and per track the (delta, message bytes) sequence.
func audit2Dump(s *smf.SMF) string {
	var bf bytes.Buffer
	fmt.Fprintf(&bf, "format=%d timeformat=%#v tracks=%d\n", s.Format(), s.TimeFormat, len(s.Tracks))
	for i, tr := range s.Tracks {
		for j, ev := range tr {
			fmt.Fprintf(&bf, "  track %d event %d delta=%d msg=% X\n", i, j, ev.Delta, []byte(ev.Message))
		}
	}
	return bf.String()
}

// audit2RoundTrip writes s, reads the bytes back and fails if the content differs
// (the written value is taken AFTER WriteTo, i.e. including the automatically added end of track).
func audit2RoundTrip(t *testing.T, s *smf.SMF) {
	t.Helper()
	var bf bytes.Buffer
	if _, err := s.WriteTo(&bf); err != nil {
		t.Fatalf("WriteTo failed: %v", err)
	}
	want := audit2Dump(s)
	back, err := smf.ReadFrom(bytes.NewReader(bf.Bytes()))
	if err != nil {
		t.Fatalf("WriteTo succeeded, but ReadFrom of the written bytes failed: %v\nwritten value:\n%sfile: % X", err, want, bf.Bytes())
	}
	if got := audit2Dump(back); got != want {
		t.Fatalf("round trip is not the identity\nwritten value:\n%sread back:\n%sfile: % X", want, got, bf.Bytes())
	}
}
