package smf_test

import (
	"bytes"
	"fmt"
	"testing"

	"gitlab.com/gomidi/midi/v2"
	"gitlab.com/gomidi/midi/v2/smf"
)

// Violation 1: a multi-message Track.Add checks "is the track closed" only once, before the loop.
// If one of the messages is the end-of-track meta message (smf.EOT), the messages after it are
// still appended, so the track holds an end of track in the middle. WriteTo writes that faithfully
// (and appends a second end of track), the reader ends the track at the FIRST end of track.

// the single-message history drops everything after the end of track and round trips ...
func TestAudit1ControlSingleAdds(t *testing.T) {
	for _, nrs := range []bool{false, true} {
		s := smf.New()
		s.NoRunningStatus = nrs
		var tr smf.Track
		tr.Add(0, midi.NoteOn(0, 60, 100))
		tr.Add(0, smf.EOT)
		tr.Add(0, midi.NoteOff(0, 60))
		tr.Close(10)
		s.Add(tr)
		audit1RoundTrip(t, s)
	}
}

// ... the same messages in ONE Add call do not: in the last (only) track the tail is lost silently.
func TestAudit1MultiAddLastTrack(t *testing.T) {
	for _, nrs := range []bool{false, true} {
		s := smf.New()
		s.NoRunningStatus = nrs
		var tr smf.Track
		tr.Add(0, midi.NoteOn(0, 60, 100), smf.EOT, midi.NoteOff(0, 60))
		tr.Close(10)
		if err := s.Add(tr); err != nil {
			t.Fatalf("SMF.Add: %v", err)
		}
		audit1RoundTrip(t, s)
	}
}

// in a track that is not the last one the file that WriteTo produced without error cannot be read at all.
func TestAudit1MultiAddFirstTrack(t *testing.T) {
	s := smf.NewSMF1()
	var tr smf.Track
	tr.Add(0, midi.NoteOn(0, 60, 100), smf.EOT, midi.NoteOff(0, 60))
	tr.Close(10)
	s.Add(tr)
	var tr2 smf.Track
	tr2.Add(0, midi.NoteOn(1, 60, 100))
	tr2.Close(0)
	s.Add(tr2)
	audit1RoundTrip(t, s)
}

// A further route to the same state that uses nothing but Track.Add, Track.Close and SMF.Add:
// SMF.Add stores a copy of the slice header; Close on the caller's variable writes the end of track
// into the spare capacity that the stored track has meanwhile filled.
func TestAudit1ViaSharedCapacity(t *testing.T) {
	s := smf.New()
	var tr smf.Track
	for i := 0; i < 6; i++ { // len 6, cap 8
		tr.Add(1, midi.NoteOn(0, uint8(60+i), 100))
	}
	s.Add(tr)                               // not closed yet: Add reports that, but keeps the track
	s.Tracks[0].Add(5, midi.NoteOff(0, 60)) // slot 6
	s.Tracks[0].Add(5, midi.NoteOff(0, 61)) // slot 7
	tr.Close(158)                           // slot 6 of the shared array becomes EOT
	audit1RoundTrip(t, s)
}

// audit1Dump renders everything the round trip property talks about:
// format, time division, number of tracks and per track the (delta, message bytes) sequence.
func audit1Dump(s *smf.SMF) string {
	var bf bytes.Buffer
	fmt.Fprintf(&bf, "format=%d timeformat=%#v tracks=%d\n", s.Format(), s.TimeFormat, len(s.Tracks))
	for i, tr := range s.Tracks {
		for j, ev := range tr {
			fmt.Fprintf(&bf, "  track %d event %d delta=%d msg=% X\n", i, j, ev.Delta, []byte(ev.Message))
		}
	}
	return bf.String()
}

// audit1RoundTrip writes s, reads the bytes back and fails if the content differs
// (the written value is taken AFTER WriteTo, i.e. including the automatically added end of track).
func audit1RoundTrip(t *testing.T, s *smf.SMF) {
	t.Helper()
	var bf bytes.Buffer
	if _, err := s.WriteTo(&bf); err != nil {
		t.Fatalf("WriteTo failed: %v", err)
	}
	want := audit1Dump(s)
	back, err := smf.ReadFrom(bytes.NewReader(bf.Bytes()))
	if err != nil {
		t.Fatalf("WriteTo succeeded, but ReadFrom of the written bytes failed: %v\nwritten value:\n%sfile: % X", err, want, bf.Bytes())
	}
	if got := audit1Dump(back); got != want {
		t.Fatalf("round trip is not the identity\nwritten value:\n%sread back:\n%sfile: % X", want, got, bf.Bytes())
	}
}
