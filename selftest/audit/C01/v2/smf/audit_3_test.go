package smf_test

import (
	"bytes"
	"testing"

	"gitlab.com/gomidi/midi/v2"
	"gitlab.com/gomidi/midi/v2/smf"
)

// Violation 3: WriteTo puts uint16(len(s.Tracks)) into the header. With more than 65535 tracks the
// number wraps around: 65537 tracks are written as 65537 MTrk chunks under a header that announces
// 1 track, without any error; reading gives 1 track, again without any error.
func TestAudit3TrackCountWrapsAround(t *testing.T) {
	const n = 65537
	s := smf.NewSMF1()
	for i := 0; i < n; i++ {
		var tr smf.Track
		tr.Add(uint32(i), midi.NoteOn(uint8(i%16), uint8(i%128), 100))
		tr.Close(0)
		if err := s.Add(tr); err != nil {
			t.Fatalf("SMF.Add: %v", err)
		}
	}
	var bf bytes.Buffer
	if _, err := s.WriteTo(&bf); err != nil {
		t.Skipf("WriteTo refused: %v (that would be fine)", err)
	}
	back, err := smf.ReadFrom(bytes.NewReader(bf.Bytes()))
	if err != nil {
		t.Fatalf("WriteTo succeeded, ReadFrom failed: %v", err)
	}
	if len(back.Tracks) != n {
		t.Fatalf("wrote %d tracks without error (%d bytes, header announces % X), read back %d tracks without error",
			n, bf.Len(), bf.Bytes()[10:12], len(back.Tracks))
	}
}
