package smf

import (
	"bytes"
	"fmt"
	"testing"
)

// A spec-valid SMF 1.0 file, built at byte level: format 1, two tracks, 96 ticks per quarter note.
//
//	track 0: delta 0 FF 51 03 07 A1 20 (tempo), delta 5 FF 2F 00 (end of track)
//	track 1: delta 0 90 3C 40, delta 0x60 (running status) 3C 00, delta 0 FF 2F 00 (end of track)
var audit1File = []byte{
	'M', 'T', 'h', 'd', 0, 0, 0, 6, 0, 1, 0, 2, 0, 96,
	'M', 'T', 'r', 'k', 0, 0, 0, 11,
	0x00, 0xFF, 0x51, 0x03, 0x07, 0xA1, 0x20,
	0x05, 0xFF, 0x2F, 0x00,
	'M', 'T', 'r', 'k', 0, 0, 0, 11,
	0x00, 0x90, 0x3C, 0x40,
	0x60, 0x3C, 0x00,
	0x00, 0xFF, 0x2F, 0x00,
}

type audit1Event struct {
	delta uint32
	bytes []byte
}

// what an independent decoder of the specification yields for audit1File
var audit1Want = [][]audit1Event{
	{
		{0, []byte{0xFF, 0x51, 0x03, 0x07, 0xA1, 0x20}},
		{5, []byte{0xFF, 0x2F, 0x00}},
	},
	{
		{0, []byte{0x90, 0x3C, 0x40}},
		{0x60, []byte{0x90, 0x3C, 0x00}},
		{0, []byte{0xFF, 0x2F, 0x00}},
	},
}

func audit1Check(s *SMF) error {
	if len(s.Tracks) != len(audit1Want) {
		return fmt.Errorf("got %d tracks, want %d", len(s.Tracks), len(audit1Want))
	}
	for ti, want := range audit1Want {
		got := s.Tracks[ti]
		if len(got) != len(want) {
			return fmt.Errorf("track %d: got %d events, want %d", ti, len(got), len(want))
		}
		for ei := range want {
			if got[ei].Delta != want[ei].delta || !bytes.Equal(got[ei].Message, want[ei].bytes) {
				return fmt.Errorf("track %d event %d: got delta %d message % X, want delta %d message % X",
					ti, ei, got[ei].Delta, []byte(got[ei].Message), want[ei].delta, want[ei].bytes)
			}
		}
	}
	return nil
}

// The end-of-track events of every value returned by ReadFrom are not decoded values of their own: all of
// them (every track, every result) are the one package-level slice smf.EOT. A caller that edits the value
// it got from one read changes the events of all other read results and of every later read of a valid file.
func TestAudit1EndOfTrackIsSharedBetweenReadResults(t *testing.T) {
	defer func() {
		// do not poison the other tests of the package
		copy(EOT, []byte{0xFF, 0x2F, 0x00})
	}()

	first, err := ReadFrom(bytes.NewReader(audit1File))
	if err != nil {
		t.Fatalf("first read: %v", err)
	}
	if err := audit1Check(first); err != nil {
		t.Fatalf("first read (nothing edited yet): %v", err)
	}

	second, err := ReadFrom(bytes.NewReader(audit1File))
	if err != nil {
		t.Fatalf("second read: %v", err)
	}
	if err := audit1Check(second); err != nil {
		t.Fatalf("second read (nothing edited yet): %v", err)
	}

	// The caller works on the value it owns: in the FIRST result, the last event of track 0 is turned
	// into a marker (FF 06 00) in place, e.g. as the first step of extending that track.
	tr0 := first.Tracks[0]
	tr0[len(tr0)-1].Message[1] = 0x06

	// 1. the other track of the same result was never touched
	tr1 := first.Tracks[1]
	if got := []byte(tr1[len(tr1)-1].Message); !bytes.Equal(got, []byte{0xFF, 0x2F, 0x00}) {
		t.Errorf("first result: editing the last event of track 0 changed the last event of track 1 to % X", got)
	}

	// 2. the second result was never touched at all
	if err := audit1Check(second); err != nil {
		t.Errorf("second result changed although only the first result was edited: %v", err)
	}

	// 3. a fresh read of the same valid byte stream
	third, err := ReadFrom(bytes.NewReader(audit1File))
	if err != nil {
		t.Fatalf("third read: %v", err)
	}
	if err := audit1Check(third); err != nil {
		t.Errorf("third read of the same valid file, after the first result was edited: %v", err)
	}
}

// The same sharing through append: the shared slice has len 3 and cap 8, so appending to the end-of-track
// message of one result writes into memory that the append to the end-of-track message of another result
// uses as well.
func TestAudit1AppendToEndOfTrackOfTwoResults(t *testing.T) {
	a, err := ReadFrom(bytes.NewReader(audit1File))
	if err != nil {
		t.Fatal(err)
	}
	b, err := ReadFrom(bytes.NewReader(audit1File))
	if err != nil {
		t.Fatal(err)
	}

	ma := a.Tracks[0][len(a.Tracks[0])-1].Message
	mb := b.Tracks[1][len(b.Tracks[1])-1].Message

	xa := append(ma, 0x01, 0x02, 0x03)
	xb := append(mb, 0x04, 0x05, 0x06)

	if !bytes.Equal(xa, []byte{0xFF, 0x2F, 0x00, 0x01, 0x02, 0x03}) {
		t.Errorf("bytes appended to an event of result a were overwritten by an append to an event of result b: % X (len %d cap %d of the read message)",
			[]byte(xa), len(ma), cap(ma))
	}
	_ = xb
}
