package smf

import (
	"bytes"
	"testing"
)

// C08 (borderline, see audit/REPORT.md): "at most one type-specific accessor accepts it" presupposes
// that "the accessor accepts the message" is a property of the message. For GetMetaTempo it is not:
// a tempo message with less than three data bytes is accepted when the caller passes no destination
// and rejected when he passes one. All other accessors answer the same with and without destinations.

func TestAudit4GetMetaTempoAcceptanceDependsOnDestination(t *testing.T) {
	var bad int
	check := func(origin string, m Message) {
		var bpm float64
		without := m.GetMetaTempo(nil)
		with := m.GetMetaTempo(&bpm)
		if with != without {
			bad++
			if bad <= 6 || origin != "bytes" {
				t.Errorf("%s % X (type %v): GetMetaTempo(nil) = %v, GetMetaTempo(&bpm) = %v, String() = %q",
					origin, []byte(m), m.Type(), without, with, m.String())
			}
		}
	}

	// all tempo messages with 0, 1 and 2 bytes after the type byte, and a sample with 3
	check("bytes", Message{0xFF, 0x51})
	for a := 0; a < 256; a++ {
		check("bytes", Message{0xFF, 0x51, byte(a)})
		for b := 0; b < 256; b++ {
			check("bytes", Message{0xFF, 0x51, byte(a), byte(b)})
			check("bytes", Message{0xFF, 0x51, 0x02, byte(a), byte(b)})
		}
	}

	// from the constructors
	check("MetaUndefined(0x51, {7})", MetaUndefined(0x51, []byte{7}))
	check("MetaTempo(120)", MetaTempo(120))

	// from the reader: a tempo event with two data bytes
	file := []byte{
		'M', 'T', 'h', 'd', 0, 0, 0, 6, 0, 0, 0, 1, 0, 96,
		'M', 'T', 'r', 'k', 0, 0, 0, 10,
		0x00, 0xFF, 0x51, 0x02, 0x07, 0xA1,
		0x00, 0xFF, 0x2F, 0x00,
	}
	s, err := ReadFrom(bytes.NewReader(file))
	if err != nil {
		t.Fatalf("can't read the file: %v", err)
	}
	check("read from file:", s.Tracks[0][0].Message)

	if bad > 0 {
		t.Errorf("%d messages are accepted or rejected depending on the destination argument", bad)
	}
}
