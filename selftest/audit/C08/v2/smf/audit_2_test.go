package smf

import (
	"encoding/hex"
	"fmt"
	"os"
	"os/exec"
	"runtime"
	"strconv"
	"strings"
	"syscall"
	"testing"
)

// C08: "For every byte string, asking for ... its string form never panics".
//
// A 7 byte file-level message whose second byte is one of the text meta types
// and whose (non canonical, but perfectly decodable) variable length quantity
// claims 0xFFFFFFFF bytes makes Message.String() (and GetMetaText(&s) etc.)
// allocate a 4 GiB buffer before it finds out that only 0 bytes follow.
// In a process that may not use 4 GiB the Go runtime does not even panic,
// it dies with the unrecoverable "fatal error: runtime: out of memory".
//
// To stay below the memory budget of this demonstration the call is made in a
// child process (the test binary itself) whose address space is limited to 1 GiB.

const audit2Env = "AUDIT2_CHILD_MSG"

// the address space the child may use
const audit2Limit = 1 << 30

func TestAudit2Child(t *testing.T) {
	h := os.Getenv(audit2Env)
	if h == "" {
		t.Skip("helper of TestAudit2StringOfShortTextMetaKillsProcess")
	}
	bt, err := hex.DecodeString(h)
	if err != nil {
		t.Fatal(err)
	}
	lim := syscall.Rlimit{Cur: audit2Limit, Max: audit2Limit}
	if err := syscall.Setrlimit(syscall.RLIMIT_AS, &lim); err != nil {
		fmt.Println("AUDIT2-NOLIMIT", err)
		return
	}
	defer func() {
		if p := recover(); p != nil {
			fmt.Println("AUDIT2-PANIC", p)
		}
	}()
	s := Message(bt).String()
	fmt.Printf("AUDIT2-OK %q\n", s)
}

func audit2Run(t *testing.T, m Message) (out string, err error) {
	cmd := exec.Command(os.Args[0], "-test.run=^TestAudit2Child$", "-test.v")
	cmd.Env = append(os.Environ(), audit2Env+"="+hex.EncodeToString(m))
	b, err := cmd.CombinedOutput()
	return string(b), err
}

func TestAudit2StringOfShortTextMetaKillsProcess(t *testing.T) {
	// control: the limit alone does no harm, an ordinary track name is printed
	out, err := audit2Run(t, MetaTrackSequenceName("abc"))
	if err != nil || !strings.Contains(out, "AUDIT2-OK") {
		t.Skipf("the control run did not work in this environment (%v):\n%s", err, out)
	}
	t.Logf("control   % X: %s", []byte(MetaTrackSequenceName("abc")), lineWith(out, "AUDIT2-"))

	for _, m := range []Message{
		{0xFF, 0x03, 0x8F, 0xFF, 0xFF, 0xFF, 0x7F}, // track name
		{0xFF, 0x01, 0xFF, 0xFF, 0xFF, 0xFF, 0x7F}, // text
		{0xFF, 0x05, 0x8F, 0xFF, 0xFF, 0xFF, 0x7F}, // lyric
	} {
		// the classification itself is fine
		if !m.Is(MetaMsg) {
			t.Fatalf("% X is no meta message", []byte(m))
		}
		out, err := audit2Run(t, m)
		if err == nil && strings.Contains(out, "AUDIT2-OK") {
			t.Logf("% X: %s", []byte(m), lineWith(out, "AUDIT2-"))
			continue
		}
		t.Errorf("String() of the %d byte message % X (type %v) in a process with %d MiB of address space: %v\n%s",
			len(m), []byte(m), m.Type(), audit2Limit>>20, err, head(out, 12))
	}
}

func lineWith(out, sub string) string {
	for _, l := range strings.Split(out, "\n") {
		if strings.Contains(l, sub) {
			return l
		}
	}
	return ""
}

func head(out string, n int) string {
	ls := strings.Split(out, "\n")
	if len(ls) > n {
		ls = append(ls[:n], "...")
	}
	return "    | " + strings.Join(ls, "\n    | ")
}

// the same root cause without a second process: even the largest length the SMF specification
// allows (0FFFFFFF, canonical four byte quantity) costs 256 MiB for a six byte message.
func TestAudit2StringOfSixBytesAllocates(t *testing.T) {
	m := Message{0xFF, 0x03, 0xFF, 0xFF, 0xFF, 0x7F}
	var before, after runtime.MemStats
	runtime.ReadMemStats(&before)
	s := m.String()
	runtime.ReadMemStats(&after)
	got := after.TotalAlloc - before.TotalAlloc
	t.Logf("% X -> %q, allocated %d bytes", []byte(m), s, got)
	if got > 1<<20 {
		t.Errorf("String() of the %d byte message % X allocated %d MiB", len(m), []byte(m), got>>20)
	}
}

// On platforms with a 32 bit int the same call is a plain (recoverable) run time panic:
//
//	GOARCH=386 CGO_ENABLED=0 go test -vet=off -count=1 -run TestAudit2StringPanicsWith32BitInt ./smf/
func TestAudit2StringPanicsWith32BitInt(t *testing.T) {
	if strconv.IntSize != 32 {
		t.Skip("needs GOARCH=386 (or another platform with a 32 bit int)")
	}
	for _, m := range []Message{
		{0xFF, 0x03, 0x8F, 0xFF, 0xFF, 0xFF, 0x7F},
		{0xFF, 0x01, 0x88, 0x80, 0x80, 0x80, 0x00},
	} {
		func() {
			defer func() {
				if p := recover(); p != nil {
					t.Errorf("String() of % X (type %v) panics: %v", []byte(m), m.Type(), p)
				}
			}()
			_ = m.String()
		}()
		func() {
			defer func() {
				if p := recover(); p != nil {
					t.Errorf("the text accessors of % X (type %v) panic: %v", []byte(m), m.Type(), p)
				}
			}()
			var s string
			_ = m.GetMetaTrackName(&s)
			_ = m.GetMetaText(&s)
		}()
	}
}
