package smf

import (
	"bytes"
	"testing"

	"gitlab.com/gomidi/midi/v2"
)

// C08: a file-level message "belongs to exactly one of the categories", "a leading FF byte means
// a meta event rather than a reset", and the classification is unambiguous.
//
// smf.Message has two public ways to ask for membership in the meta category: IsMeta() and
// Is(smf.MetaMsg). For every FF message whose second byte is not one of the 18 known meta types
// (and for the lone FF) they contradict each other: IsMeta() says "meta", Is(MetaMsg) says "not
// meta" and Is(UnknownMsg) says "unknown". So the message is in two categories (meta and unknown)
// or in one, depending on which of the two public predicates is used. The type that the package
// declares for exactly this case (MetaUndefinedMsg, "an undefined MIDI meta message") is never
// reported, not even for the result of the constructor MetaUndefined.

func audit3Categories(m Message) (isCats []string, isMeta bool) {
	for _, c := range []struct {
		n string
		t midi.Type
	}{
		{"channel", midi.ChannelMsg}, {"syscommon", midi.SysCommonMsg}, {"realtime", midi.RealTimeMsg},
		{"sysex", midi.SysExMsg}, {"meta", MetaMsg}, {"unknown", midi.UnknownMsg},
	} {
		if m.Is(c.t) {
			isCats = append(isCats, c.n)
		}
	}
	return isCats, m.IsMeta()
}

func TestAudit3MetaCategoryAmbiguous(t *testing.T) {
	var bad, total, shown int
	check := func(origin string, m Message) {
		total++
		cats, isMeta := audit3Categories(m)
		if len(cats) != 1 {
			t.Errorf("%s % X: Is() puts it into %v", origin, []byte(m), cats)
			return
		}
		if isMeta != (cats[0] == "meta") {
			bad++
			if shown < 4 || origin != "bytes" {
				shown++
				t.Errorf("%s % X: IsMeta() = %v but Is(MetaMsg) = %v, category by Is(): %s, Type() = %v, String() = %q",
					origin, []byte(m), isMeta, m.Is(MetaMsg), cats[0], m.Type(), m.String())
			}
		}
	}

	// exhaustively all strings of length 0..3 with a leading FF (the only ones for which IsMeta can be true),
	// and all others of length 0..2
	check("bytes", nil)
	for a := 0; a < 256; a++ {
		check("bytes", Message{byte(a)})
		for b := 0; b < 256; b++ {
			check("bytes", Message{byte(a), byte(b)})
			if a != 0xFF {
				continue
			}
			for c := 0; c < 256; c++ {
				check("bytes", Message{byte(a), byte(b), byte(c)})
			}
		}
	}

	// the meta constructor for exactly this kind of message
	mu := MetaUndefined(0x0A, []byte{1, 2})
	check("MetaUndefined(0x0A, {1,2})", mu)
	if mu.Type() != MetaUndefinedMsg {
		t.Errorf("MetaUndefined(0x0A, {1,2}) = % X has type %v, not %v", []byte(mu), mu.Type(), MetaUndefinedMsg)
	}

	// the reader: a file with a meta event of a type the library has no name for (FF 60 01 07)
	file := []byte{
		'M', 'T', 'h', 'd', 0, 0, 0, 6, 0, 0, 0, 1, 0, 96,
		'M', 'T', 'r', 'k', 0, 0, 0, 9,
		0x00, 0xFF, 0x60, 0x01, 0x07,
		0x00, 0xFF, 0x2F, 0x00,
	}
	s, err := ReadFrom(bytes.NewReader(file))
	if err != nil {
		t.Fatalf("can't read the file: %v", err)
	}
	if len(s.Tracks) != 1 || len(s.Tracks[0]) < 1 {
		t.Fatalf("unexpected tracks %v", s.Tracks)
	}
	check("read from file:", s.Tracks[0][0].Message)

	if bad > 0 {
		t.Errorf("%d of %d messages: the two membership tests for the meta category disagree", bad, total)
	}
}
