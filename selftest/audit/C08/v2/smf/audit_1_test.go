package smf

import (
	"fmt"
	"testing"

	"gitlab.com/gomidi/midi/v2"
)

// C08: the classification must be total (no panic) and consistent with the accessors.
//
// Every Get* accessor may be asked "do you accept this message?" with nil destinations
// ("Only arguments that are not nil are parsed and filled." - this sentence is also part of the
// documentation of smf.Message.GetSysEx). For every complete sysex message (F0 ... F7, three and
// more bytes; 256 of the exhaustively covered strings of length 3) that question panics with a
// nil pointer dereference; for every other byte string it answers false.

func audit1Try(f func() bool) (res bool, p interface{}) {
	defer func() { p = recover() }()
	return f(), nil
}

func TestAudit1GetSysExNilDestinationPanics(t *testing.T) {
	var shown int
	var panics, total int
	check := func(bt []byte) {
		total++
		var dest []byte
		want := midi.Message(bt).GetSysEx(&dest)

		for _, c := range []struct {
			name string
			f    func() bool
		}{
			{"smf.Message.GetSysEx(nil)", func() bool { return Message(bt).GetSysEx(nil) }},
			{"midi.Message.GetSysEx(nil)", func() bool { return midi.Message(bt).GetSysEx(nil) }},
		} {
			got, p := audit1Try(c.f)
			if p != nil {
				panics++
				if shown < 6 {
					shown++
					t.Errorf("% X (type %v): %s panics: %v", bt, Message(bt).Type(), c.name, p)
				}
				continue
			}
			if got != want {
				t.Errorf("% X: %s = %v, with a destination %v", bt, c.name, got, want)
			}
		}
	}

	// exhaustively: all strings of length 0..3 that start with F0 or F7 (nothing else is a sysex)
	check(nil)
	for _, a := range []byte{0xF0, 0xF7} {
		check([]byte{a})
		for b := 0; b < 256; b++ {
			check([]byte{a, byte(b)})
			for c := 0; c < 256; c++ {
				check([]byte{a, byte(b), byte(c)})
			}
		}
	}
	// what the library itself produces
	check(midi.SysEx([]byte{0x7E, 0x7F, 0x06, 0x01}))

	if panics > 0 {
		t.Errorf("%s", fmt.Sprintf("%d of %d calls on sysex candidates panicked", panics, 2*total))
	}
}
