#!/bin/bash
# selftest/mutant.sh <patch.diff> [ID ...]
# Applies a patch to a scratch worktree of /repo (outside /repo and /verif), confirms that it
# compiles and that the pinned baseline suite still passes, then runs the quick checks of the
# given properties (default: all 20) against the scratch copy and prints which ones fire.
# The scratch worktree and its build output are removed afterwards.
set -u
cd "$(dirname "$0")/.."
PATCH="$(readlink -f "$1")"; shift
IDS="${*:-C01 C02 C03 C04 C05 C06 C07 C08 C09 C10 C11 C12 C13 C14 C15 C16 C17 C18 C19 C20}"
export GOFLAGS=-mod=mod GOPROXY=off GOSUMDB=off GOTOOLCHAIN=local
WT=$(mktemp -d /tmp/mutant.XXXXXX)
git -C /repo worktree add -q --detach "$WT/repo" HEAD || exit 3
cleanup() {
  tag=$(echo "$WT/repo" | md5sum | cut -c1-8)
  rm -rf ".build/bin-$tag" ".build/alt-$tag.mod" ".build/alt-$tag.sum"
  git -C /repo worktree remove --force "$WT/repo" 2>/dev/null
  rm -rf "$WT"
}
trap cleanup EXIT
if ! git -C "$WT/repo" apply "$PATCH"; then echo "PATCH-DOES-NOT-APPLY"; exit 3; fi
if ! (cd "$WT/repo/v2" && go build . ./smf/... ./drivers/testdrv/... ./drivers/midicat/... ./drivers/midicatdrv/... ./internal/... ./sequencer/... ./sysex/... ./mmc/... ) ; then echo "DOES-NOT-COMPILE"; exit 3; fi
if VERIF_REPO="$WT/repo" ./baseline.sh > "$WT/base.log" 2>&1; then echo "baseline: passes with the change"; else echo "BASELINE-FAILS"; cat "$WT/base.log"; exit 4; fi
fired=""
for id in $IDS; do
  out=$(VERIF_DIR_KEEP=1 VERIF_REPO="$WT/repo" VERIF_EVIDENCE_DIR="$WT/evidence" ./run.sh "$id" quick 2>&1)
  rc=$?
  n=$(echo "$out" | grep -c '^VIOLATION')
  first=$(echo "$out" | grep -A1 '^VIOLATION' | sed -n 2p | cut -c1-200)
  echo "$id rc=$rc violations=$n $first"
  [ $rc -eq 1 ] && fired="$fired $id"
done
echo "FIRED:$fired"
